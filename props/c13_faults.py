"""C13 -- damaged input: errors stay in the library's family, work stays bounded.

Shape C (single-fault enumeration): for each feature-covering seed document
(mc/refs/seeds.py) the Cartesian product fault-site x fault-kind over its object
model, every stream payload fault (truncate at every length, empty, replace one
byte at every position by 4 values) and every file truncation point; exactly one
fault per execution; three extraction entry points.
"""
from __future__ import annotations

import copy
import io
import itertools
import sys
import traceback
from typing import Any, Dict, Iterator, List, Tuple

from mc.pdfgen import DROP, Doc, HexStr, N, Name, Raw, Ref, Stream
from mc.refs import seeds as S

from pdfminer.high_level import extract_pages, extract_text, extract_text_to_fp
from pdfminer.layout import LAParams
from pdfminer.psexceptions import PSException

ID = "C13"
LEVEL = "model_checking"
DEADLINE = {"quick": 1500, "thorough": 4 * 3600}

ENTRY = ["text", "xml", "pages"]

TIERS = {
    "quick": {"seeds": list(S.SEEDS), "entries": ["text", "xml"], "payload_seeds": ["xref", "crypt", "pages", "incr", "ttf", "aes128", "filters"], "payload_replace": [], "trunc_seeds": ["xref", "incr"], "payload_replace_seeds": {"ttf": [0x00, 0xFF], "filters": [0x00, 0xFF, 0x7E]}},
    "thorough": {"seeds": list(S.SEEDS), "entries": ENTRY, "payload_seeds": list(S.SEEDS), "payload_replace": [0x00, 0xFF, 0x3C, 0x28], "trunc_seeds": list(S.SEEDS), "payload_replace_seeds": {}},
}

META = {
    "rule": (
        "seeds: 12 generated documents (page tree+labels; simple fonts; composite fonts; xref/object streams; graphics/images/"
        "colour spaces/inline image/nested forms; RC4, AES-128 and AES-256 (R6) encryption; incremental update with /Prev; embedded TrueType "
        "programs with cmap formats 4 and 12; content streams through LZW, RunLength, ASCII85, ASCIIHex, Flate+PNG/TIFF predictors and a filter chain). The generated object stream and "
        "cross-reference stream (dictionary entries and payload) and every stream's /Length are fault sites too; /Prev additionally "
        "gets the values 'offset of its own section' and 'one byte before it' (on the end-of-line in front of the xref keyword). cycle2: every two objects of one /Type and /Subtype whose same key holds a reference (or an array starting with one) made to name each other there (cycles of length two: Type0 fonts as each other's descendant, page-tree nodes as each other's kid or parent). structural faults: every dictionary entry, array element, stream-dictionary "
        "entry, top-level object and trailer entry x {null,int,real,name,string,array,dict,boolean,ref->self,ref->missing,"
        "ref->ancestor(cycle), empty array, empty dict, 2**70, 2**63-1, 10**400, a 400-digit real, -1, 0} (the representative of the value's own type skipped) plus key removal; payload faults: every stream truncated at "
        "every length and emptied (thorough: one byte replaced at every position by 00,FF,'<','('); file truncated at every byte; content-stream faults on the graphics seed, whose "
        "page content is kept as a list of 117 operator invocations covering 71 distinct operators: every operand x {the 16 wrong-type/extreme values, 0, nested array, mixed array, removed, duplicated}, every operator dropped "
        "(its operands stay on the stack), every operator repeated without operands, every operator replaced by each of the 76 other keywords (all operators of the seed, d0, d1, R, obj, endstream, an unknown word); token faults: in every unfiltered text-like stream (ToUnicode and embedded CMaps, Type3 glyph procedures, content streams) "
        "every white-space delimited token replaced by each of 16 tokens (nothing, <>, 1-, 4- and 8-byte hex strings, 0, 7, -1, 99999999999, a name, a string, [ ] << >>, an unknown word). "
        "The undamaged seeds and every 7th structural fault are also run with the library's loggers at DEBUG (the --debug configuration). One fault per execution, each run through the listed entry points under a counted work budget (sys.monitoring "
        "PY_START+JUMP events <= 50 x the undamaged seed's count + 100000 + 2000 x file length). non-trivial = the damaged file differs from the seed "
        "and the outcome was judged; a 'scaling' family runs valid documents of 16/64/256 pages (classic table; everything in one "
        "object stream) and requires that quadrupling the size multiplies the counted events by at most 6, and page trees of 6/12/24 nested levels whose Kids list the same child twice (2**d paths, d nodes) whose work may at most grow 6-fold per doubling; distinct outcomes = (entry point, outcome class, exception type, raising function). "
        "states = damaged documents reached from a seed by one fault (exhaustive single-fault frontier of the fault injector), "
        "transitions = fault applications, traces = executions of an entry point on a damaged document, each judged."
    ),
    "bound": {
        "quick": "structural faults on all 12 seeds x {extract_text, extract_text_to_fp(xml)}; payload truncation at every length on 7 seeds (xref-stream, TrueType and filtered-content payloads also 00/FF at every position); file truncation at every byte of 2 seeds; all 12684 content-stream operator/operand faults",
        "thorough": "structural + payload (truncate, empty, 4 byte values at every position) + every-byte truncation + content-stream and token faults on all 12 seeds x 3 entry points",
    },
    "assumptions": [
        "single faults only; fault values are one representative per PDF type",
        "AssertionError is tolerated (the repository's own fuzz contract fuzzing/extract_text_fuzzer.py accepts it) and counted separately",
        "'work bounded in proportion to input size' is decided against the bound 50 x baseline + 1e5 + 2000 x file length events (chosen constants)",
        "faults are applied to generated seeds; features the seeds do not contain (JBIG2, CFF font programs, public-key handlers) are not reached",
    ],
}

KINDS = ["null", "int", "real", "name", "string", "array", "dict", "boolean", "refself", "refmissing", "refancestor", "remove",
         "emptyarray", "emptydict", "bigint", "negint", "maxint", "hugeint", "hugereal", "zero"]
# extreme values of a type: applied even where the site already has that type
EXTREME = {"emptyarray": "array", "emptydict": "dict", "bigint": "int", "negint": "int", "maxint": "int", "hugeint": "int", "hugereal": "real", "zero": "int"}


def kind_value(kind: str, num: int, ancestor: int) -> Any:
    return {
        "null": None, "int": 7, "real": 1.5, "name": N("Zz"), "string": b"zz", "array": [1, b"s"], "dict": {"Zz": 1},
        "boolean": True, "refself": Ref(num), "refmissing": Ref(9999), "refancestor": Ref(ancestor),
        "emptyarray": [], "emptydict": {}, "bigint": 2**70, "negint": -1, "maxint": 2**63 - 1, "hugeint": 10**400, "hugereal": Raw(b"9" * 400 + b".5"), "zero": 0,
    }[kind]


# content-stream faults (seeds whose kw carries "ops": the operator list of one content stream)
OPKINDS = ["null", "int", "real", "name", "string", "array", "dict", "boolean", "refself", "emptyarray", "emptydict", "bigint", "negint", "maxint",
           "hugeint", "hugereal", "zero", "nested", "mixed", "remove", "dup"]
OP_EXTRA = {"zero": 0, "nested": [[1, [2]], {"a": [b"s"]}], "mixed": [b"a", N("b"), None, 1.5, [], {}]}
EXTRA_KEYWORDS = ["d0", "d1", "R", "obj", "endstream", "zz"]


def op_faults(name: str) -> List[Tuple]:
    doc, kw = S.SEEDS[name]()
    if "ops" not in kw:
        return []
    ops = S.GFX_OPS
    out: List[Tuple] = []
    for i, (operands, op, raw) in enumerate(ops):
        for j, v in enumerate(operands):
            t = type_of(v)
            for kind in OPKINDS:
                if kind != t and not (kind == "zero" and v == 0):
                    out.append(("operand", i, j, kind))
        out.append(("opdrop", i))
        out.append(("opdup", i))
    words = sorted({op for _, op, _ in ops}) + EXTRA_KEYWORDS
    for i, (operands, op, raw) in enumerate(ops):
        for w in words:
            if w != op:
                out.append(("opreplace", i, w))
    return out


def damaged_ops(fault: Tuple, num: int) -> bytes:
    ops = [(list(a), op, raw) for a, op, raw in S.GFX_OPS]
    i = fault[1]
    operands, op, raw = ops[i]
    if fault[0] == "operand":
        _, _, j, kind = fault
        if kind == "remove":
            del operands[j]
        elif kind == "dup":
            operands.insert(j, operands[j])
        else:
            operands[j] = OP_EXTRA[kind] if kind in OP_EXTRA else kind_value(kind, num, num)
    elif fault[0] == "opdrop":
        ops[i] = (operands, "", raw)
    elif fault[0] == "opdup":
        ops.insert(i + 1, ([], op, b""))
    elif fault[0] == "opreplace":
        ops[i] = (operands, fault[2], raw)
    return S.ser_ops(ops)


# token faults on text-like stream payloads (CMaps, content streams): every white-space delimited token replaced by each of these
TOKEN_REPL = [b"", b"<>", b"<FF>", b"<FFFFFFFF>", b"<0000000000000000>", b"0", b"7", b"-1", b"99999999999", b"/Zz", b"(s)", b"[", b"]", b"<<", b">>", b"zz"]


def text_streams(name: str) -> List[int]:
    doc, kw = S.SEEDS[name]()
    out = []
    for num in sorted(doc.objs):
        o = doc.objs[num][1]
        if isinstance(o, Stream) and "Filter" not in o.d and num != kw.get("ops") and o.data and all(32 <= b < 127 or b in (9, 10, 13) for b in o.data):
            out.append(num)
    return out


def _tokens(data: bytes) -> List[Tuple[int, int]]:
    import re

    return [(m.start(), m.end()) for m in re.finditer(rb"[^ \t\r\n]+", data)]


def token_faults(name: str) -> List[Tuple]:
    doc, kw = S.SEEDS[name]()
    out: List[Tuple] = []
    for num in text_streams(name):
        data = doc.objs[num][1].data
        for i, (a, b) in enumerate(_tokens(data)):
            for r, repl in enumerate(TOKEN_REPL):
                if data[a:b] != repl:
                    out.append(("tok", num, i, r))
    return out


def type_of(v: Any) -> str:
    if v is None:
        return "null"
    if isinstance(v, bool):
        return "boolean"
    if isinstance(v, int):
        return "int"
    if isinstance(v, float):
        return "real"
    if isinstance(v, Name):
        return "name"
    if isinstance(v, (bytes, bytearray)):
        return "string"
    if isinstance(v, (list, tuple)):
        return "array"
    if isinstance(v, dict):
        return "dict"
    if isinstance(v, Ref):
        return "ref"
    if isinstance(v, Stream):
        return "stream"
    return "other"


def walk(o: Any, path: Tuple) -> Iterator[Tuple[Tuple, Any, bool]]:
    """yield (path, value, removable) for every value site below o"""
    if isinstance(o, Stream):
        for k, v in o.d.items():
            yield path + (("sd", k),), v, True
            yield from walk(v, path + (("sd", k),))
        if "Length" not in o.d and o.length == "auto":
            yield path + (("len", "Length"),), len(o.data), True
    elif isinstance(o, dict):
        for k, v in o.items():
            yield path + (("k", k),), v, True
            yield from walk(v, path + (("k", k),))
    elif isinstance(o, (list, tuple)):
        for i, v in enumerate(o):
            yield path + (("i", i),), v, False
            yield from walk(v, path + (("i", i),))


def refs_in(o: Any) -> Iterator[int]:
    if isinstance(o, Ref):
        yield o.num
    elif isinstance(o, Stream):
        yield from refs_in(o.d)
    elif isinstance(o, dict):
        for v in o.values():
            yield from refs_in(v)
    elif isinstance(o, (list, tuple)):
        for v in o:
            yield from refs_in(v)


def ancestors(doc: Doc, root: int) -> Dict[int, int]:
    """object number -> a referrer closer to the root (BFS tree parent); root -> root"""
    par = {root: root}
    q = [root]
    while q:
        n = q.pop(0)
        if n not in doc.objs:
            continue
        for m in refs_in(doc.objs[n][1]):
            if m not in par:
                par[m] = n
                q.append(m)
    return par


def get_at(doc: Doc, num: int, path: Tuple) -> Any:
    o = doc.objs[num][1]
    for step, k in path:
        o = o.d[k] if step == "sd" else o[k]
    return o


def set_at(doc: Doc, num: int, path: Tuple, value: Any, remove: bool = False) -> None:
    if not path:
        g = doc.objs[num][0]
        doc.objs[num] = (g, value)
        return
    o = doc.objs[num][1]
    _set_in(o, path, value, remove)


def _set_in(o: Any, path: Tuple, value: Any, remove: bool) -> None:
    for step, k in path[:-1]:
        o = o.d[k] if step == "sd" else o[k]
    step, k = path[-1]
    if step == "len":
        o.length = None if remove else value
        return
    c = o.d if step == "sd" else o
    if remove:
        del c[k]
    else:
        c[k] = value


def structural_faults(name: str) -> List[Tuple]:
    doc, kw = S.SEEDS[name]()
    out = []
    for num in sorted(doc.objs):
        obj = doc.objs[num][1]
        sites = [((), obj, False)] + list(walk(obj, ()))
        for path, v, removable in sites:
            t = type_of(v)
            for kind in KINDS:
                if kind == "remove":
                    if removable:
                        out.append(("struct", num, path, kind))
                elif kind != t:
                    out.append(("struct", num, path, kind))
    for key in ["Root", "Info", "Size", "ID", "Encrypt", "Prev"]:
        if key == "Prev" and "writer" not in kw:
            continue
        for kind in KINDS + (["offsetself", "offsetselfws"] if key == "Prev" else []):
            if kind == "remove" or key in ("Root", "Size", "Prev") or key in (kw.get("trailer_extra") or {}) or (key == "Info" and kw.get("info")):
                out.append(("trailer", key, kind))
    # generated object stream / cross-reference stream dictionaries
    for which, st in generated_streams(name).items():
        for path, v, removable in walk(st, ()):
            t = type_of(v)
            for kind in KINDS:
                if kind == "remove":
                    if removable:
                        out.append(("gen", which, path, kind))
                elif kind != t:
                    out.append(("gen", which, path, kind))
    return out


# cycles of length two: two objects of the same /Type and /Subtype whose SAME key holds a reference (or an array starting
# with one) are made to name each other there (two Type0 fonts as each other's descendant, two page-tree nodes as each
# other's kid or parent, two outline items as each other's /Next ...); the single-fault kinds reach self-references only
def cycle2_faults(name: str) -> List[Tuple]:
    doc, kw = S.SEEDS[name]()
    groups: Dict[Tuple, List[int]] = {}
    for num in sorted(doc.objs):
        obj = doc.objs[num][1]
        d = obj.d if isinstance(obj, Stream) else obj
        if isinstance(d, dict) and isinstance(d.get("Type"), Name):
            groups.setdefault((repr(d.get("Type")), repr(d.get("Subtype"))), []).append(num)
    out = []
    for nums in groups.values():
        for a, b in itertools.combinations(nums, 2):
            da, db = (doc.objs[n][1].d if isinstance(doc.objs[n][1], Stream) else doc.objs[n][1] for n in (a, b))
            for k in sorted(set(da) & set(db)):
                def shape(v):
                    return "ref" if isinstance(v, Ref) else "list" if isinstance(v, list) and v and isinstance(v[0], Ref) else None
                if shape(da[k]) and shape(da[k]) == shape(db[k]):
                    out.append(("cycle2", a, b, k, shape(da[k])))
    return out


# pairs of faults on the cross-reference stream dictionary (/W, /Index, /Size and their elements): the entries are read together
# (entry length x entry count), so some defects need two of them damaged (added after seeded defect C13_20 was missed)
GEN2_VALUES = {"zero": 0, "big": 2**40, "zeros": [0, 0, 0], "empty": []}


def gen2_faults(name: str) -> List[Tuple]:
    out: List[Tuple] = []
    st = generated_streams(name).get("xrefstm")
    if st is None:
        return out
    sites = [(p, v) for p, v, _ in walk(st, ()) if p and p[0][1] in ("W", "Index", "Size")]
    single = []
    for path, v in sites:
        for kind, val in GEN2_VALUES.items():
            if isinstance(val, list) != isinstance(v, list) or val == v:
                continue
            single.append((path, kind))
    for i in range(len(single)):
        for j in range(i + 1, len(single)):
            if single[i][0] != single[j][0]:
                out.append(("gen2", "xrefstm", single[i], single[j]))
    return out


def generated_streams(name: str) -> Dict[str, Stream]:
    doc, kw = S.SEEDS[name]()
    got: Dict[str, Stream] = {}
    if "writer" not in kw and kw.get("xref") == "stream":
        S.write(doc, kw, mutate=lambda kind, st: got.__setitem__(kind, copy.deepcopy(st)))
    return got


def materialise(name: str, fault: Tuple) -> bytes:
    doc, kw = S.SEEDS[name]()
    kw = copy.deepcopy(kw)
    root = kw["root"].num
    if fault[0] == "struct":
        _, num, path, kind = fault
        if kind == "remove":
            set_at(doc, num, path, None, remove=True)
        else:
            anc = ancestors(doc, root).get(num, root)
            set_at(doc, num, path, kind_value(kind, num, anc))
    elif fault[0] == "trailer":
        _, key, kind = fault
        te = dict(kw.get("trailer_extra") or {})
        te[key] = DROP if kind == "remove" else S.SELF_OFFSET if kind == "offsetself" else S.SELF_OFFSET_WS if kind == "offsetselfws" else kind_value(kind, root, root)
        if key == "Info" and kind == "remove":
            kw["info"] = None
            te.pop("Info")
        kw["trailer_extra"] = te
    elif fault[0] == "cycle2":
        _, a, b, k, shp = fault
        for x, y in ((a, b), (b, a)):
            set_at(doc, x, ((("sd" if isinstance(doc.objs[x][1], Stream) else "k"), k),), Ref(y) if shp == "ref" else [Ref(y)])
    elif fault[0] == "payload":
        _, num, op, pos, val = fault
        st = doc.objs[num][1]
        if op == "trunc":
            st.data = st.data[:pos]
        else:
            st.data = st.data[:pos] + bytes([val]) + st.data[pos + 1:]
    elif fault[0] == "tok":
        _, num, i, r = fault
        st = doc.objs[num][1]
        a, b = _tokens(st.data)[i]
        st.data = st.data[:a] + TOKEN_REPL[r] + st.data[b:]
    elif fault[0] in ("operand", "opdrop", "opdup", "opreplace"):
        doc.objs[kw["ops"]][1].data = damaged_ops(fault, kw["ops"])
    mutate = None
    if fault[0] == "gen":
        _, which, path, kind = fault

        def mutate(k, st, which=which, path=path, kind=kind):
            if k == which:
                _set_in(st, path, None if kind == "remove" else kind_value(kind, root, root), kind == "remove")
    elif fault[0] == "gen2":
        # two faults at once on the dictionary of the generated cross-reference stream
        _, which, (p1, k1), (p2, k2) = fault

        def mutate(k, st, which=which):
            if k == which:
                for path, kind in ((p1, k1), (p2, k2)):
                    try:
                        _set_in(st, path, GEN2_VALUES[kind], False)
                    except (KeyError, IndexError, TypeError):
                        pass  # the first fault removed the site of the second
    elif fault[0] == "genpayload":
        _, which, op, pos, val = fault

        def mutate(k, st, which=which, op=op, pos=pos, val=val):
            if k == which:
                st.data = st.data[:pos] if op == "trunc" else st.data[:pos] + bytes([val]) + st.data[pos + 1:]
    data = S.write(doc, kw, mutate=mutate)
    if fault[0] == "filetrunc":
        data = data[: fault[1]]
    return data


# ------------------------------------------------------------------ execution
class WorkExceeded(BaseException):
    pass


_MON = {"on": False, "count": 0, "budget": 0}
TID = 3


def _cb2(code, off):
    _MON["count"] += 1
    if _MON["count"] > _MON["budget"]:
        sys.monitoring.set_events(TID, 0)
        raise WorkExceeded()


def _cb3(code, off, dst):
    _MON["count"] += 1
    if _MON["count"] > _MON["budget"]:
        sys.monitoring.set_events(TID, 0)
        raise WorkExceeded()


def _mon_init():
    if not _MON["on"]:
        m = sys.monitoring
        if m.get_tool(TID) is None:
            m.use_tool_id(TID, "c13")
        m.register_callback(TID, m.events.PY_START, _cb2)
        m.register_callback(TID, m.events.JUMP, _cb3)
        _MON["on"] = True


def run_entry(entry: str, data: bytes, budget: int) -> Tuple[str, str, int]:
    """(class, detail, events). class in ok|family|assert|leak|recursion|work"""
    _mon_init()
    m = sys.monitoring
    _MON["count"] = 0
    _MON["budget"] = budget
    cls, detail = "ok", ""
    m.set_events(TID, m.events.PY_START | m.events.JUMP)
    try:
        try:
            if entry == "text":
                extract_text(io.BytesIO(data))
            elif entry == "xml":
                extract_text_to_fp(io.BytesIO(data), io.StringIO(), output_type="xml", laparams=LAParams(), codec=None)
            else:
                for _ in extract_pages(io.BytesIO(data)):
                    pass
        finally:
            m.set_events(TID, 0)
    except WorkExceeded as e:
        cls, detail = "work", _work_where(e)
    except PSException as e:
        cls, detail = "family", type(e).__name__
    except AssertionError as e:
        cls, detail = "assert", _where(e)
    except RecursionError as e:
        cls, detail = "recursion", _recursion_where(e)
    except Exception as e:  # noqa
        cls, detail = "leak", f"{type(e).__name__}@{_where(e)}"
    return cls, detail, _MON["count"]


def _frames(e: BaseException) -> List[str]:
    out = []
    for fr in traceback.extract_tb(e.__traceback__):
        fn = fr.filename.replace("\\", "/")
        if "/pdfminer/" in fn:
            out.append(fn.rsplit("/", 1)[1][:-3] + "." + fr.name)
    return out


def _where(e: BaseException) -> str:
    fr = _frames(e)
    if not fr:
        return "?"
    return fr[-1] + ("<" + fr[-2] if len(fr) > 1 and fr[-2] != fr[-1] else "")


def _recursion_where(e: BaseException) -> str:
    """the two innermost distinct pdfminer functions on the stack (entry points excluded)"""
    fr = [f for f in _frames(e) if not f.startswith("high_level.")]
    out: List[str] = []
    for f in reversed(fr):
        if f not in out:
            out.append(f)
        if len(out) == 2:
            break
    return "<".join(out) if out else "?"


def _work_where(e: BaseException) -> str:
    """the two OUTERMOST distinct pdfminer functions below the entry point: where the budget runs out is arbitrary, the loop
    that drives the work is not"""
    fr = [f for f in _frames(e) if not f.startswith("high_level.")]
    out: List[str] = []
    for f in fr:
        if f not in out:
            out.append(f)
        if len(out) == 2:
            break
    return ">".join(out) if out else "?"


_BASE: Dict[Tuple[str, str], int] = {}


def baseline(name: str, entry: str) -> int:
    k = (name, entry)
    if k not in _BASE:
        cls, detail, n = run_entry(entry, S.build(name), 10**9)
        if cls != "ok":
            raise RuntimeError(f"seed {name} does not extract cleanly via {entry}: {cls} {detail}")
        _BASE[k] = n
    return _BASE[k]


def judge(st, name: str, fault: Tuple, data: bytes, entries: List[str], seed_bytes: bytes) -> None:
    # one state per damaged document (seed --fault--> state), one trace per execution of an entry point on it
    st.states += 1
    st.transitions += 1
    for entry in entries:
        st.traces += 1
        # proportional to the input: a TrueType cmap segment may legitimately expand to 65536 characters per 8 bytes
        budget = 50 * baseline(name, entry) + 100000 + 2000 * len(data)
        cls, detail, n = run_entry(entry, data, budget)
        st.case((name, fault, entry), nontrivial=(data != seed_bytes), outcome=(entry, cls, detail))
        st.add("outcome_" + cls, 1)
        if cls in ("leak", "recursion", "work"):
            sig = f"C13/{cls}:{detail}"
            st.violation(sig, {"seed": name, "fault": fault, "entry": entry, "data": data, "budget": budget}, "returns or raises PSException family within budget",
                         f"{cls} {detail} after {n} events (budget {budget})", f"{entry} on seed '{name}' with fault {fault!r}")


def scaling_doc(n: int, layout: str) -> bytes:
    """n one-glyph pages; layout 'objstm' packs catalog, page tree and pages in one object stream"""
    d = Doc()
    f1 = d.add({"Type": N("Font"), "Subtype": N("Type1"), "BaseFont": N("Helvetica")})
    cat, pages = d.reserve(), d.reserve()
    content = d.add(Stream({}, b"BT /F1 9 Tf 10 10 Td (x) Tj ET"))
    kids = [d.add({"Type": N("Page"), "Parent": pages, "MediaBox": [0, 0, 50, 50], "Resources": {"Font": {"F1": f1}}, "Contents": content}) for _ in range(n)]
    d.set(cat, {"Type": N("Catalog"), "Pages": pages})
    d.set(pages, {"Type": N("Pages"), "Kids": kids, "Count": n})
    if layout == "objstm":
        return d.write(cat, xref="stream", objstm=[cat.num, pages.num, f1.num] + [k.num for k in kids])
    return d.write(cat)


def ladder_doc(d: int) -> bytes:
    """d nested /Pages levels whose Kids list the SAME child twice: the file grows linearly with d, the number of root-to-leaf
    paths as 2**d. Each node is visited once (C04), so the work must stay linear (added after seeded defect C13_6 was missed)."""
    doc = Doc()
    f1 = doc.add({"Type": N("Font"), "Subtype": N("Type1"), "BaseFont": N("Helvetica")})
    cat = doc.reserve()
    nodes = [doc.reserve() for _ in range(d)]
    content = doc.add(Stream({}, b"BT /F1 9 Tf 10 10 Td (x) Tj ET"))
    page = doc.add({"Type": N("Page"), "Parent": nodes[-1], "MediaBox": [0, 0, 50, 50], "Resources": {"Font": {"F1": f1}}, "Contents": content})
    doc.set(cat, {"Type": N("Catalog"), "Pages": nodes[0]})
    for i, nd in enumerate(nodes):
        child = nodes[i + 1] if i + 1 < d else page
        o = {"Type": N("Pages"), "Kids": [child, child], "Count": 1}
        if i:
            o["Parent"] = nodes[i - 1]
        doc.set(nd, o)
    return doc.write(cat)


def check_scaling(st) -> None:
    """work on VALID documents grows in proportion to their size: quadrupling the number of pages must not
    multiply the counted events by more than 6 (a reparse-per-object defect gives ~16)"""
    for layout in ("table", "objstm"):
        for entry in ("text", "xml"):
            ev = {}
            for n in (16, 64, 256):
                cls, detail, cnt = run_entry(entry, scaling_doc(n, layout), 10**9)
                if cls != "ok":
                    raise RuntimeError(f"scaling document does not extract: {cls} {detail}")
                ev[n] = cnt
            st.states += 3
            st.transitions += 3
            st.traces += 3
            st.case(("scaling", layout, entry), outcome=("scaling", layout, entry, ev[64] * 10 // ev[16], ev[256] * 10 // ev[64]))
            st.add("scaling_ratio_x1000_%s_%s" % (layout, entry), ev[256] * 1000 // ev[64])
            for a, b in ((16, 64), (64, 256)):
                if ev[b] > 6 * ev[a]:
                    st.violation(f"C13/work-superlinear:{layout}", {"scaling": True, "layout": layout, "entry": entry, "n": [a, b]}, f"events({b} pages) <= 6 x events({a} pages)",
                                 f"{ev[a]} -> {ev[b]} events", "work grows faster than the input")
    for entry in ("text", "xml"):
        ev = {}
        for d in (6, 12, 24):
            cls, detail, cnt = run_entry(entry, ladder_doc(d), 3 * 10**6)
            ev[d] = cnt if cls == "ok" else 10**9
            st.states += 1
            st.transitions += 1
            st.traces += 1
        st.case(("scaling", "ladder", entry), outcome=("scaling", "ladder", entry, ev[12] * 10 // ev[6], ev[24] * 10 // ev[12]))
        for a, b in ((6, 12), (12, 24)):
            if ev[b] > 6 * ev[a]:
                st.violation("C13/work-superlinear:ladder", {"scaling": True, "layout": "ladder", "entry": entry, "n": [a, b]}, f"events(depth {b}) <= 6 x events(depth {a})",
                             f"{ev[a]} -> {ev[b]} events", "a page tree whose Kids repeat one child on every level is walked once per path")
    st.sample({"family": "scaling", "pages": [16, 64, 256], "layouts": ["table", "objstm"], "ladder_depths": [6, 12, 24]})


def shards(tier):
    t = TIERS[tier]
    out = [("scaling",)]
    out += [("debuglog", name) for name in t["seeds"]]
    for name in t["seeds"]:
        fs = structural_faults(name)
        for i in range(0, len(fs), 120):
            out.append(("struct", name, i, min(i + 120, len(fs))))
    for name in t["seeds"]:
        fs = op_faults(name)
        for i in range(0, len(fs), 200):
            out.append(("ops", name, i, min(i + 200, len(fs))))
    for name in t["seeds"]:
        fs = token_faults(name)
        for i in range(0, len(fs), 250):
            out.append(("tokens", name, i, min(i + 250, len(fs))))
    for name in t["seeds"]:
        if cycle2_faults(name):
            out.append(("cycle2", name))
    for name in ("xref", "xrefidx"):
        fs = gen2_faults(name)
        for i in range(0, len(fs), 150):
            out.append(("gen2", name, i, min(i + 150, len(fs))))
    for name in t["payload_seeds"]:
        doc, kw = S.SEEDS[name]()
        for num in sorted(doc.objs):
            if isinstance(doc.objs[num][1], Stream):
                out.append(("payload", name, num))
        for which in generated_streams(name):
            out.append(("genpayload", name, which))
    for name in t["trunc_seeds"]:
        n = len(S.build(name))
        for i in range(0, n, 150):
            out.append(("filetrunc", name, i, min(i + 150, n)))
    return out


def run_shard(shard, tier, st):
    t = TIERS[tier]
    if shard[0] == "scaling":
        check_scaling(st)
        return
    name = shard[1]
    seed_bytes = S.build(name)
    if shard[0] == "debuglog":
        # configuration: the library's loggers at DEBUG (pdf2txt --debug); the runner switches logging off globally, this shard switches it on.
        # The undamaged seed and every 7th structural fault are run again: log statements must not change the outcome class.
        import logging

        lg = logging.getLogger("pdfminer")
        h = logging.NullHandler()
        lg.addHandler(h)
        lg.setLevel(logging.DEBUG)
        lg.propagate = False
        disabled = logging.root.manager.disable
        logging.disable(logging.NOTSET)
        try:
            judge(st, name, ("debuglog", "undamaged"), seed_bytes, t["entries"], b"")
            for f in structural_faults(name)[::7]:
                judge(st, name, ("debuglog",) + f, materialise(name, f), t["entries"], seed_bytes)
            st.sample({"seed": name, "family": "debuglog", "logger": "pdfminer", "level": "DEBUG"})
        finally:
            logging.disable(disabled)
            lg.removeHandler(h)
            lg.setLevel(logging.NOTSET)
            lg.propagate = True
        return
    if shard[0] == "struct":
        fs = structural_faults(name)[shard[2]:shard[3]]
        for f in fs:
            data = materialise(name, f)
            judge(st, name, f, data, t["entries"], seed_bytes)
        if shard[2] == 0:
            st.sample({"seed": name, "fault": fs[3], "bytes": len(seed_bytes)})
    elif shard[0] == "cycle2":
        fs = cycle2_faults(name)
        for f in fs:
            judge(st, name, f, materialise(name, f), t["entries"], seed_bytes)
        st.sample({"seed": name, "fault": fs[0], "family": "two objects of one kind naming each other under the same key", "n": len(fs)})
    elif shard[0] == "gen2":
        fs = gen2_faults(name)[shard[2]:shard[3]]
        for f in fs:
            judge(st, name, f, materialise(name, f), t["entries"], seed_bytes)
        if shard[2] == 0:
            st.sample({"seed": name, "fault": fs[0], "family": "two faults on the xref-stream dictionary"})
    elif shard[0] == "tokens":
        fs = token_faults(name)[shard[2]:shard[3]]
        for f in fs:
            judge(st, name, f, materialise(name, f), t["entries"], seed_bytes)
        if shard[2] == 0:
            st.sample({"seed": name, "fault": fs[3], "text_streams": text_streams(name), "replacements": [x.decode() for x in TOKEN_REPL]})
    elif shard[0] == "ops":
        fs = op_faults(name)[shard[2]:shard[3]]
        for f in fs:
            judge(st, name, f, materialise(name, f), t["entries"], seed_bytes)
        if shard[2] == 0:
            st.sample({"seed": name, "fault": fs[5], "operators": len(S.GFX_OPS)})
    elif shard[0] == "payload":
        num = shard[2]
        doc, kw = S.SEEDS[name]()
        n = len(doc.objs[num][1].data)
        for pos in range(0, n):
            f = ("payload", num, "trunc", pos, 0)
            judge(st, name, f, materialise(name, f), t["entries"], seed_bytes)
            for val in t["payload_replace"] or t["payload_replace_seeds"].get(name, []):
                if doc.objs[num][1].data[pos] != val:
                    f = ("payload", num, "byte", pos, val)
                    judge(st, name, f, materialise(name, f), t["entries"], seed_bytes)
    elif shard[0] == "genpayload":
        which = shard[2]
        st0 = generated_streams(name)[which]
        for pos in range(0, len(st0.data)):
            f = ("genpayload", which, "trunc", pos, 0)
            judge(st, name, f, materialise(name, f), t["entries"], seed_bytes)
            for val in t["payload_replace"] or ([0x00, 0xFF] if which == "xrefstm" else []):
                if st0.data[pos] != val:
                    f = ("genpayload", which, "byte", pos, val)
                    judge(st, name, f, materialise(name, f), t["entries"], seed_bytes)
    else:
        for cut in range(shard[2], shard[3]):
            f = ("filetrunc", cut)
            judge(st, name, f, seed_bytes[:cut], t["entries"], seed_bytes)
        if shard[2] == 0:
            st.sample({"seed": name, "fault": ["filetrunc", "every byte 0..%d" % len(seed_bytes)]})


def replay(case):
    if case.get("scaling"):
        from mc.core import Stats

        st = Stats()
        check_scaling(st)
        return [{"signature": v["signature"], "expected": v["expected"], "observed": v["observed"]} for v in st.violations]
    budget = case["budget"]
    cls, detail, n = run_entry(case["entry"], case["data"], budget)
    if cls in ("leak", "recursion", "work"):
        return [{"signature": f"C13/{cls}:{detail}", "expected": "returns or PSException family", "observed": f"{cls} {detail} after {n} events"}]
    return []
