"""C12 -- extraction is a pure function: deterministic, cache- and history-independent.

Shape A over call histories on the real process-wide state.  Every execution of
pdfminer code happens in a forked child of a process that has only *imported*
pdfminer (the runner's parent / its pool workers never extract anything
themselves), so "the state after history h" is produced by replaying h in a
fresh fork, and "the pure reference" of an operation is its result in a fresh
fork with an empty history (cross-checked against really fresh interpreters
with two hash seeds in the ``ref`` shard).

Families (see META["rule"]):
  ref         fresh-interpreter references; caching on == off; single pages == together
  bfs         explicit-state search over call histories, dedup on a digest of all
              module/class level state of the pdfminer package, to closure
  tree        every history of length 2 (quick) / 3 (thorough), no dedup
  interleave  every interleaving of next() on the page iterators of every document pair
  abort       calls that die in the middle of the library (malformed indirect array elements), then the healthy twin
  api         one PDFDocument/manager/interpreter/device reused for every ordered pair (triple) of API calls
  idorder     all k-subsets of a 3x3 grid of equidistant text boxes, id() order ascending vs descending
"""
from __future__ import annotations

import hashlib
from fractions import Fraction
import io
import itertools
import os
import pickle
import re
import select
import subprocess
import sys
import traceback

import pdfminer.high_level  # noqa: F401  imported here so that every fork starts from the complete import-time state
import pdfminer.layout  # noqa: F401
import pdfminer.pdfinterp  # noqa: F401

from mc.core import ROOT, h64
from mc.pdfgen import Doc, HexStr, N, Ref, Stream, ser, tounicode_cmap, xref_stream_obj

ID = "C12"
LEVEL = "model_checking"
DEADLINE = {"quick": 1200, "thorough": 3 * 3600}

KINDS = ("text", "pages", "xml")

META = {
    "rule": (
        "operation = (document, extract_text | extract_pages | extract_text_to_fp(xml), caching flag, all pages | one "
        "page); a case is one operation executed after one call history in one forked process and compared, page for "
        "page, with its result after the empty history (pageid excluded). bfs: states = distinct digests of the "
        "pdfminer package's module- and class-level state reached, transitions = (state, operation) executions, "
        "search continues until no new digest appears. tree: all histories of the stated length without dedup. "
        "interleave: all merges of the next() sequences of two page iterators. idorder: pdfminer.layout.id / "
        "pdfminer.pdfinterp.id replaced by creation-order counters, ascending vs descending. non-trivial = the history "
        "is not empty (or two iterators are really interleaved / the arrangement has a distance tie). traces = "
        "histories (schedules) executed to the end and compared."
    ),
    "bound": {
        "quick": "pool of 12 colliding documents (222 operations); bfs over the 72 whole-document operations to closure (cap depth 8); all histories of length 2 "
                 "whose first call is a whole-document call with caching on and whose second is any operation except single pages with caching off (36 x 148); every whole-document operation after a document that interns 34000 distinct names; three more documents judged by caching on == off and single pages == together only (unterminated literal string in page 1's font; encrypted top-level string objects shared by two fonts; form invoking a nested form with an invalid BBox); aborted calls: 7 documents in which an indirect array element of a font or form (FontBBox, Widths, FontMatrix, BBox, Matrix; Type 3 and Type 1) is a malformed object, so that an exception escapes from the middle of the library, each x {text, pages, xml} x caching, followed by all 18 operations on their healthy twin with the same object numbers (and by the pool's whole-document operations after the first); API objects: for each of 15 documents (pool, a navigation document with page labels/outlines/destinations, two encrypted ones) x caching, one PDFDocument + resource manager + interpreters + aggregator + TextConverter reused for every ordered pair of calls from {get_page_labels, create_pages, two interleaved create_pages, get_outlines, get_dest x5, layout of all pages, text of all pages}, each answer compared with the answer on fresh objects, and layout/text with extract_pages/extract_text; encrypted documents (RC4-40, RC4-128, V4/V2, AESV2, AESV3 x 2 file keys, same plaintext and object numbers): every ordered pair A then B x {text, pages, xml; text with caching off}, plus interleaved iterators of the two keys of each family; all 20 interleavings of the 3+3 "
                 "next() calls of every document pair incl. a document with itself (78 pairs; caching on, for a document with itself also off/off and on/off); "
                 "all 3- and 4-subsets of a 3x3 grid x 2 boxes_flow",
        "thorough": "same pool; bfs over all 222 operations to closure; the 34000-names prefix as quick; encrypted documents: all ordered triples (text) in addition to the pairs; API objects: all ordered triples of calls; aborted calls: also two different aborted documents in a row, and the pool operations after every one; all histories of length 3 over the 36 whole-document calls followed by "
                    "any of the 222 operations at depth 2 and the 36 at depth 3; interleavings as quick; 3-,4-,5-subsets of the grid x 4 boxes_flow",
    },
    "assumptions": [
        "process-wide state = module globals, class attributes and function-held mutable values (default arguments, function attributes, lru caches, closure cells) of the pdfminer package (digest walks all of them generically); "
        "state kept in other packages (logging, charset_normalizer, cryptography) is not part of the digest",
        "the PostScript symbol tables are abstracted to 'consistent interning' (every entry maps its name to a symbol of that "
        "name and import-time symbols keep their identity), not to their membership: interned names only ever grow",
        "a forked child of a process that has only imported pdfminer counts as a fresh process; the ref shard compares "
        "these references with two really fresh interpreters (PYTHONHASHSEED 0 and 4242)",
        "id() is replaced by a creation-order counter (harness-side module attribute, no source change) so that address "
        "dependence becomes deterministic history dependence; real address layouts are not enumerated",
        "histories longer than the tree bound are covered only through the state-digest argument of the bfs",
        "encrypted documents are written by the independent reference handler mc/refs/security.py (empty user password); password handling itself is C10's",
        "image export and the html/hocr/tag converters are not part of the operations",
    ],
}


# ===================================================================== documents
def _rc4(key: bytes, data: bytes) -> bytes:
    s = list(range(256))
    j = 0
    for i in range(256):
        j = (j + s[i] + key[i % len(key)]) & 255
        s[i], s[j] = s[j], s[i]
    out = bytearray()
    i = j = 0
    for c in data:
        i = (i + 1) & 255
        j = (j + s[i]) & 255
        s[i], s[j] = s[j], s[i]
        out.append(c ^ s[(s[i] + s[j]) & 255])
    return bytes(out)


_PAD = bytes.fromhex("28BF4E5E4E758A4164004E56FFFA01082E2E00B6D0683E802F0CA9FE6453697A")


def _encrypt_doc(d: Doc, docid: bytes):
    """ISO 32000-1 7.6.3 algorithms 2, 3, 4 (V1 R2, 40 bit RC4, empty passwords); returns the Encrypt dict."""
    P = -44
    okey = hashlib.md5(_PAD).digest()[:5]
    O = _rc4(okey, _PAD)
    key = hashlib.md5(_PAD + O + (P & 0xFFFFFFFF).to_bytes(4, "little") + docid).digest()[:5]
    U = _rc4(key, _PAD)

    def enc(o, k):
        if isinstance(o, Stream):
            return Stream({a: enc(b, k) for a, b in o.d.items()}, _rc4(k, o.data))
        if isinstance(o, HexStr):
            return HexStr(_rc4(k, bytes(o)))
        if isinstance(o, (bytes, bytearray)) and not hasattr(o, "v"):
            return _rc4(k, bytes(o))
        if isinstance(o, list):
            return [enc(x, k) for x in o]
        if isinstance(o, dict):
            return {a: enc(b, k) for a, b in o.items()}
        return o

    for num, (gen, obj) in list(d.objs.items()):
        k = hashlib.md5(key + num.to_bytes(3, "little") + gen.to_bytes(2, "little")).digest()[:10]
        d.objs[num] = (gen, enc(obj, k))
    return {"Filter": N("Standard"), "V": 1, "R": 2, "O": HexStr(O), "U": HexStr(U), "P": P}


def _font(base: str, encoding=None, tounicode=None, fixed=False, **extra):
    d = {
        "Type": N("Font"), "Subtype": N("Type1"), "BaseFont": N(base), "FirstChar": 32, "LastChar": 255,
        "Widths": [500 + (0 if fixed else 10 * (i % 7)) for i in range(224)],
        "FontDescriptor": {"Type": N("FontDescriptor"), "FontName": N(base), "Flags": 32, "FontBBox": [0, -200, 1000, 800],
                           "Ascent": 800, "Descent": -200, "ItalicAngle": 0, "CapHeight": 700, "StemV": 80},
    }
    if encoding is not None:
        d["Encoding"] = encoding
    if tounicode is not None:
        d["ToUnicode"] = tounicode
    d.update(extra)
    return d


def _cidfont(base: str, cmap: str, registry=b"Adobe", ordering=b"Japan1"):
    return {
        "Type": N("Font"), "Subtype": N("Type0"), "BaseFont": N(base), "Encoding": N(cmap),
        "DescendantFonts": [{
            "Type": N("Font"), "Subtype": N("CIDFontType0"), "BaseFont": N(base),
            "CIDSystemInfo": {"Registry": registry, "Ordering": ordering, "Supplement": 2}, "DW": 1000,
            "FontDescriptor": {"Type": N("FontDescriptor"), "FontName": N(base), "Flags": 4, "FontBBox": [0, -120, 1000, 880],
                               "Ascent": 880, "Descent": -120, "ItalicAngle": 0, "CapHeight": 700, "StemV": 80},
        }],
    }


def _two_pages(fonts1, c1, fonts2, c2, res1_extra=None, res2_extra=None, direct_fonts=(), finish=None, catalog_extra=None):
    """Fixed numbering: 1 catalog, 2 pages, 3/4 page, 5.. fonts in order of first use, then contents."""
    d = Doc()
    cat, pages, p1, p2 = d.reserve(), d.reserve(), d.reserve(), d.reserve()
    refs = {}

    def fontres(fonts):
        out = {}
        for rname, fobj in fonts.items():
            if rname in direct_fonts:
                out[rname] = fobj
                continue
            key = id(fobj)
            if key not in refs:
                refs[key] = d.add(fobj)
            out[rname] = refs[key]
        return out

    r1 = {"Font": fontres(fonts1), **(res1_extra(d) if res1_extra else {})}
    r2 = {"Font": fontres(fonts2), **(res2_extra(d) if res2_extra else {})}
    s1 = d.add(Stream({}, c1))
    s2 = d.add(Stream({}, c2))
    d.set(cat, {"Type": N("Catalog"), "Pages": pages, **(catalog_extra or {})})
    d.set(pages, {"Type": N("Pages"), "Kids": [p1, p2], "Count": 2, "MediaBox": [0, 0, 612, 792]})
    d.set(p1, {"Type": N("Page"), "Parent": pages, "Resources": r1, "Contents": s1})
    d.set(p2, {"Type": N("Page"), "Parent": pages, "Resources": r2, "Contents": s2})
    if finish:
        return finish(d, cat)
    return d.write(cat)


def _text(font, size, x, y, s, op=b"Tj"):
    return b"BT /%s %d Tf %d %d Td " % (font.encode(), size, x, y) + ser(s) + b" " + op + b" ET\n"


def _write_objstms(d: Doc, root: Ref, groups, indirect_length=()):
    """xref-stream file with one object stream per group of object numbers."""
    packed = {n for g in groups for n in g}
    d2 = Doc(d.header)
    for num, (gen, obj) in d.objs.items():
        if num not in packed:
            d2.objs[num] = (gen, obj)
    nxt = max(d.objs) + 1
    for num in indirect_length:
        gen, obj = d2.objs[num]
        d2.objs[nxt] = (0, len(obj.data))
        obj.length = Ref(nxt)
        nxt += 1
    entries = {}
    for g in groups:
        parts, head, off = [], [], 0
        for num in g:
            b = ser(d.objs[num][1])
            head.append(b"%d %d" % (num, off))
            parts.append(b)
            off += len(b) + 1
        h = b" ".join(head) + b"\n"
        d2.objs[nxt] = (0, Stream({"Type": N("ObjStm"), "N": len(g), "First": len(h)}, h + b"\n".join(parts) + b"\n"))
        for i, num in enumerate(g):
            entries[num] = (2, nxt, i)
        nxt += 1
    body, offs = d2.body()
    for num, (o, g) in offs.items():
        entries[num] = (1, o, g)
    entries[nxt] = (1, len(body), 0)
    entries[0] = (0, 0, 65535)
    xs = xref_stream_obj(entries, {"Type": N("XRef"), "Size": nxt + 1, "Root": root}, W=(1, 4, 2))
    return body + b"%d 0 obj\n" % nxt + ser(xs) + b"\nendobj\nstartxref\n%d\n%%%%EOF\n" % len(body)


def build_pool() -> dict:
    pool = {}
    enc = lambda base, diffs: {"Type": N("Encoding"), **({"BaseEncoding": N(base)} if base else {}), "Differences": diffs}
    # -- same object numbers, same resource names, same BaseFont names, different Differences over shared tables
    fa1 = _font("FontA", enc("WinAnsiEncoding", [65, N("alpha"), N("beta")]))
    fa2 = _font("FontA", enc(None, [67, N("gamma")]))  # same BaseFont name, other encoding, second object
    # fallback paths into the shared tables: a BaseEncoding pdfminer has no table for (falls back to the shared
    # StandardEncoding table), PDFDocEncoding, and a standard-14 font (shared FONT_METRICS) with its own Differences/Widths
    fa3 = _font("FontA", enc("MacExpertEncoding", [66, N("kappa")]))
    fa4 = _font("FontA", enc("PDFDocEncoding", [65, N("lambda")]))
    fa5 = {"Type": N("Font"), "Subtype": N("Type1"), "BaseFont": N("Helvetica"), "Encoding": enc(None, [68, N("xi")]),
           "FirstChar": 65, "LastChar": 68, "Widths": [300, 310, 320, 330]}
    more_a = _text("F3", 12, 72, 560, b"ABCD") + _text("F4", 12, 72, 520, b"ABCD") + _text("F5", 12, 72, 480, b"ABCD")
    pool["diffA"] = _two_pages(
        {"F1": fa1, "F2": fa2, "F3": fa3, "F4": fa4, "F5": fa5},
        b"/CS0 cs 1 0 0 sc\n" + _text("F1", 12, 72, 700, b"ABCD \x80") + _text("F2", 12, 72, 650, b"ABCD") + more_a,
        {"F1": fa2, "F2": fa1, "F3": fa3}, _text("F1", 12, 72, 700, b"DCBA") + _text("F2", 11, 72, 640, b"AB") + _text("F3", 12, 72, 560, b"BA"),
        res1_extra=lambda d: {"ColorSpace": {"CS0": N("DeviceRGB")}},  # a named colour space ("plain" uses the name without defining it)
    )
    fb1 = _font("FontA", enc("WinAnsiEncoding", [65, N("delta"), N("epsilon")]))
    # a Differences entry naming a glyph without a Unicode value comes FIRST (code 67 / 66 loses the base table's character):
    # the entry is applied to this font's own table, whatever order the entries come in
    fb2 = _font("FontA", enc("MacRomanEncoding", [67, N("g67"), N("zeta")]))
    fb3 = _font("FontA", enc("WinAnsiEncodin", [67, N("mu"), N("nu")]))  # misspelt name: also the StandardEncoding fallback
    fb4 = _font("FontA", enc("PDFDocEncoding", [66, N("omicron")]))
    fb5 = {"Type": N("Font"), "Subtype": N("Type1"), "BaseFont": N("Helvetica"), "Encoding": enc("WinAnsiEncoding", [66, N("G01"), 65, N("pi")])}
    more_b = _text("F3", 12, 72, 560, b"ABCD") + _text("F4", 12, 72, 520, b"ABCD") + _text("F5", 12, 72, 480, b"ABCD")
    # an embedded Type 1 program whose clear-text part adopts StandardEncoding and then issues puts: whatever those do to
    # THIS font, the process-wide StandardEncoding table that "plain" reads afterwards stays as it was
    fb6 = _font("FontT")
    t1prog = (b"%!PS-AdobeFont-1.0: FontT 001.000\n11 dict begin\n/FontType 1 def\n/FontName /FontT def\n"
              b"/Encoding StandardEncoding def\ndup 65 /B put\ndup 67 /bullet put\ncurrentdict end\ncurrentfile eexec\n")

    def _embed(d):
        fb6["FontDescriptor"] = dict(fb6["FontDescriptor"], FontFile=d.add(Stream({"Length1": len(t1prog), "Length2": 0, "Length3": 0}, t1prog)))
        return {}

    pool["diffB"] = _two_pages(
        {"F1": fb1, "F2": fb2, "F3": fb3, "F4": fb4, "F5": fb5},
        _text("F1", 12, 72, 700, b"ABCD \x80") + _text("F2", 12, 72, 650, b"ABCD\x8a") + more_b,
        {"F1": fb2, "F2": fb1, "F3": fb3, "F6": fb6}, _text("F1", 12, 72, 700, b"DCBA") + _text("F2", 11, 72, 640, b"AB") + _text("F3", 12, 72, 560, b"DC")
        + _text("F6", 12, 72, 440, b"ABCA"),
        res1_extra=_embed,
    )
    # -- the plain users of the shared tables (would show any pollution): every table through every way of naming it
    pw, ps, ph, pm = _font("FontA", N("WinAnsiEncoding")), _font("FontA"), \
        {"Type": N("Font"), "Subtype": N("Type1"), "BaseFont": N("Helvetica")}, _font("FontC", N("MacRomanEncoding"))
    pse = _font("FontA", N("StandardEncoding"))     # StandardEncoding by name
    pxe = _font("FontA", N("MacExpertEncoding"))    # unknown name without Differences: reads the shared fallback table
    pde = _font("FontA", N("PDFDocEncoding"))
    psd = _font("FontA", {"Type": N("Encoding")})   # encoding dictionary without BaseEncoding and without Differences
    pool["plain"] = _two_pages(
        {"F1": pw, "F2": ps, "F3": pse, "F4": pxe},
        b"/CS0 cs 1 0 0 sc\n" + _text("F1", 12, 72, 700, b"ABCD \x80") + _text("F2", 12, 72, 650, b"ABCD(\\")
        + _text("F3", 12, 72, 560, b"ABCD") + _text("F4", 12, 72, 520, b"ABCD"),
        {"F1": ph, "F2": pm, "F3": pde, "F4": psd, "F5": ps},
        _text("F1", 12, 72, 700, b"ABCD") + _text("F2", 11, 72, 640, b"ABCD\x8a") + _text("F3", 12, 72, 560, b"ABCD")
        + _text("F4", 12, 72, 520, b"ABCD") + _text("F5", 12, 72, 480, b"DCBA"),
        catalog_extra={"PageLabels": {"Nums": [0, {"S": N("r")}, 1, {"S": N("a"), "St": 27}]}},  # roman / alpha label tables
    )
    # -- predefined CMaps / shared to-unicode maps
    pool["cjk1"] = _two_pages(
        # 8141 / 8169 have vertical glyph variants (other CIDs under -V), CID 736 (81A8) reads differently in the H and V unicode maps
        {"F1": _cidfont("Ryumin", "90ms-RKSJ-H")}, _text("F1", 12, 72, 700, HexStr(b"\x82\xa0\x82\xa2A\x81\x41\x81\xa8")),
        {"F1": _cidfont("Ryumin", "90ms-RKSJ-V")}, _text("F1", 12, 300, 700, HexStr(b"\x82\xa0\x82\xa2\x81\x41\x81\x69\x81\xa8")),
    )
    pool["cjk2"] = _build_cjk2()
    pool["upd"] = _build_updated()
    # -- RC4 encrypted, ToUnicode stream, strings in content
    docid = b"0123456789abcdef"

    pool["rc4"] = _build_rc4(docid, enc)

    # -- object streams (two), indirect Length, font shared by both pages, direct font dict, form without Resources
    fo = _font("FontA", enc("WinAnsiEncoding", [65, N("theta")]))
    fdirect = _font("FontB", N("WinAnsiEncoding"))

    def xo(d):
        return {"XObject": {"Fm1": d.add(Stream({"Type": N("XObject"), "Subtype": N("Form"), "BBox": [0, 0, 200, 100]},
                                                _text("F1", 10, 10, 50, b"BA")))}}

    def fin_os(d, cat):
        # objects: 1 cat 2 pages 3 p1 4 p2 5 font 6 form 7 c1 8 c2
        return _write_objstms(d, cat, groups=[[5, 3], [1, 4]], indirect_length=(7, 8))

    pool["objstm"] = _two_pages(
        {"F1": fo, "F2": fdirect}, _text("F1", 12, 72, 700, b"ABC") + _text("F2", 12, 72, 650, b"ABC") + b"q 1 0 0 1 300 300 cm /Fm1 Do Q\n",
        {"F1": fo}, _text("F1", 12, 72, 700, b"CBA"),
        res1_extra=xo, direct_fonts=("F2",), finish=fin_os,
    )
    # -- raises midway: page 2 has a Type0 font without DescendantFonts
    bad = {"Type": N("Font"), "Subtype": N("Type0"), "BaseFont": N("Broken"), "Encoding": N("Identity-H")}
    pool["damaged"] = _two_pages(
        {"F1": _font("FontA", enc("WinAnsiEncoding", [65, N("iota")]))}, _text("F1", 12, 72, 700, b"ABCD"),
        {"F1": bad}, _text("F1", 12, 72, 700, b"AB"),
    )
    # -- inline images
    ii = b"q 40 0 0 40 100 500 cm BI /W 2 /H 2 /CS /G /BPC 8 ID \x00\x40\x80\xff EI Q\n"
    def ccitt(d):
        # 8x1 white row, Group 4: V0 then EOFB
        return {"XObject": {"Im1": d.add(Stream({"Type": N("XObject"), "Subtype": N("Image"), "Width": 8, "Height": 1, "BitsPerComponent": 1,
                                                 "ColorSpace": N("DeviceGray"), "Filter": N("CCITTFaxDecode"),
                                                 "DecodeParms": {"K": -1, "Columns": 8, "Rows": 1}}, b"\x80\x08\x00\x80"))}}

    selfref = {}

    def selflen(d):
        # an image stream whose /Length is a reference to the stream itself (resolved while the stream is being parsed),
        # used by both pages: it must still be there the second time, with or without the object cache
        if "r" not in selfref:
            r = d.reserve()
            d.set(r, Stream({"Type": N("XObject"), "Subtype": N("Image"), "Width": 2, "Height": 2, "BitsPerComponent": 8,
                             "ColorSpace": N("DeviceGray")}, b"\x10\x20\x30\x40", length=r))
            selfref["r"] = r
        return selfref["r"]

    use2 = b"q 30 0 0 30 400 400 cm /Im2 Do Q\n"
    pool["inline"] = _two_pages(
        {"F1": _font("FontA", N("WinAnsiEncoding"))}, _text("F1", 12, 72, 700, b"AB") + ii + b"q 40 0 0 5 300 500 cm /Im1 Do Q\n" + use2,
        {"F1": _font("FontA", N("WinAnsiEncoding"))}, ii + _text("F1", 12, 72, 700, b"CD") + ii.replace(b"100 500", b"200 500") + use2,
        res1_extra=lambda d: {"XObject": {**ccitt(d)["XObject"], "Im2": selflen(d)}},
        res2_extra=lambda d: {"XObject": {"Im2": selflen(d)}},
    )
    pool["leak"] = _build_leak()
    pool["bignames"] = _build_bignames()
    pool.update(_build_crypt())
    pool["nav"] = _build_nav()
    pool["twin"] = _build_abort()
    pool["poison"], pool["encstr"], pool["nestbad"] = _build_poison(), _build_encstr(), _build_nestbad()
    for site in ABORT_SITES:
        pool["abort-" + site] = _build_abort(site)
    # -- distance ties between text boxes
    f = _font("FontA", N("WinAnsiEncoding"), fixed=True)
    pool["ties"] = grid_doc([0, 2, 4, 6, 8], font=f, second=[1, 3, 5, 7])
    return pool


def _build_rc4(docid, enc):
    d = Doc()
    cat, pages, p1, p2 = d.reserve(), d.reserve(), d.reserve(), d.reserve()
    tu = d.add(Stream({}, tounicode_cmap(bfchars=[(b"A", "\u0416"), (b"B", "\u0417")])))
    f1 = d.add(_font("FontA", N("WinAnsiEncoding"), tounicode=tu))
    f2 = d.add(_font("FontA", enc("WinAnsiEncoding", [67, N("eta")])))
    # one Resources object shared by both pages; F3 is a *direct* font dictionary in it, so it is rebuilt for every page
    # from the cached object: its (encrypted) CIDSystemInfo strings must have been deciphered exactly once
    res = d.add({"Font": {"F1": f1, "F2": f2, "F3": _cidfont("Ryumin", "90ms-RKSJ-H")}})
    s1 = d.add(Stream({}, _text("F1", 12, 72, 700, b"ABCD") + _text("F3", 12, 72, 600, HexStr(b"\x82\xa0"))))
    s2 = d.add(Stream({}, _text("F2", 12, 72, 700, b"ABCD") + _text("F1", 12, 72, 650, b"AB") + _text("F3", 12, 72, 600, HexStr(b"\x82\xa2"))))
    d.set(cat, {"Type": N("Catalog"), "Pages": pages})
    d.set(pages, {"Type": N("Pages"), "Kids": [p1, p2], "Count": 2, "MediaBox": [0, 0, 612, 792]})
    d.set(p1, {"Type": N("Page"), "Parent": pages, "Resources": res, "Contents": s1})
    d.set(p2, {"Type": N("Page"), "Parent": pages, "Resources": res, "Contents": s2})
    info = d.add({"Title": b"secret title", "Producer": b"verif"})
    e = _encrypt_doc(d, docid)
    return d.write(cat, info=info, trailer_extra={"Encrypt": e, "ID": [HexStr(docid), HexStr(docid)]})


def _build_cjk2():
    """Identity-H / GBK users of the shared to-unicode maps, plus two Type0 fonts that share ONE descendant CIDFont object:
    FA (page 1) has its own ToUnicode, FB (page 2) relies on the predefined map: the parent's entries must not stick to the descendant."""
    d = Doc()
    cat, pages, p1, p2 = d.reserve(), d.reserve(), d.reserve(), d.reserve()
    f1 = d.add(_cidfont("Ryumin", "Identity-H"))
    f2 = d.add(_cidfont("SimSun", "GBK-EUC-H", ordering=b"GB1"))
    desc = d.add(_cidfont("Shared", "90ms-RKSJ-H")["DescendantFonts"][0])
    tu = d.add(Stream({}, tounicode_cmap(bfchars=[(b"\x03\x4b", "\u2460"), (b"\x03\x4d", "\u2461")], codespace=((b"\x00\x00", b"\xff\xff"),))))
    fa = d.add({"Type": N("Font"), "Subtype": N("Type0"), "BaseFont": N("Shared"), "Encoding": N("90ms-RKSJ-H"), "DescendantFonts": [desc], "ToUnicode": tu})
    fb = d.add({"Type": N("Font"), "Subtype": N("Type0"), "BaseFont": N("Shared"), "Encoding": N("90ms-RKSJ-V"), "DescendantFonts": [desc]})
    s1 = d.add(Stream({}, _text("F1", 12, 72, 700, HexStr(b"\x03\x4b\x03\x4d\x00\x22")) + _text("FA", 12, 72, 600, HexStr(b"\x82\xa0\x82\xa2"))))
    s2 = d.add(Stream({}, _text("F1", 12, 72, 700, HexStr(b"\xb0\xa1\xb0\xa2A")) + _text("FB", 12, 300, 600, HexStr(b"\x82\xa0\x82\xa2"))))
    d.set(cat, {"Type": N("Catalog"), "Pages": pages})
    d.set(pages, {"Type": N("Pages"), "Kids": [p1, p2], "Count": 2, "MediaBox": [0, 0, 612, 792]})
    d.set(p1, {"Type": N("Page"), "Parent": pages, "Resources": {"Font": {"F1": f1, "FA": fa}}, "Contents": s1})
    d.set(p2, {"Type": N("Page"), "Parent": pages, "Resources": {"Font": {"F1": f2, "FB": fb}}, "Contents": s2})
    return d.write(cat)


def _build_updated():
    """xref-stream file whose catalog and both pages live in one object stream, followed by two incremental updates that
    replace the compressed pages: page 1 by a classic-table update, page 2 by an xref-stream update (newest definition wins,
    also when the superseded object sits in an object stream that was already parsed for the catalog)."""
    d = Doc()
    cat, pages, p1, p2 = d.reserve(), d.reserve(), d.reserve(), d.reserve()
    f = d.add(_font("FontA", N("WinAnsiEncoding")))
    res = {"Font": {"F1": f}}
    s1 = d.add(Stream({}, _text("F1", 12, 72, 700, b"OLD ONE")))
    s2 = d.add(Stream({}, _text("F1", 12, 72, 700, b"OLD TWO")))
    d.set(cat, {"Type": N("Catalog"), "Pages": pages})
    d.set(pages, {"Type": N("Pages"), "Kids": [p1, p2], "Count": 2, "MediaBox": [0, 0, 612, 792]})
    d.set(p1, {"Type": N("Page"), "Parent": pages, "Resources": res, "Contents": s1})
    d.set(p2, {"Type": N("Page"), "Parent": pages, "Resources": res, "Contents": s2})
    base = _write_objstms(d, cat, groups=[[cat.num, p1.num, p2.num]])
    prev = int(re.search(rb"startxref\n(\d+)\n%%EOF\n$", base).group(1))
    size = int(re.search(rb"/Size (\d+)", base[prev:]).group(1))
    # update 1: classic table, new page 1 + its content stream
    n1 = size
    out = bytearray(base)
    offs = {}
    for num, obj in ((p1.num, {"Type": N("Page"), "Parent": pages, "Resources": res, "Contents": Ref(n1)}),
                     (n1, Stream({}, _text("F1", 12, 72, 700, b"NEW ONE")))):
        offs[num] = len(out)
        out += b"%d 0 obj\n" % num + ser(obj) + b"\nendobj\n"
    x1 = len(out)
    out += b"xref\n"
    for num in sorted(offs):
        out += b"%d 1\n%010d 00000 n \n" % (num, offs[num])
    out += b"trailer\n" + ser({"Size": n1 + 1, "Root": cat, "Prev": prev}) + b"\nstartxref\n%d\n%%%%EOF\n" % x1
    # update 2: xref stream, new page 2 + its content stream
    n2, nx = n1 + 1, n1 + 2
    ent = {}
    for num, obj in ((p2.num, {"Type": N("Page"), "Parent": pages, "Resources": res, "Contents": Ref(n2)}),
                     (n2, Stream({}, _text("F1", 12, 72, 700, b"NEW TWO")))):
        ent[num] = (1, len(out), 0)
        out += b"%d 0 obj\n" % num + ser(obj) + b"\nendobj\n"
    x2 = len(out)
    ent[nx] = (1, x2, 0)
    xs = xref_stream_obj(ent, {"Type": N("XRef"), "Size": nx + 1, "Root": cat, "Prev": x1}, W=(1, 4, 2))
    out += b"%d 0 obj\n" % nx + ser(xs) + b"\nendobj\nstartxref\n%d\n%%%%EOF\n" % x2
    return bytes(out)


def _build_leak():
    """Three pages through one interpreter: page 1 has a font F1, a form Fm0, a colour space CS0 and ends with two unconsumed
    operands; page 2 has an own empty /Resources and uses the same names, starting with an operator that lacks its operands;
    page 3 has no /Resources on itself or any ancestor.  Nothing of page 1 may survive into pages 2 and 3."""
    d = Doc()
    cat, pages, p1, p2, p3 = d.reserve(), d.reserve(), d.reserve(), d.reserve(), d.reserve()
    f = d.add(_font("FontA", {"Type": N("Encoding"), "BaseEncoding": N("WinAnsiEncoding"), "Differences": [65, N("sigma")]}))
    fm = d.add(Stream({"Type": N("XObject"), "Subtype": N("Form"), "BBox": [0, 0, 100, 50], "Resources": {"Font": {"F1": f}}},
                      _text("F1", 9, 5, 5, b"FORM")))
    # pages 2 and 3 paint a path of their own; page 1 (which is also rotated) ends with a path that is constructed but never
    # painted, and with two unconsumed operands: neither the path, nor the operands, nor the rotation may reach the next page
    use = b"BT /F1 10 Tf Td 72 600 Td /CS0 cs 0 1 0 sc (ABC) Tj ET\nq 1 0 0 1 200 300 cm /Fm0 Do Q\n100 100 m 150 100 l S\n"
    s1 = d.add(Stream({}, b"BT /F1 10 Tf 72 600 Td /CS0 cs 0 1 0 sc (ABC) Tj ET\nq 1 0 0 1 200 300 cm /Fm0 Do Q\n10 10 m 50 50 l 60 20 l\n30 40\n"))
    s2 = d.add(Stream({}, use))
    s3 = d.add(Stream({}, use + b"50 60 70\n"))
    d.set(cat, {"Type": N("Catalog"), "Pages": pages})
    d.set(pages, {"Type": N("Pages"), "Kids": [p1, p2, p3], "Count": 3, "MediaBox": [0, 0, 612, 792]})
    d.set(p1, {"Type": N("Page"), "Parent": pages, "Contents": s1, "Rotate": 90,
               "Resources": {"Font": {"F1": f}, "XObject": {"Fm0": fm}, "ColorSpace": {"CS0": N("DeviceRGB")}}})
    d.set(p2, {"Type": N("Page"), "Parent": pages, "Resources": {}, "Contents": s2})
    d.set(p3, {"Type": N("Page"), "Parent": pages, "Contents": s3})
    return d.write(cat)


BIGNAMES = 34000


def _build_bignames():
    """One page whose content carries 34000 distinct marked-content tags: more distinct names than any realistic bound on
    the process-wide intern tables.  Not part of the operation alphabet; used as a history prefix by the 'names' family."""
    import zlib

    d = Doc()
    cat, pages, p1 = d.reserve(), d.reserve(), d.reserve()
    f = d.add(_font("FontA", N("WinAnsiEncoding")))
    body = b"".join(b"/n%d MP\n" % i for i in range(BIGNAMES)) + _text("F1", 12, 72, 700, b"many names")
    s1 = d.add(Stream({"Filter": N("FlateDecode")}, zlib.compress(body, 9)))
    d.set(cat, {"Type": N("Catalog"), "Pages": pages})
    d.set(pages, {"Type": N("Pages"), "Kids": [p1], "Count": 1, "MediaBox": [0, 0, 612, 792]})
    d.set(p1, {"Type": N("Page"), "Parent": pages, "Resources": {"Font": {"F1": f}}, "Contents": s1})
    return d.write(cat)


def _build_nav():
    """Three pages with a /PageLabels number tree (roman, then 'App-' decimal from 7), nested outlines with Dest / A, a Dests
    name tree with Kids and an old-style /Dests dictionary.  Used by the 'api' family (object reuse)."""
    d = Doc()
    cat, pages, p1, p2, p3 = d.reserve(), d.reserve(), d.reserve(), d.reserve(), d.reserve()
    f = d.add(_font("FontA", N("WinAnsiEncoding")))
    res = {"Font": {"F1": f}}
    conts = [d.add(Stream({}, _text("F1", 12, 72, 700 - 40 * i, b"PAGE " + bytes([65 + i])))) for i in range(3)]
    root, o1, o11, o2 = d.reserve(), d.reserve(), d.reserve(), d.reserve()
    d.set(root, {"Type": N("Outlines"), "First": o1, "Last": o2, "Count": 3})
    d.set(o1, {"Title": b"One", "Parent": root, "Next": o2, "Dest": b"d1", "First": o11, "Last": o11, "Count": 1})
    d.set(o11, {"Title": b"\xfe\xff\x00S\x00u\x00b", "Parent": o1, "A": {"S": N("GoTo"), "D": [p2, N("Fit")]}})
    d.set(o2, {"Title": b"Two", "Parent": root, "Prev": o1, "Dest": [p3, N("XYZ"), 0, 792, None]})
    leaf1 = d.add({"Limits": [b"d1", b"d1"], "Names": [b"d1", [p1, N("Fit")]]})
    leaf2 = d.add({"Limits": [b"d2", b"d2"], "Names": [b"d2", {"D": [p2, N("XYZ"), 0, 0, 0]}]})
    dests = d.add({"Kids": [leaf1, leaf2]})
    d.set(cat, {"Type": N("Catalog"), "Pages": pages, "Outlines": root, "Names": {"Dests": dests},
                "Dests": {"d3": [p3, N("Fit")]},
                "PageLabels": {"Nums": [0, {"S": N("r")}, 2, {"P": b"App-", "S": N("D"), "St": 7}]}})
    d.set(pages, {"Type": N("Pages"), "Kids": [p1, p2, p3], "Count": 3, "MediaBox": [0, 0, 612, 792], "Resources": res})
    for i, p in enumerate((p1, p2, p3)):
        d.set(p, {"Type": N("Page"), "Parent": pages, "Contents": conts[i], **({"Rotate": 90} if i == 1 else {})})
    info = d.add({"Title": b"nav"})
    return d.write(cat, info=info)


# documents judged only by "caching on == off" and "pages one at a time == together" (ref shard): cheap, no call histories
REF_ONLY_DOCS = ["poison", "encstr", "nestbad"]


def _build_poison():
    """Page 1's font object holds a literal string with an unbalanced '(' : the object cannot be read (no exception in the
    non-strict mode), but nothing of that failure may reach the objects read afterwards (page 2's font has strings too)."""
    from mc.pdfgen import Raw

    bad = Raw(b"<< /Type /Font /Subtype /Type1 /BaseFont /Helvetica /Note (oops( ) >>")
    good = {"Type": N("Font"), "Subtype": N("Type1"), "BaseFont": N("Helvetica"), "Note": b"x (balanced) y",
            "Encoding": {"Type": N("Encoding"), "Differences": [65, N("B")]}}
    return _two_pages({"F1": bad}, _text("F1", 12, 20, 100, b"A"), {"F1": good}, _text("F1", 12, 20, 100, b"A (b) \\( c"))


def _build_encstr():
    """RC4-encrypted; two CID fonts (one per page) whose /Registry and /Ordering are references to the SAME two indirect
    string objects: an indirect object whose top-level value is a string is deciphered once, however often it is used."""
    import mc.refs.security as S

    d = Doc()
    cat, pages, p1, p2 = d.reserve(), d.reserve(), d.reserve(), d.reserve()
    reg, ordr, arr = d.add(b"Adobe"), d.add(b"Japan1"), d.add([b"Adobe", b"Japan1"])

    def t0():
        f = _cidfont("Foo", "Identity-H")
        f["DescendantFonts"][0]["CIDSystemInfo"] = {"Registry": reg, "Ordering": ordr, "Supplement": 0}
        f["DescendantFonts"][0]["Note"] = arr
        return d.add(f)

    f1, f2 = t0(), t0()
    s1 = d.add(Stream({}, _text("F1", 12, 20, 100, HexStr(b"\x00\x22\x03\x4b"))))
    s2 = d.add(Stream({}, _text("F1", 12, 20, 100, HexStr(b"\x00\x23\x03\x4d"))))
    d.set(cat, {"Type": N("Catalog"), "Pages": pages})
    d.set(pages, {"Type": N("Pages"), "Kids": [p1, p2], "Count": 2, "MediaBox": [0, 0, 612, 792]})
    d.set(p1, {"Type": N("Page"), "Parent": pages, "Resources": {"Font": {"F1": f1}}, "Contents": s1})
    d.set(p2, {"Type": N("Page"), "Parent": pages, "Resources": {"Font": {"F1": f2}}, "Contents": s2})
    ident = hashlib.md5(b"verif-c12-encstr").digest()
    h = S.Handler(S.Cfg(1, 2, 40, "RC4"), "", "owner", -44, ident, salt="c12-encstr")
    return S.write_pdf(S.Plain(dict(d.objs), cat, None, (ident, ident)), h)[0]


def _build_nestbad():
    """Form A draws text and invokes form B, whose /BBox is invalid (three numbers): B is skipped, and that must not keep A
    (or anything) from being drawn again by the same page or by the next page."""
    d = Doc()
    cat, pages, p1, p2, fa, fb = d.reserve(), d.reserve(), d.reserve(), d.reserve(), d.reserve(), d.reserve()
    f = d.add({"Type": N("Font"), "Subtype": N("Type1"), "BaseFont": N("Helvetica")})
    res = {"Font": {"F1": f}, "XObject": {"A": fa, "B": fb}}
    d.set(fa, Stream({"Type": N("XObject"), "Subtype": N("Form"), "BBox": [0, 0, 200, 200], "Resources": res},
                     _text("F1", 12, 20, 100, b"X") + b"/B Do\n"))
    d.set(fb, Stream({"Type": N("XObject"), "Subtype": N("Form"), "BBox": [0, 0, 10], "Resources": res}, _text("F1", 12, 20, 50, b"Y")))
    s1 = d.add(Stream({}, b"q /A Do Q\nq 1 0 0 1 0 -40 cm /A Do Q\n"))
    s2 = d.add(Stream({}, b"q /A Do Q\n"))
    d.set(cat, {"Type": N("Catalog"), "Pages": pages})
    d.set(pages, {"Type": N("Pages"), "Kids": [p1, p2], "Count": 2, "MediaBox": [0, 0, 612, 792], "Resources": res})
    d.set(p1, {"Type": N("Page"), "Parent": pages, "Contents": s1})
    d.set(p2, {"Type": N("Page"), "Parent": pages, "Contents": s2})
    return d.write(cat)


# documents that make an exception escape from the middle of a library call, and their healthy twin (same object numbers)
ABORT_SITES = ["FontBBox", "Widths", "FontMatrix", "FormBBox", "FormMatrix", "Type1Widths", "Type1FontBBox"]


def _build_abort(site=None) -> bytes:
    """Type 3 and Type 1 fonts and a form whose arrays (and array elements) are indirect objects.  With ``site`` the indirect
    object of that site holds a malformed dictionary: resolving it raises PSSyntaxError, which no layer catches."""
    from mc.pdfgen import Raw

    broken = Raw(b"<< /broken >>")
    d = Doc()
    cat, pages, p1, p2 = d.reserve(), d.reserve(), d.reserve(), d.reserve()
    bbox_el = d.add(broken if site == "FontBBox" else 1000)
    bbox = d.add([-100, -250, bbox_el, 900])
    w_el = d.add(broken if site == "Widths" else 640)
    fm_el = d.add(broken if site == "FontMatrix" else Fraction(1, 1000))
    fmat = d.add([fm_el, 0, 0, Fraction(1, 1000), 0, 0])
    glyph = d.add(Stream({}, b"600 0 0 -250 600 900 d1 0 0 600 700 re f"))
    t3 = d.add({"Type": N("Font"), "Subtype": N("Type3"), "Name": N("Demo"), "FontBBox": bbox, "FontMatrix": fmat,
                "CharProcs": {"a": glyph}, "Encoding": N("WinAnsiEncoding"), "FirstChar": 97, "LastChar": 99, "Widths": [600, w_el, 620]})
    t1w = d.add(broken if site == "Type1Widths" else 510)
    t1b = d.add(broken if site == "Type1FontBBox" else -200)
    t1 = _font("FontA", N("WinAnsiEncoding"))
    t1["Widths"] = [t1w] + t1["Widths"][1:]
    t1["FontDescriptor"]["FontBBox"] = [0, t1b, 1000, 800]
    t1 = d.add(t1)
    fb_el = d.add(broken if site == "FormBBox" else 200)
    fx_el = d.add(broken if site == "FormMatrix" else 30)
    form = d.add(Stream({"Type": N("XObject"), "Subtype": N("Form"), "BBox": [0, 0, fb_el, 100], "Matrix": [1, 0, 0, 1, fx_el, 5],
                         "Resources": {"Font": {"F1": t1}}}, _text("F1", 9, 5, 5, b"form")))
    s1 = d.add(Stream({}, _text("F3", 20, 30, 620, b"abc") + _text("F1", 12, 30, 560, b" !\"#") + b"/Fm0 Do\n"))
    s2 = d.add(Stream({}, _text("F1", 12, 30, 620, b"two") + _text("F3", 10, 30, 560, b"cab")))
    res = {"Font": {"F3": t3, "F1": t1}, "XObject": {"Fm0": form}}
    d.set(cat, {"Type": N("Catalog"), "Pages": pages})
    d.set(pages, {"Type": N("Pages"), "Kids": [p1, p2], "Count": 2, "MediaBox": [0, 0, 612, 792]})
    d.set(p1, {"Type": N("Page"), "Parent": pages, "Resources": res, "Contents": s1})
    d.set(p2, {"Type": N("Page"), "Parent": pages, "Resources": res, "Contents": s2})
    return d.write(cat)


# encrypted documents: every handler family x two different file keys, same plaintext, same object numbers
CRYPT_CFGS = [(1, 2, 40, "RC4"), (2, 3, 128, "RC4"), (4, 4, 128, "V2"), (4, 4, 128, "AESV2"), (5, 6, 256, "AESV3")]
CRYPT_DOCS = [f"enc-V{c[0]}R{c[1]}-{c[2]}-{c[3]}-k{k}" for c in CRYPT_CFGS for k in (1, 2)]


def _build_crypt() -> dict:
    """Written with the independent reference handler of mc/refs/security.py (validated there against the repository's
    third-party encrypted samples).  Key 1 and key 2 differ in /ID and owner password, hence in the file key."""
    import mc.refs.security as S

    enc = lambda base, diffs: {"Type": N("Encoding"), "BaseEncoding": N(base), "Differences": diffs}
    out = {}
    for cfg in CRYPT_CFGS:
        for k in (1, 2):
            d = Doc()
            cat, pages, p1, p2 = d.reserve(), d.reserve(), d.reserve(), d.reserve()
            tu = d.add(Stream({}, tounicode_cmap(bfchars=[(b"A", "\u0416"), (b"B", "\u0417")])))
            f1 = d.add(_font("FontA", N("WinAnsiEncoding"), tounicode=tu))
            f2 = d.add(_font("FontA", enc("WinAnsiEncoding", [67, N("eta")])))
            res = d.add({"Font": {"F1": f1, "F2": f2, "F3": _cidfont("Ryumin", "90ms-RKSJ-H")}})  # encrypted CIDSystemInfo strings
            s1 = d.add(Stream({}, _text("F1", 12, 72, 700, b"ABCD") + _text("F3", 12, 72, 600, HexStr(b"\x82\xa0"))))
            s2 = d.add(Stream({}, _text("F2", 12, 72, 700, b"ABCD") + _text("F1", 12, 72, 650, b"AB") + _text("F3", 12, 72, 600, HexStr(b"\x82\xa2"))))
            info = d.add({"Title": b"secret title", "Producer": b"verif"})
            d.set(cat, {"Type": N("Catalog"), "Pages": pages})
            d.set(pages, {"Type": N("Pages"), "Kids": [p1, p2], "Count": 2, "MediaBox": [0, 0, 612, 792]})
            d.set(p1, {"Type": N("Page"), "Parent": pages, "Resources": res, "Contents": s1})
            d.set(p2, {"Type": N("Page"), "Parent": pages, "Resources": res, "Contents": s2})
            ident = hashlib.md5(b"verif-c12-id-%d" % k).digest()
            h = S.Handler(S.Cfg(*cfg), "", "owner%d" % k, -44, ident, salt=("c12", cfg, k))
            pdf, _ = S.write_pdf(S.Plain(dict(d.objs), cat, info, (ident, ident)), h)
            out[f"enc-V{cfg[0]}R{cfg[1]}-{cfg[2]}-{cfg[3]}-k{k}"] = pdf
    return out


def grid_doc(cells, font=None, second=None) -> bytes:
    """Single-glyph text boxes on a 3x3 grid with equal pitch (cell i at column i%3, row i//3)."""
    font = font or _font("FontA", N("WinAnsiEncoding"), fixed=True)  # equal glyph widths: equal boxes, real distance ties

    def content(cs):
        return b"".join(_text("F1", 12, 100 + 100 * (c % 3), 600 - 100 * (c // 3), bytes([97 + c])) for c in cs)

    if second is None:
        d = Doc()
        cat, pages, p1 = d.reserve(), d.reserve(), d.reserve()
        fr = d.add(font)
        s1 = d.add(Stream({}, content(cells)))
        d.set(cat, {"Type": N("Catalog"), "Pages": pages})
        d.set(pages, {"Type": N("Pages"), "Kids": [p1], "Count": 1, "MediaBox": [0, 0, 612, 792]})
        d.set(p1, {"Type": N("Page"), "Parent": pages, "Resources": {"Font": {"F1": fr}}, "Contents": s1})
        return d.write(cat)
    return _two_pages({"F1": font}, content(cells), {"F1": font}, content(second))


_POOL = None


def pool() -> dict:
    global _POOL
    if _POOL is None:
        _POOL = build_pool()
    return _POOL


DOCS = ["diffA", "diffB", "plain", "cjk1", "cjk2", "rc4", "objstm", "upd", "leak", "damaged", "inline", "ties"]
NPAGES = {"leak": 3}


def subsets(d):
    return (None,) + tuple(range(NPAGES.get(d, 2)))


OPS = [(d, k, c, s) for d in DOCS for k in KINDS for c in (True, False) for s in subsets(d)]
WHOLE_OPS = [(d, k, True, None) for d in DOCS for k in KINDS]
REF_ONLY_OPS = [(d, k, c, s) for d in REF_ONLY_DOCS for k in KINDS for c in (True, False) for s in (None, 0, 1)]


# ============================================================ execution (children)
class IdShim:
    """Creation-order replacement for id() (harness-side; keeps the objects alive so numbers are never reused)."""

    def __init__(self, sign: int = 1):
        self.sign = sign
        self.n = 0
        self.reg = {}

    def __call__(self, o):
        e = self.reg.get(id(o))
        if e is not None and e[0] is o:
            return e[1]
        self.n += 1
        v = self.sign * self.n
        self.reg[id(o)] = (o, v)
        return v


def install_id(mode: str = "asc") -> None:
    import pdfminer.layout
    import pdfminer.pdfinterp

    for mod in (pdfminer.layout, pdfminer.pdfinterp):
        if mode == "real":
            mod.__dict__.pop("id", None)
        else:
            mod.id = IdShim(1 if mode == "asc" else -1)


_ADDR = re.compile(r" at 0x[0-9a-fA-F]+")


def canon(o, depth=0):
    """Canonical, address-free form of an extraction result (LT tree or scalar)."""
    from pdfminer.pdftypes import PDFObjRef, PDFStream
    from pdfminer.psparser import PSKeyword, PSLiteral

    if o is None or isinstance(o, (bool, int, str, bytes)):
        return o
    if isinstance(o, float):
        return repr(o)
    if isinstance(o, (list, tuple)):
        return tuple(canon(x, depth + 1) for x in o)
    if isinstance(o, dict):
        return ("dict",) + tuple(sorted(((repr(canon(k)), canon(v, depth + 1)) for k, v in o.items())))
    if isinstance(o, (set, frozenset)):
        return ("set",) + tuple(sorted(repr(canon(x)) for x in o))
    if isinstance(o, (PSLiteral, PSKeyword)):
        return ("sym", type(o).__name__, canon(o.name))
    if isinstance(o, PDFObjRef):
        return ("ref", o.objid)
    if isinstance(o, PDFStream):
        try:
            data = hashlib.sha1(o.get_data()).hexdigest()
        except Exception as e:  # noqa
            data = "undecodable:" + type(e).__name__
        return ("stream", canon(o.attrs, depth + 1), data, o.objid, o.genno)
    if depth > 40:
        return ("deep", type(o).__name__)
    d = getattr(o, "__dict__", None)
    if d is not None:
        items = []
        for k in sorted(d):
            if k == "pageid" and type(o).__name__ == "LTPage":
                continue
            items.append((k, canon(d[k], depth + 1)))
        return ("obj", type(o).__name__, tuple(items))
    return ("repr", _ADDR.sub("", repr(o)))


def _exc(e) -> str:
    tb = traceback.extract_tb(e.__traceback__)
    return f"{type(e).__name__}@{tb[-1].name}"


def run_op(op, pdfs=None):
    """Execute one operation in this process; result = (status, [part, ...]) with one part per page where possible."""
    import pdfminer.high_level as hl
    from pdfminer.layout import LAParams

    doc, kind, caching, subset = op
    pdf = (pdfs or pool())[doc]
    pn = None if subset is None else [subset]
    if kind == "text":
        try:
            return ("ok", [hl.extract_text(io.BytesIO(pdf), page_numbers=pn, caching=caching)])
        except Exception as e:  # noqa
            return ("exc:" + _exc(e), [])
    if kind == "pages":
        parts = []
        try:
            for p in hl.extract_pages(io.BytesIO(pdf), page_numbers=pn, caching=caching):
                parts.append(repr(canon(p)))
            return ("ok", parts)
        except Exception as e:  # noqa
            return ("exc:" + _exc(e), parts)
    out = io.BytesIO()
    try:
        hl.extract_text_to_fp(io.BytesIO(pdf), out, output_type="xml", codec="utf-8", laparams=LAParams(),
                              page_numbers=pn, disable_caching=not caching)
        return ("ok", split_xml(out.getvalue()))
    except Exception as e:  # noqa
        return ("exc:" + _exc(e), split_xml(out.getvalue()))


_PAGE_ID = re.compile(rb'<page id="\d+"')


def split_xml(b: bytes):
    """[prolog, page 1, page 2, ..., epilog] with the page ordinal masked (it is the ordinal within the call)."""
    parts = re.split(rb"(?=<page id=)|(?<=</page>\n)", b)
    return [_PAGE_ID.sub(b'<page id="#"', p) for p in parts if p != b""]


def rhash(r) -> int:
    return h64(repr(r))


# ----------------------------------------------------------------- fork plumbing
def _child(fn, item, w):
    try:
        try:
            res = ("ok", fn(item))
        except BaseException as e:  # noqa
            res = ("err", f"{type(e).__name__}: {e}\n{traceback.format_exc()}")
        data = pickle.dumps(res, protocol=4)
        mv = memoryview(data)
        while mv:
            n = os.write(w, mv[: 1 << 16])
            mv = mv[n:]
    finally:
        os._exit(0)


def fork_map(fn, items, par: int = 1):
    """Run fn(item) in a forked child per item, at most ``par`` at a time; results in order."""
    items = list(items)
    results = [None] * len(items)
    running = {}
    nxt = 0
    while nxt < len(items) or running:
        while nxt < len(items) and len(running) < par:
            r, w = os.pipe()
            pid = os.fork()
            if pid == 0:
                os.close(r)
                _child(fn, items[nxt], w)
            os.close(w)
            running[r] = (nxt, pid, bytearray())
            nxt += 1
        ready, _, _ = select.select(list(running), [], [])
        for fd in ready:
            idx, pid, buf = running[fd]
            chunk = os.read(fd, 1 << 16)
            if chunk:
                buf += chunk
                continue
            os.close(fd)
            os.waitpid(pid, 0)
            del running[fd]
            if not buf:
                raise RuntimeError(f"forked child for item {idx} died without a result")
            st, val = pickle.loads(bytes(buf))
            if st != "ok":
                raise RuntimeError("forked child failed: " + val)
            results[idx] = val
    return results


def fork_call(fn, item):
    return fork_map(fn, [item], 1)[0]


# ------------------------------------------------------------------- references
_REFS = {}


def _ref_one(op):
    install_id("asc")
    return run_op(op)


def refs(ops=None, par: int = 4) -> dict:
    """Pure references: each operation in its own fork of this (import-only) process."""
    pool()
    _freeze_symtabs()
    need = [op for op in (ops or OPS) if op not in _REFS]
    for op, r in zip(need, fork_map(_ref_one, need, par)):
        _REFS[op] = r
    return _REFS


# ------------------------------------------------------- process-wide state digest
def _symtab_ok(tab, frozen) -> bool:
    for name, sym in tab.dict.items():
        if sym.name != name or not isinstance(sym, tab.klass):
            return False
    for name, ident in frozen.items():
        if id(tab.dict.get(name)) != ident:
            return False
    return True


_FROZEN_SYMS = None


def _freeze_symtabs():
    """Identity of every symbol interned at import time (valid in all forks of this process)."""
    global _FROZEN_SYMS
    if _FROZEN_SYMS is None:
        import pdfminer.psparser as ps
        import pdfminer.high_level  # noqa  (make sure every module has interned its literals)

        _FROZEN_SYMS = {
            "lit": {k: id(v) for k, v in ps.PSLiteralTable.dict.items()},
            "kwd": {k: id(v) for k, v in ps.PSKeywordTable.dict.items()},
        }
    return _FROZEN_SYMS


def _digest_value(v, seen, depth=0) -> bytes:
    import logging
    import types

    import pdfminer.psparser as ps

    if v is None or isinstance(v, (bool, int, float, str, bytes)):
        return repr(v).encode()
    if isinstance(v, ps.PSSymbolTable):
        fz = _freeze_symtabs()["lit" if v is ps.PSLiteralTable else "kwd"]
        return b"symtab:consistent" if _symtab_ok(v, fz) else b"symtab:INCONSISTENT"
    if isinstance(v, (ps.PSLiteral, ps.PSKeyword)):
        return b"sym:" + repr(v.name).encode()
    if isinstance(v, (types.ModuleType, types.FunctionType, types.BuiltinFunctionType, types.MethodType, type,
                      classmethod, staticmethod, property, logging.Logger, re.Pattern, IdShim)):
        return b"-"
    if type(v).__module__ in ("typing", "_abc", "abc", "types"):
        return b"-"
    if id(v) in seen or depth > 30:
        return b"cycle"
    if isinstance(v, dict) and len(v) <= 64:
        # small (possibly dynamic) tables: independent of insertion order
        seen = seen | {id(v)}
        parts = sorted(_digest_value(k, seen, depth + 1) + b"=" + _digest_value(x, seen, depth + 1) for k, x in v.items())
        return hashlib.blake2b(b"dict[" + b",".join(parts) + b"]", digest_size=16).digest()
    if isinstance(v, (dict, list, tuple, set, frozenset)):
        try:
            buf = io.BytesIO()
            p = pickle.Pickler(buf, protocol=4)
            p.fast = True  # no memo: purely structural, independent of object sharing
            p.dump(v)
            return hashlib.blake2b(buf.getvalue(), digest_size=16).digest()
        except Exception:  # noqa  unpicklable members or cycles: structural walk
            seen = seen | {id(v)}
            if isinstance(v, dict):
                parts = sorted(_digest_value(k, seen, depth + 1) + b"=" + _digest_value(x, seen, depth + 1) for k, x in v.items())
            elif isinstance(v, (set, frozenset)):
                parts = sorted(_digest_value(x, seen, depth + 1) for x in v)
            else:
                parts = [_digest_value(x, seen, depth + 1) for x in v]
            return hashlib.blake2b(type(v).__name__.encode() + b"[" + b",".join(parts) + b"]", digest_size=16).digest()
    d = getattr(v, "__dict__", None)
    if d is not None:
        return type(v).__name__.encode() + b"{" + _digest_value(dict(d), seen | {id(v)}, depth + 1) + b"}"
    return type(v).__name__.encode()


def _func_state(f, seen_funcs) -> bytes:
    """Mutable state a function object carries between calls: default argument values, keyword defaults, its own attributes
    (functools caches included) and closure cells holding containers."""
    import types

    f = getattr(f, "__func__", f)
    w = getattr(f, "__wrapped__", None)
    out = b""
    if hasattr(f, "cache_info"):
        try:
            out += repr(tuple(f.cache_info())).encode()
        except Exception:  # noqa
            pass
    if w is not None:
        f = w
    if not isinstance(f, types.FunctionType) or id(f) in seen_funcs:
        return out
    seen_funcs.add(id(f))
    vals = list(f.__defaults__ or ()) + sorted((f.__kwdefaults__ or {}).items()) + sorted(vars(f).items(), key=lambda kv: kv[0])
    for c in f.__closure__ or ():
        try:
            vals.append(c.cell_contents)
        except ValueError:
            pass
    for v in vals:
        if isinstance(v, (dict, list, set, bytearray)) or (isinstance(v, tuple) and any(isinstance(x, (dict, list, set)) for x in v)):
            out += _digest_value(v, frozenset())
    return out


def state_digest() -> int:
    """Digest of every module global, class attribute and function-held mutable value (default arguments, function
    attributes, lru caches) of the pdfminer package."""
    import types

    _freeze_symtabs()
    parts = []
    seen_funcs: set = set()
    fn_types = (types.FunctionType, classmethod, staticmethod, types.MethodType)
    for mn in sorted(m for m in sys.modules if m == "pdfminer" or m.startswith("pdfminer.")):
        mod = sys.modules[mn]
        if mod is None:
            continue
        for k, v in sorted(vars(mod).items()):
            if k.startswith("__"):
                continue
            if isinstance(v, type):
                if v.__module__ != mn:
                    continue
                for ak, av in sorted(vars(v).items()):
                    if ak.startswith("__"):
                        continue
                    if isinstance(av, fn_types) or hasattr(av, "cache_info"):
                        fs = _func_state(av, seen_funcs)
                        if fs:
                            parts.append(f"{mn}.{k}.{ak}()=".encode() + fs)
                        continue
                    dg = _digest_value(av, frozenset())
                    if dg != b"-":
                        parts.append(f"{mn}.{k}.{ak}=".encode() + dg)
                continue
            if (isinstance(v, fn_types) and getattr(v, "__module__", None) == mn) or hasattr(v, "cache_info"):
                fs = _func_state(v, seen_funcs)
                if fs:
                    parts.append(f"{mn}.{k}()=".encode() + fs)
                continue
            dg = _digest_value(v, frozenset())
            if dg != b"-":
                parts.append(f"{mn}.{k}=".encode() + dg)
    return h64(b"\n".join(parts))


# =================================================================== comparisons
def classify(op, ref, got) -> str:
    doc, kind = op[0], op[1]
    if doc == "inline" and kind in ("pages", "xml") and ref[0] == got[0]:
        mask = lambda parts: [re.sub(r'(name\\?["\'=: ,(]+)-?\d+', r"\1#", p if isinstance(p, str) else p.decode("latin-1")) for p in parts]
        if mask(ref[1]) == mask(got[1]):
            return "C12/inline-image-name-from-id"
    return f"C12/history-dependent:{doc}"


def classify_il(d, c, ref, g) -> str:
    if classify((d, "pages", c, None), (ref[0], ref[1]), (g[0], g[1])) == "C12/inline-image-name-from-id":
        return "C12/inline-image-name-from-id"
    return f"C12/interleaving-changes-result:{d}"


def classify_singles(d, k, w, joined) -> str:
    if classify((d, k, True, None), ("ok", w), ("ok", joined)) == "C12/inline-image-name-from-id":
        return "C12/inline-image-name-from-id"
    return f"C12/single-pages-differ-from-together:{d}:{k}"


def first_diff(ref, got):
    if ref[0] != got[0]:
        return {"status": [ref[0], got[0]]}
    for i, (a, b) in enumerate(zip(ref[1], got[1])):
        if a != b:
            j = next((k for k in range(min(len(a), len(b))) if a[k] != b[k]), min(len(a), len(b)))
            return {"part": i, "expected": a[max(0, j - 60): j + 60], "observed": b[max(0, j - 60): j + 60]}
    return {"parts": [len(ref[1]), len(got[1])]}


def _case(history, op):
    p = pool()
    used = sorted({o[0] for o in history} | {op[0]})
    return {"family": "history", "docs": {d: p[d] for d in used}, "history": [list(o) for o in history], "op": list(op)}


def _record(st, history, op, ref, got, family):
    sig = classify(op, ref, got)
    fd = first_diff(ref, got)
    st.violation(sig, _case(history, op), fd.get("expected", fd), fd.get("observed", fd),
                 f"{family}: result of {op} after {len(history)} earlier call(s) differs from its result in a fresh process")


# ------------------------------------------------------------------------- ref shard
_FRESH_SCRIPT = """
import sys, pickle
sys.path.insert(0, %r)
from mc.core import bind_repo
bind_repo()
import props.c12_purity as m
r = m.refs(par=4)
sys.stdout.buffer.write(pickle.dumps({op: m.rhash(v) for op, v in r.items()}))
"""


def shard_ref(st):
    R = refs(OPS + REF_ONLY_OPS)
    st.states += 1
    # (a) really fresh interpreters, two hash seeds
    for seed in ("0", "4242"):
        env = {**os.environ, "PYTHONHASHSEED": seed}
        p = subprocess.run([sys.executable, "-c", _FRESH_SCRIPT % ROOT], capture_output=True, env=env, cwd=ROOT)
        if p.returncode != 0:
            raise RuntimeError("fresh interpreter failed: " + p.stderr.decode()[-2000:])
        fresh = pickle.loads(p.stdout)
        for op in OPS:
            st.case(("fresh", seed, op), nontrivial=True, outcome=fresh[op])
            st.transitions += 1
            if fresh[op] != rhash(R[op]):
                st.violation(f"C12/fresh-interpreter-differs:{op[0]}:{op[1]}", {"family": "fresh", "seed": seed, "docs": {op[0]: pool()[op[0]]}, "op": list(op), "history": []},
                             rhash(R[op]), fresh[op], "result in a fresh interpreter differs from the result in a forked import-only process")
        st.traces += 1
    # (b) caching on == off
    for d in DOCS + REF_ONLY_DOCS:
        for k in KINDS:
            for s in subsets(d):
                a, b = R[(d, k, True, s)], R[(d, k, False, s)]
                st.case(("caching", d, k, s), nontrivial=True, outcome=rhash(a))
                if a != b:
                    fd = first_diff(a, b)
                    st.violation(f"C12/caching-changes-result:{d}:{k}", {"family": "caching", "docs": {d: pool()[d]}, "op": [d, k, True, s], "history": []},
                                 fd.get("expected", fd), fd.get("observed", fd), "caching=True and caching=False give different results")
    # (c) pages one at a time == together
    for d in DOCS + REF_ONLY_DOCS:
        for k in KINDS:
            for c in (True, False):
                whole, singles = R[(d, k, c, None)], [R[(d, k, c, s)] for s in subsets(d)[1:]]
                if not all(r[0] == "ok" for r in [whole] + singles):
                    st.not_judged["single-vs-together: a call raises"] += 1
                    continue
                if k == "text":
                    joined = ["".join(r[1][0] for r in singles)]
                    w = whole[1]
                elif k == "pages":
                    joined = [p for r in singles for p in r[1]]
                    w = whole[1]
                else:
                    joined = [p for r in singles for p in r[1][1:-1]]
                    w = whole[1][1:-1]
                st.case(("singles", d, k, c), nontrivial=True, outcome=rhash(joined))
                if joined != w:
                    fd = first_diff(("ok", w), ("ok", joined))
                    st.violation(classify_singles(d, k, w, joined), {"family": "singles", "docs": {d: pool()[d]}, "op": [d, k, c, None], "history": []},
                                 fd.get("expected", fd), fd.get("observed", fd), "pages extracted one at a time differ from the pages extracted together")
    st.sample({"family": "ref", "operations": len(OPS), "example": list(OPS[0]), "result": R[OPS[0]]})


# ------------------------------------------------------------------------- bfs shard
def bfs_ops(tier):
    return OPS if tier == "thorough" else [o for o in OPS if o[3] is None]


def _expand(args):
    """Child: replay ``hist``, then try every operation in a grandchild; returns [(digest, result-hash, result|None)]."""
    hist, ops = args
    install_id("asc")
    for op in hist:
        run_op(op)
    R = _REFS

    def one(op):
        got = run_op(op)
        ok = got == R[op]
        return (state_digest(), rhash(got), None if ok else got)

    return fork_map(one, ops, par=8)


def _digest_only(hist):
    install_id("asc")
    for op in hist:
        run_op(op)
    return state_digest()


def shard_bfs(st, tier, par=4, cap=8):
    R = refs()
    ops = bfs_ops(tier)
    root = fork_call(_digest_only, ())
    seen = {root: ()}
    frontier = [()]
    depth = 0
    per_depth = {0: 1}
    while frontier:
        if depth >= cap:
            st.caps.append(f"bfs depth cap {cap} reached with {len(frontier)} unexpanded states")
            break
        results = [fork_call(_expand, (h, ops)) for h in frontier]  # one state at a time; its operations run 8 at a time
        nxt = []
        for hist, res in zip(frontier, results):
            for op, (dg, rh, bad) in zip(ops, res):
                st.transitions += 1
                st.traces += 1
                st.case(("bfs", hist, op), nontrivial=len(hist) > 0, outcome=rh)
                if bad is not None:
                    _record(st, hist, op, R[op], bad, "bfs")
                if dg not in seen:
                    seen[dg] = hist + (op,)
                    nxt.append(hist + (op,))
        depth += 1
        if nxt:
            per_depth[depth] = len(nxt)
        frontier = nxt
    st.states += len(seen)
    st.add("bfs_states", len(seen))
    st.add("bfs_max_depth", max(per_depth))
    st.sample({"family": "bfs", "states_per_depth": per_depth, "deepest_history": [list(o) for o in max(seen.values(), key=len)]})


# ------------------------------------------------------------------------ tree shards
def _tree(args):
    """Child: run the history prefix (checking its last call), then every follow-up in a grandchild."""
    prefix, followups, deeper = args
    install_id("asc")
    R = _REFS
    out = []
    for i, op in enumerate(prefix):
        got = run_op(op)
        if i == len(prefix) - 1:
            out.append((tuple(prefix[:i]), op, rhash(got), None if got == R[op] else got))

    def leaf(op):
        got = run_op(op)
        res = [(tuple(prefix), op, rhash(got), None if got == R[op] else got)]
        if deeper and op in WHOLE_OPS:
            def leaf2(op2):
                g2 = run_op(op2)
                return (tuple(prefix) + (op,), op2, rhash(g2), None if g2 == R[op2] else g2)
            res += [fork_call(leaf2, o2) for o2 in deeper]
        return res

    for op in followups:
        out += fork_call(leaf, op)
    return out


def shard_tree(st, first, tier):
    R = refs()
    deeper = WHOLE_OPS if tier == "thorough" else None
    follow = OPS if tier == "thorough" else [o for o in OPS if o[2] or o[3] is None]
    res = fork_call(_tree, ((first,), follow, deeper))
    n = 0
    for hist, op, rh, bad in res:
        st.transitions += 1
        st.states += 1
        st.case(("tree", hist, op), nontrivial=len(hist) > 0, outcome=rh)
        if bad is not None:
            _record(st, hist, op, R[op], bad, "tree")
        n += 1
    st.traces += sum(1 for hist, *_ in res if len(hist) == (2 if deeper else 1))
    if first == WHOLE_OPS[0]:
        st.sample({"family": "tree", "history": [list(first), list(OPS[1])], "compared_with": "fresh-process result of the last call"})


# ------------------------------------------------------------------------ names shard
BIG_OP = ("bignames", "text", True, None)


def _names(_):
    """Child: extract the many-names document, then every whole-document operation in a grandchild."""
    install_id("asc")
    R = _REFS
    import pdfminer.psparser as ps

    before = len(ps.PSLiteralTable.dict)
    big = run_op(BIG_OP)

    def leaf(op):
        got = run_op(op)
        return (op, rhash(got), None if got == R[op] else got)

    return big, before, len(ps.PSLiteralTable.dict), [fork_call(leaf, op) for op in WHOLE_OPS + [BIG_OP]]


def shard_names(st):
    R = refs(OPS + [BIG_OP])
    big, before, after, res = fork_call(_names, None)
    st.add("names_interned_by_prefix", after - before)
    st.states += 1 + len(res)
    if big != R[BIG_OP]:
        st.violation("C12/many-names-document-not-reproducible", _case((), BIG_OP), R[BIG_OP][1][:1], big[1][:1], "names family")
    for op, rh, bad in res:
        st.transitions += 1
        st.traces += 1
        st.case(("names", op), nontrivial=True, outcome=rh)
        if bad is not None:
            _record(st, (BIG_OP,), op, R[op], bad, "names")
    st.sample({"family": "names", "history": [list(BIG_OP)], "distinct_names_in_prefix_document": BIGNAMES, "interned": after - before})


# ------------------------------------------------------------------------ crypt shards
CRYPT_OPS = [(d, k, True, None) for d in CRYPT_DOCS for k in KINDS]


def _crypt(args):
    """Child: extract encrypted document A, then every operation on every encrypted document in a grandchild
    (thorough: with one more encrypted document in between)."""
    first, deeper = args
    install_id("asc")
    R = _REFS
    got = run_op(first)
    out = [((), first, rhash(got), None if got == R[first] else got)]

    def leaf(op):
        g = run_op(op)
        res = [((first,), op, rhash(g), None if g == R[op] else g)]
        if deeper and op[1] == "text":
            def leaf2(op2):
                g2 = run_op(op2)
                return ((first, op), op2, rhash(g2), None if g2 == R[op2] else g2)
            res += [fork_call(leaf2, (d, "text", True, None)) for d in CRYPT_DOCS]
        return res

    for op in CRYPT_OPS + [(d, "text", False, None) for d in CRYPT_DOCS]:
        out += fork_call(leaf, op)
    return out


def shard_crypt(st, first_doc, tier):
    ops = CRYPT_OPS + [(d, "text", False, None) for d in CRYPT_DOCS]
    R = refs(ops)
    first = (first_doc, "text", True, None)
    res = fork_call(_crypt, (first, tier == "thorough"))
    for hist, op, rh, bad in res:
        st.transitions += 1
        st.states += 1
        st.case(("crypt", hist, op), nontrivial=len(hist) > 0, outcome=rh)
        if bad is not None:
            _record(st, hist, op, R[op], bad, "crypt")
    st.traces += sum(1 for hist, *_ in res if len(hist) == (2 if tier == "thorough" else 1))
    # plaintext must be what was written, whatever the key: all variants of the family read alike
    if first_doc == CRYPT_DOCS[0]:
        texts = {d: R[(d, "text", True, None)] for d in CRYPT_DOCS}
        for d in CRYPT_DOCS[1:]:
            st.case(("crypt-same-plaintext", d), nontrivial=True, outcome=rhash(texts[d]))
            if texts[d] != texts[CRYPT_DOCS[0]]:
                st.violation("C12/encrypted-variants-read-differently", {"family": "history", "docs": {d: pool()[d], CRYPT_DOCS[0]: pool()[CRYPT_DOCS[0]]},
                             "history": [], "op": [d, "text", True, None]}, texts[CRYPT_DOCS[0]][1][:1], texts[d][1][:1],
                             "same plaintext under another handler/key extracts differently in a fresh process")
        st.sample({"family": "crypt", "history": [list(first)], "then": [list(o) for o in CRYPT_OPS[:4]], "documents": CRYPT_DOCS})


# ------------------------------------------------------------------------ abort shards
TWIN_OPS = [("twin", k, c, sub) for k in KINDS for c in (True, False) for sub in (None, 0, 1)]


def _abort(args):
    """Child: one or two calls that are expected to die in the middle of the library, then the healthy twin (and the
    whole-document operations of the pool) in grandchildren."""
    prefix, follow = args
    install_id("asc")
    R = _REFS
    out = []
    for i, op in enumerate(prefix):
        got = run_op(op)
        out.append((tuple(prefix[:i]), op, rhash(got), None if got == R[op] else got, got[0]))

    def leaf(op):
        g = run_op(op)
        return (tuple(prefix), op, rhash(g), None if g == R[op] else g, g[0])

    return out + [fork_call(leaf, op) for op in follow]


def shard_abort(st, site, tier):
    a_ops = [("abort-" + site, k, c, None) for k in KINDS for c in (True, False)]
    R = refs(a_ops + TWIN_OPS + [("abort-" + s2, "text", True, None) for s2 in ABORT_SITES])
    follow = TWIN_OPS + (WHOLE_OPS if site == ABORT_SITES[0] or tier == "thorough" else [])
    prefixes = [(op,) for op in a_ops]
    if tier == "thorough":
        prefixes += [(a_ops[0], ("abort-" + s2, "text", True, None)) for s2 in ABORT_SITES]
    raised = 0
    for prefix in prefixes:
        res = fork_call(_abort, (prefix, follow))
        raised += sum(1 for r in res[: len(prefix)] if r[4] != "ok")
        for hist, op, rh, bad, status in res:
            st.transitions += 1
            st.states += 1
            st.case(("abort", hist, op), nontrivial=len(hist) > 0, outcome=rh)
            if bad is not None:
                _record(st, hist, op, R[op], bad, "abort")
        st.traces += len(follow)
    st.add("abort_prefix_calls_that_raised", raised)
    if site == ABORT_SITES[0]:
        st.sample({"family": "abort", "history": [list(a_ops[0])], "status_of_history": R[a_ops[0]][0], "then": [list(o) for o in TWIN_OPS[:3]]})


# -------------------------------------------------------------------------- api shards
# One PDFDocument / PDFResourceManager / interpreter / device / converter, used for several calls in a row: every call
# must answer what it answers as the first call on freshly made objects.
API_CALLS = ["labels", "walk", "walk-interleaved", "outlines", "dests", "layout", "text"]
API_DOCS = DOCS + ["nav", CRYPT_DOCS[0], CRYPT_DOCS[-1]]


class ApiObjects:
    def __init__(self, pdf: bytes, caching: bool):
        from pdfminer.converter import PDFPageAggregator, TextConverter
        from pdfminer.layout import LAParams
        from pdfminer.pdfdocument import PDFDocument
        from pdfminer.pdfinterp import PDFPageInterpreter, PDFResourceManager
        from pdfminer.pdfparser import PDFParser

        self.doc = PDFDocument(PDFParser(io.BytesIO(pdf)), caching=caching)
        self.rm = PDFResourceManager(caching=caching)
        self.agg = PDFPageAggregator(self.rm, laparams=LAParams())
        self.ip = PDFPageInterpreter(self.rm, self.agg)
        self.sio = io.StringIO()
        self.tc = TextConverter(self.rm, self.sio, laparams=LAParams())
        self.tip = PDFPageInterpreter(self.rm, self.tc)

    def call(self, name: str):
        from pdfminer.pdfdocument import PDFDestinationNotFound, PDFNoOutlines, PDFNoPageLabels
        from pdfminer.pdfpage import PDFPage

        def page_id(p):
            return (p.pageid, p.label, p.rotate, canon(p.mediabox), canon(p.attrs))

        try:
            if name == "labels":
                try:
                    it = self.doc.get_page_labels()
                except PDFNoPageLabels:
                    return ("ok", ["no page labels"])
                return ("ok", [repr([next(it) for _ in range(5)])])
            if name == "walk":
                return ("ok", [repr(page_id(p)) for p in PDFPage.create_pages(self.doc)])
            if name == "walk-interleaved":
                a, b = PDFPage.create_pages(self.doc), PDFPage.create_pages(self.doc)
                ra, rb, live = [], [], [(a, None), (b, None)]
                live = [[a, ra], [b, rb]]
                while live:
                    for ent in list(live):
                        try:
                            ent[1].append(repr(page_id(next(ent[0]))))
                        except StopIteration:
                            live.remove(ent)
                return ("ok", ["A:"] + ra + ["B:"] + rb)
            if name == "outlines":
                try:
                    return ("ok", [repr(canon(o)) for o in self.doc.get_outlines()])
                except PDFNoOutlines:
                    return ("ok", ["no outlines"])
            if name == "dests":
                out = []
                for key in (b"d1", b"d2", "d3", b"missing", b"d1"):
                    try:
                        out.append(repr(canon(self.doc.get_dest(key))))
                    except PDFDestinationNotFound:
                        out.append("not found")
                return ("ok", out)
            if name == "layout":
                parts = []
                try:
                    for p in PDFPage.create_pages(self.doc):
                        self.ip.process_page(p)
                        parts.append(repr(canon(self.agg.get_result())))
                except Exception as e:  # noqa
                    return ("exc:" + _exc(e), parts)
                return ("ok", parts)
            if name == "text":
                start = len(self.sio.getvalue())
                try:
                    for p in PDFPage.create_pages(self.doc):
                        self.tip.process_page(p)
                except Exception as e:  # noqa
                    return ("exc:" + _exc(e), [self.sio.getvalue()[start:]])
                return ("ok", [self.sio.getvalue()[start:]])
        except Exception as e:  # noqa
            return ("exc:" + _exc(e), [])
        raise ValueError(name)


def _api_seq(args):
    """Child: fresh API objects for the document, then the calls in order; returns every call's result."""
    doc, caching, seq = args
    install_id("asc")
    o = ApiObjects(pool()[doc], caching)
    return [o.call(c) for c in seq]


def api_sequences(tier):
    n = 3 if tier == "thorough" else 2
    return [seq for k in range(2, n + 1) for seq in itertools.product(API_CALLS, repeat=k)]


def shard_api(st, doc, tier):
    pool()
    first = True
    for caching in (True, False):
        ref = {c: fork_call(_api_seq, (doc, caching, (c,)))[0] for c in API_CALLS}
        st.states += 1
        # the API level agrees with the high-level functions
        if doc in DOCS:
            R = refs([(doc, "text", caching, None), (doc, "pages", caching, None)])
            for c, k in (("text", "text"), ("layout", "pages")):
                hl = R[(doc, k, caching, None)]
                st.case(("api-hl", doc, caching, c), nontrivial=True, outcome=rhash(ref[c]))
                same = ref[c][0] == hl[0] and (hl[0] != "ok" and c == "text" or list(ref[c][1]) == list(hl[1]))  # extract_text returns nothing when it raises
                if not same:
                    fd = first_diff(hl, ref[c])
                    st.violation(f"C12/api-differs-from-high-level:{c}", {"family": "api", "docs": {doc: pool()[doc]}, "doc": doc, "caching": caching, "seq": [c], "hl": k},
                                 fd.get("expected", fd), fd.get("observed", fd), "the documented API recipe and the high_level function disagree")
        for seq in api_sequences(tier):
            got = fork_call(_api_seq, (doc, caching, seq))
            st.transitions += len(seq)
            st.states += len(seq)
            st.traces += 1
            st.case(("api", doc, caching, seq), nontrivial=True, outcome=rhash(got[-1]))
            for i, (c, g) in enumerate(zip(seq, got)):
                if i == 0:
                    continue  # first call on fresh objects is the reference itself
                if g != ref[c]:
                    fd = first_diff(ref[c], g)
                    st.violation(f"C12/api-object-reuse:{c}-after-{seq[i-1]}" if seq[i-1] != c else f"C12/api-object-reuse:{c}-twice",
                                 {"family": "api", "docs": {doc: pool()[doc]}, "doc": doc, "caching": caching, "seq": list(seq[: i + 1])},
                                 fd.get("expected", fd), fd.get("observed", fd),
                                 f"call {i + 1} ({c}) on reused PDFDocument/manager/interpreter/device answers differently than on fresh objects")
                    break
            if first and doc == "nav":
                st.sample({"family": "api", "doc": doc, "sequence": list(seq), "first_results": [r[1][:2] for r in got]})
                first = False


# ------------------------------------------------------------------ interleave shards
def _interleave(args):
    (da, ca), (db, cb), sched = args
    import pdfminer.high_level as hl

    install_id("asc")
    p = pool()
    its = {"A": hl.extract_pages(io.BytesIO(p[da]), caching=ca), "B": hl.extract_pages(io.BytesIO(p[db]), caching=cb)}
    got = {"A": ["ok", []], "B": ["ok", []]}
    for who in sched:
        if got[who][0] != "ok":
            continue
        try:
            got[who][1].append(repr(canon(next(its[who]))))
        except StopIteration:
            got[who][0] = "ok"
        except Exception as e:  # noqa
            got[who][0] = "exc:" + _exc(e)
    return (tuple(got["A"][0:1]) + (got["A"][1],), tuple(got["B"][0:1]) + (got["B"][1],))


def schedules():
    for pos in itertools.combinations(range(6), 3):
        yield "".join("A" if i in pos else "B" for i in range(6))


def shard_interleave(st, da, db):
    R = refs([(d, "pages", c, None) for d in (da, db) for c in (True, False)])
    first = True
    for ca, cb in (((True, True), (False, False), (True, False)) if da == db else ((True, True),)):
        st.states += len({sc[:k] for sc in schedules() for k in range(7)})  # nodes of the schedule tree
        if True:
            for sched in schedules():
                ga, gb = fork_call(_interleave, ((da, ca), (db, cb), sched))
                st.transitions += 6
                st.traces += 1
                st.case(("il", da, ca, db, cb, sched), nontrivial=sched not in ("AAABBB", "BBBAAA"), outcome=rhash((ga, gb)))
                for who, d, c, g in (("A", da, ca, ga), ("B", db, cb, gb)):
                    ref = R[(d, "pages", c, None)]
                    if (g[0], g[1]) != (ref[0], ref[1]):
                        fd = first_diff(ref, g)
                        st.violation(classify_il(d, c, ref, g), {"family": "interleave", "docs": {da: pool()[da], db: pool()[db]},
                                     "a": [da, ca], "b": [db, cb], "schedule": sched, "which": who},
                                     fd.get("expected", fd), fd.get("observed", fd), f"iterator {who} of schedule {sched} yields other pages than alone")
                if first and (da, db) == (DOCS[0], DOCS[1]):
                    st.sample({"family": "interleave", "a": da, "b": db, "schedule": "ABABAB", "caching": [ca, cb],
                               "compared_with": "pages of each iterator run alone in a fresh process"})
                    first = False


# --------------------------------------------------------------------- idorder shards
FLOWS = {"quick": (0.5, None), "thorough": (0.5, -0.5, 0.0, None)}


def _idrun(args):
    pdf, mode, flow = args
    import pdfminer.high_level as hl
    from pdfminer.layout import LAParams

    install_id(mode)
    la = LAParams(boxes_flow=flow)
    parts = []
    try:
        parts.append(hl.extract_text(io.BytesIO(pdf), laparams=la))
        parts += [repr(canon(p)) for p in hl.extract_pages(io.BytesIO(pdf), laparams=la)]
    except Exception as e:  # noqa
        return ("exc:" + _exc(e), parts)
    return ("ok", parts)


def grid_subsets(tier):
    ks = (3, 4) if tier == "quick" else (3, 4, 5)
    return [c for k in ks for c in itertools.combinations(range(9), k)]


def shard_idorder(st, cells_list, tier):
    for cells in cells_list:
        pdf = grid_doc(list(cells))
        for flow in FLOWS[tier]:
            a = fork_call(_idrun, (pdf, "asc", flow))
            b = fork_call(_idrun, (pdf, "desc", flow))
            st.transitions += 2
            st.states += 1
            st.traces += 1
            st.case(("id", cells, flow), nontrivial=True, outcome=rhash(a))
            if a != b:
                fd = first_diff(a, b)
                st.violation("C12/layout-tie-broken-by-id", {"family": "idorder", "pdf": pdf, "cells": list(cells), "boxes_flow": flow},
                             fd.get("expected", fd), fd.get("observed", fd), "result depends on the numeric order of id() of the text boxes")
    if tuple(cells_list[0]) == (0, 1, 2):
        st.sample({"family": "idorder", "cells": list(cells_list[0]), "flows": list(FLOWS[tier]), "pdf": grid_doc(list(cells_list[0]))})


# ============================================================================ runner
def shards(tier):
    # references are computed here, in forks of the (import-only) parent, and inherited by the pool workers
    refs(par=8)
    out = [("ref",), ("bfs",), ("names",)]
    out += [("crypt", d) for d in CRYPT_DOCS]
    out += [("api", d) for d in API_DOCS]
    out += [("abort", site) for site in ABORT_SITES]
    # interleaved iterators over two encrypted documents with different keys (same handler family, and across the RC4 families)
    out += [("il", CRYPT_DOCS[i], CRYPT_DOCS[i + 1]) for i in range(0, len(CRYPT_DOCS), 2)] + [("il", CRYPT_DOCS[0], CRYPT_DOCS[3]), ("il", CRYPT_DOCS[2], CRYPT_DOCS[5])]
    out += [("tree", op) for op in WHOLE_OPS]
    out += [("il", a, b) for i, a in enumerate(DOCS) for b in DOCS[i:]]
    subs = grid_subsets(tier)
    out += [("id", tuple(subs[i:i + 15])) for i in range(0, len(subs), 15)]
    return out


def run_shard(shard, tier, st):
    fam = shard[0]
    if fam == "ref":
        shard_ref(st)
    elif fam == "bfs":
        shard_bfs(st, tier)
    elif fam == "names":
        shard_names(st)
    elif fam == "crypt":
        shard_crypt(st, shard[1], tier)
    elif fam == "api":
        shard_api(st, shard[1], tier)
    elif fam == "abort":
        shard_abort(st, shard[1], tier)
    elif fam == "tree":
        shard_tree(st, shard[1], tier)
    elif fam == "il":
        shard_interleave(st, shard[1], shard[2])
    elif fam == "id":
        shard_idorder(st, shard[1], tier)
    else:
        raise ValueError(shard)


# ============================================================================ replay
def _replay_history(args):
    pdfs, history, op = args
    install_id("asc")
    for h in history:
        run_op(tuple(h), pdfs)
    return run_op(tuple(op), pdfs)


def replay(case):
    from mc.core import jenc

    fam = case.get("family")
    out = []
    if fam in ("history", "fresh"):
        op = tuple(case["op"])
        ref = fork_call(_replay_history, (case["docs"], [], op))
        got = fork_call(_replay_history, (case["docs"], case["history"], op))
        if fam == "fresh":
            env = {**os.environ, "PYTHONHASHSEED": case["seed"]}
            p = subprocess.run([sys.executable, "-c", _FRESH_SCRIPT % ROOT], capture_output=True, env=env, cwd=ROOT)
            fresh = pickle.loads(p.stdout)
            if fresh[op] != rhash(ref):
                out.append({"signature": f"C12/fresh-interpreter-differs:{op[0]}:{op[1]}", "expected": rhash(ref), "observed": fresh[op]})
        elif got != ref:
            fd = first_diff(ref, got)
            out.append({"signature": classify(op, ref, got), "expected": jenc(fd.get("expected", fd)), "observed": jenc(fd.get("observed", fd))})
    elif fam == "caching":
        d, k, _, s = case["op"]
        a = fork_call(_replay_history, (case["docs"], [], (d, k, True, s)))
        b = fork_call(_replay_history, (case["docs"], [], (d, k, False, s)))
        if a != b:
            fd = first_diff(a, b)
            out.append({"signature": f"C12/caching-changes-result:{d}:{k}", "expected": jenc(fd.get("expected", fd)), "observed": jenc(fd.get("observed", fd))})
    elif fam == "singles":
        d, k, c, _ = case["op"]
        whole = fork_call(_replay_history, (case["docs"], [], (d, k, c, None)))
        singles = [fork_call(_replay_history, (case["docs"], [], (d, k, c, s))) for s in subsets(d)[1:]]
        if k == "text":
            joined, w = ["".join(r[1][0] for r in singles)], whole[1]
        elif k == "pages":
            joined, w = [p for r in singles for p in r[1]], whole[1]
        else:
            joined, w = [p for r in singles for p in r[1][1:-1]], whole[1][1:-1]
        if joined != w:
            fd = first_diff(("ok", w), ("ok", joined))
            out.append({"signature": classify_singles(d, k, w, joined), "expected": jenc(fd.get("expected", fd)), "observed": jenc(fd.get("observed", fd))})
    elif fam == "interleave":
        global _POOL
        _POOL = dict(pool(), **case["docs"])
        (da, ca), (db, cb) = case["a"], case["b"]
        ga, gb = fork_call(_interleave, ((da, ca), (db, cb), case["schedule"]))
        for who, d, c, g in (("A", da, ca, ga), ("B", db, cb, gb)):
            ref = fork_call(_replay_history, (case["docs"], [], (d, "pages", c, None)))
            if (g[0], g[1]) != (ref[0], ref[1]):
                fd = first_diff(ref, g)
                out.append({"signature": classify_il(d, c, ref, g), "expected": jenc(fd.get("expected", fd)), "observed": jenc(fd.get("observed", fd))})
    elif fam == "idorder":
        a = fork_call(_idrun, (case["pdf"], "asc", case["boxes_flow"]))
        b = fork_call(_idrun, (case["pdf"], "desc", case["boxes_flow"]))
        if a != b:
            fd = first_diff(a, b)
            out.append({"signature": "C12/layout-tie-broken-by-id", "expected": jenc(fd.get("expected", fd)), "observed": jenc(fd.get("observed", fd))})
    return out
