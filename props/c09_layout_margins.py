"""C09 -- layout grouping follows the documented margins; the result is scale-invariant.

Shape B: arrangement families whose gaps / overlaps / offsets sit exactly on,
half a unit below and half a unit above every documented threshold (all
coordinates dyadic, so the implementation's float arithmetic is exact), each
in horizontal and (mirrored) vertical writing, each analysed at the base scale
and at several 2^k scales.  The oracle is the reference model in
``mc/refs/layout_model.py`` (written from the documentation, rational
arithmetic): expected line partition, inserted spaces, box partition, and --
for column grids -- box order.
"""
from __future__ import annotations

import itertools
import traceback
from fractions import Fraction as Q

from pdfminer.layout import (
    LAParams,
    LTChar,
    LTTextBox,
    LTTextBoxVertical,
    LTTextGroup,
    LTTextLine,
    LTTextLineVertical,
)

from mc.explore import Abort, ChoiceExplorer
from mc.refs import layout_model as M
from mc.refs.layout_glyphs import install_stable_id, make_char, make_figure, make_page

ID = "C09"
LEVEL = "model_checking"

H2 = Q(1, 2)
BASE_SCALES = (-3, -1, 1, 4)


def around(t):
    return [t - H2, t, t + H2]


# ------------------------------------------------------------------ forced-prefix chooser
class Pre:
    """first len(prefix) choices are fixed by the shard, the rest are explored"""

    def __init__(self, x, prefix):
        self.x = x
        self.prefix = prefix
        self.i = 0

    def pick(self, seq, label=""):
        seq = list(seq)
        if self.i < len(self.prefix):
            v = seq[self.prefix[self.i]]
            self.i += 1
            return v
        return self.x.pick(seq, label)


SIZES = [(wa, ha, wb, hb) for wa in (8, 16) for ha in (8, 16) for wb in (8, 16) for hb in (8, 16)]
SIZES_QUICK = [(8, 8, 8, 8), (8, 16, 16, 8), (16, 8, 8, 16), (16, 16, 8, 8), (8, 8, 16, 16), (8, 16, 8, 8)]
LO = [Q(1, 2), Q(1, 4), Q(3, 4)]
CM = [Q(1), Q(1, 2), Q(2)]
WM = [Q(1, 4), Q(1, 8), Q(1, 2)]
LM = [Q(1, 2), Q(1, 4), Q(1)]
BF = [Q(1, 2), Q(1, 4), Q(3, 4)]
# columns family: also the three spellings of zero (int 0, 0.0, -0.0: both positions matter equally) and the documented
# extremes (+1: only the vertical position matters, -1: only the horizontal one); raw Python values, passed on unchanged
BF_COLUMNS = BF + [0, 0.0, -0.0, 1.0, -1]


def G(t, u0, v0, w, h):
    return (t, Q(u0), Q(v0), Q(w), Q(h))


# ------------------------------------------------------------------ families (reading coordinates)
def fam_pair(c, tier):
    wa, ha, wb, hb = c.pick(SIZES if tier == "thorough" else SIZES_QUICK, "sizes")
    lo = c.pick(LO, "line_overlap")
    cm = c.pick(CM, "char_margin")
    wm = c.pick(WM, "word_margin")
    tau = lo * min(ha, hb)
    ov = c.pick(around(tau) + [Q(0)], "overlap")
    above = c.pick([True, False], "above")
    mu = cm * max(wa, wb)
    om = wm * max(wb, hb)
    gaps = []
    for g in around(mu) + around(om) + [Q(0)]:
        if g not in gaps:
            gaps.append(g)
    gap = c.pick(gaps, "gap")
    forward = c.pick([True, False], "forward")
    v0 = (ha - ov) if above else (ov - hb)
    u0 = (wa + gap) if forward else (-gap - wb)
    glyphs = [G("a", 0, 0, wa, ha), G("b", u0, v0, wb, hb)]
    extra = ()
    if (wa, ha, wb, hb) == (8, 8, 8, 8):
        extra = (7,)
        if lo == LO[0] and cm == CM[1] and wm == WM[0] and ov == tau and above:
            extra = (7, 10)
    return {"family": "pair", "glyphs": glyphs, "params": (lo, cm, Q(1, 2), wm, Q(1, 2)), "judge_space": forward, "extra_scales": extra}


def fam_pair_special(c, tier):
    kind = c.pick(["nested", "wm0"], "kind")
    if kind == "nested":
        swap = c.pick([False, True], "swap")
        lo = c.pick([Q(3, 4), Q(1), Q(1, 2)], "line_overlap")
        off = c.pick([0, 4, 8, 2], "inner offset")
        gap = c.pick([1, 0, 8], "gap")
        a = G("a", 0, 0, 8, 16)
        b = G("b", 8 + gap, off, 8, 8)
        if swap:
            a, b = G("a", 0, off, 8, 8), G("b", 8 + gap, 0, 8, 16)
        return {"family": "pair-nested", "glyphs": [a, b], "params": (lo, Q(2), Q(1, 2), Q(1, 4), Q(1, 2)), "judge_space": True, "extra_scales": ()}
    gap = c.pick([Q(1, 2), Q(0), Q(4), Q(1, 8)], "gap")
    w = c.pick([8, 16], "w")
    return {
        "family": "pair-wm0",
        "glyphs": [G("a", 0, 0, 8, 8), G("b", 8 + gap, 0, w, 8)],
        "params": (Q(1, 2), Q(2), Q(1, 2), Q(0), Q(1, 2)),
        "judge_space": True,
        "extra_scales": (),
    }


def _rel_options(lo, cm, wm, pw, ph, w, h):
    om = wm * max(w, h)
    mu = cm * max(pw, w)
    tau = lo * min(ph, h)
    out = []
    for g in [Q(0)] + around(om) + around(mu):
        if ("gap", g) not in out:
            out.append(("gap", g))
    out += [("ov", o) for o in around(tau)]
    return out


def _place(prev, rel, w, h):
    _, pu0, pv0, pw, ph = prev
    if rel[0] == "gap":
        return (pu0 + pw + rel[1], pv0)
    return (pu0 + pw + 1, pv0 + ph - rel[1])


def fam_triple(c, tier):
    th = tier == "thorough"
    w2, h2 = c.pick([(8, 8), (16, 16)], "mid size")
    lo = c.pick(LO if th else [Q(1, 2), Q(1, 4)], "line_overlap")
    cm = c.pick(CM if th else [Q(1), Q(2)], "char_margin")
    wm = c.pick(WM if th else [Q(1, 4), Q(1, 8)], "word_margin")
    g1 = G("a", 0, 0, 8, 8)
    r12 = c.pick(_rel_options(lo, cm, wm, 8, 8, w2, h2), "rel12")
    u, v = _place(g1, r12, w2, h2)
    g2 = G("b", u, v, w2, h2)
    opts = _rel_options(lo, cm, wm, w2, h2, 8, 8) + [("back", du, dv) for du in (0, 4) for dv in (0, -12, -10)]
    r23 = c.pick(opts, "rel23")
    if r23[0] == "back":
        u, v = Q(r23[1]), Q(r23[2])
    else:
        u, v = _place(g2, r23, 8, 8)
    g3 = G("c", u, v, 8, 8)
    return {"family": "triple", "glyphs": [g1, g2, g3], "params": (lo, cm, Q(1, 2), wm, Q(1, 2)), "judge_space": True, "extra_scales": ()}


def fam_triple_back(c, tier):
    """a wide glyph, a narrow glyph placed BACK over it (accent / overstrike / kerned back), then a third glyph whose gap to
    the second glyph (its predecessor in the content) is on / below / above the word and character margins while it still
    lies left of the line's right edge"""
    w1 = c.pick([16, 24], "w1")
    du = c.pick([2, 6], "back offset")
    dv = c.pick([0, 2], "raise")
    w3, h3 = c.pick([(8, 8), (16, 16)], "size3")
    cm = c.pick([Q(1), Q(2)], "char_margin")
    wm = c.pick(WM, "word_margin")
    lo = Q(1, 2)
    g1 = G("a", 0, 0, w1, 8)
    g2 = G("b", du, dv, 4, 8)
    om = wm * max(w3, h3)
    mu = cm * max(4, w3)
    gaps = []
    for g in [Q(0)] + around(om) + around(mu):
        if g not in gaps:
            gaps.append(g)
    gap = c.pick(gaps, "gap23")
    g3 = G("c", du + 4 + gap, dv, w3, h3)
    return {"family": "triple-back", "glyphs": [g1, g2, g3], "params": (lo, cm, Q(1, 2), wm, Q(1, 2)), "judge_space": True, "extra_scales": ()}


def _line(texts, u0, u1, v0, h):
    n = len(texts)
    w = (Q(u1) - Q(u0)) / n
    return [G(t, Q(u0) + i * w, v0, w, h) for i, t in enumerate(texts)]


def fam_linepair(c, tier):
    lm = c.pick(LM, "line_margin")
    hv = c.pick([8, 16, 32] if tier == "thorough" else [8, 16], "viewer height")
    d = lm * hv
    dh = c.pick([Q(0)] + around(d) + [-t for t in around(d)], "height difference")
    ho = hv + dh
    if ho <= 0:
        raise Abort()
    vgap = c.pick(around(d) + [Q(0), Q(-1)], "vertical gap")
    big = 2 * d + 4
    thr = around(d)
    aligns = [("all", Q(0), Q(0)), ("none", big, 3 * big)]
    for s in (1, -1):
        aligns += [("start", s * t, s * big) for t in thr]
        aligns += [("end", s * big, s * t) for t in thr]
        for X in (big, -big):
            aligns += [("centre", s * t - X, s * t + X) for t in thr]
    _, offl, offr = c.pick(aligns, "alignment")
    below = c.pick([True, False], "other below")
    viewer_first = c.pick([True, False], "viewer first")
    W = 96
    if W + offr - offl <= 0:
        raise Abort()
    viewer = _line("abc", 0, W, 0, hv)
    v0 = (-vgap - ho) if below else (hv + vgap)
    other = _line("de", offl, W + offr, v0, ho)
    glyphs = viewer + other if viewer_first else other + viewer
    g = {"family": "linepair", "glyphs": glyphs, "params": (Q(1, 2), Q(1), lm, Q(1, 4), Q(1, 2)), "judge_space": True, "extra_scales": ()}
    # lines that are neighbours by half a unit: also translate the page content so that the near edge of the
    # other line lies exactly on a boundary of Plane's 50-unit grid (grid lines must not influence the outcome)
    if vgap == d - H2 and c.pick([False, True], "near edge on a grid line"):
        g["anchor_v"] = (-vgap) if below else (hv + vgap)
    return g


def fam_linepair_shift(c, tier):
    ov = c.pick([Q(0), H2, -H2, Q(8)], "overlap along")
    right = c.pick([True, False], "shift right")
    below = c.pick([True, False], "other below")
    lm = c.pick([Q(16), Q(32)], "line_margin")
    viewer_first = c.pick([True, False], "viewer first")
    W = 96
    viewer = _line("abc", 0, W, 0, 8)
    u0 = (W - ov) if right else (ov - W)
    v0 = Q(-10) if below else Q(10)
    other = _line("def", u0, u0 + W, v0, 8)
    glyphs = viewer + other if viewer_first else other + viewer
    return {"family": "linepair-shift", "glyphs": glyphs, "params": (Q(1, 2), Q(1), lm, Q(1, 4), Q(1, 2)), "judge_space": True, "extra_scales": ()}


CHAIN_GAPS = [Q(2), Q(7, 2), Q(4), Q(9, 2), Q(15, 2), Q(8), Q(17, 2), Q(12)]
PERM3 = list(itertools.permutations(range(3)))


def fam_chain(c, tier):
    th = tier == "thorough"
    hs = c.pick(list(itertools.product((8, 16, 12) if th else (8, 16), repeat=3)), "heights")
    gaps = CHAIN_GAPS + ([Q(11, 2), Q(6), Q(13, 2)] if th else [])
    g12 = c.pick(gaps, "gap12")
    g23 = c.pick(gaps, "gap23")
    perm = c.pick(PERM3, "content order")
    v = Q(0)
    lines = []
    texts = ["ab", "cd", "ef"]
    for i, h in enumerate(hs):
        v = v - h
        lines.append(_line(texts[i], 0, 32, v, h))
        v = v - (g12 if i == 0 else g23)
    glyphs = []
    for i in perm:
        glyphs += lines[i]
    return {"family": "chain", "glyphs": glyphs, "params": (Q(1, 2), Q(1), Q(1, 2), Q(1, 4), Q(1, 2)), "judge_space": True, "extra_scales": ()}


def _orders(n):
    if n <= 4:
        return list(itertools.permutations(range(n)))
    ident = tuple(range(n))
    out = [ident, tuple(reversed(ident))]
    out += [ident[k:] + ident[:k] for k in (1, 2, 3)]
    out += [tuple(i for i in ident if i % 2 == 0) + tuple(i for i in ident if i % 2), tuple(sorted(ident, key=lambda i: (i % 3, i)))]
    seen = []
    for o in out:
        if o not in seen:
            seen.append(o)
    return seen


def fam_columns(c, tier):
    grids = [(2, 3), (2, 2), (2, 1), (1, 3), (1, 2), (1, 1)] + ([(2, 4), (1, 4), (3, 2)] if tier == "thorough" else [])
    ncol, nrow = c.pick(grids, "grid")
    bf = c.pick(BF_COLUMNS, "boxes_flow")
    pitch = c.pick([16, 24], "row pitch")
    colgap = c.pick([4, 6], "column gap in pitches") * pitch
    nlines = c.pick([1, 2], "lines per cell")
    if nlines == 2 and pitch == 16:
        raise Abort()
    # single column: the top cell may be much wider than the others (same left edge)
    wide = c.pick([0, 64], "extra width of the top cell") if (ncol == 1 and nrow >= 2) else 0
    cells = []  # column-major, top to bottom
    cell_cols = []
    letters = "abcdefghijklmnopqrstuvwxyzABCDEFGHIJKLMNOPQRSTUVWXYZ"
    k = 0
    for col in range(ncol):
        for row in range(nrow):
            u0 = col * (16 + colgap)
            vtop = -row * (pitch * nlines)
            gl = []
            for ln in range(nlines):
                # lines of a cell are 10 apart (gap 2 < line_margin * 8): one paragraph
                gl += _line(letters[k:k + 2], u0, u0 + 16 + (wide if row == 0 else 0), vtop - 8 - ln * 10, 8)
                k += 2
            cells.append(gl)
            cell_cols.append(col)
    perm = c.pick(_orders(len(cells)), "content order")
    glyphs = []
    for i in perm:
        glyphs += cells[i]
    expected = [tuple(sorted(g[0] for g in cell)) for cell in cells]
    return {
        "family": "columns",
        "glyphs": glyphs,
        "params": (Q(1, 2), Q(1), Q(1, 2), Q(1, 4), bf),
        "judge_space": True,
        "extra_scales": (),
        "column_major": expected,
        "cell_cols": cell_cols,
        # what the documentation determines: both positions matter (|boxes_flow| < 1) -> full column-major order on a
        # grid; +1 (only vertical matters) -> top to bottom within each column; -1 (only horizontal) -> left column first
        "order_mode": "within-column" if bf == 1 else "columns-only" if bf == -1 else "column-major",
    }


def fam_hline_then_cross(c, tier):
    """a line of 2-3 glyphs, then a glyph that is aligned with the line's last (or first) glyph only in the OTHER writing
    direction (directly below / above it), detect_vertical=True: the running line must not take it"""
    n = c.pick([2, 3], "glyphs in the line")
    cm = c.pick([Q(1), Q(2)], "char_margin")
    wc = c.pick([8, 16], "width of the cross glyph")
    last = c.pick([True, False], "under the last glyph")
    below = c.pick([True, False], "below")
    lo = Q(1, 2)
    line = [G("abc"[i], 8 * i, 0, 8, 8) for i in range(n)]
    t = line[-1] if last else line[0]
    ov = c.pick(around(lo * min(8, wc)) + [Q(8)], "overlap along the line")
    dist = c.pick(around(cm * 8) + [Q(0), Q(1)], "distance across the line")
    u0 = t[1] + 8 - ov
    v0 = (-dist - 8) if below else (8 + dist)
    return {"family": "hline-then-cross", "glyphs": line + [G("x", u0, v0, wc, 8)], "params": (lo, cm, Q(1, 2), Q(1, 4), Q(1, 2)),
            "judge_space": True, "extra_scales": (), "detect_vertical": True}


PERM3B = list(itertools.permutations(range(3)))


def fam_overlap3(c, tier):
    """three one-glyph boxes (char_margin = line_margin = 0 keeps every glyph a box of its own): a huge glyph, a small
    glyph inside it and a caption overlapping its edge by various amounts -> pairs with different (negative) distances"""
    sx, sy, ss = c.pick([(8, 8, 8), (40, 44, 8), (20, 12, 4)], "small glyph")
    # caption 32x8: protrudes from the huge glyph by 1, 2, 3, 4 (distance -192, -128, -64, 0 at cy inside), 8, 24, 32 (touching), 40
    cx = c.pick([33, 34, 35, 36, 40, 56, 64, 72], "caption x")
    cy = c.pick([20, -4, 28], "caption y")
    perm = c.pick(PERM3B, "content order")
    gl = [G("H", 0, 0, 64, 64), G("s", sx, sy, ss, ss), G("c", cx, cy, 32, 8)]
    return {"family": "overlap3", "glyphs": [gl[i] for i in perm], "params": (Q(1, 2), Q(0), Q(0), Q(1, 4), Q(1, 2)),
            "judge_space": True, "extra_scales": (), "group_tree": True}


def fam_diagonal(c, tier):
    """two one-line boxes on the anti-diagonal: A upper-right, B lower-left, displaced equally along and across the lines;
    boxes_flow > 0 (the across-lines position weighs more; +1: only it) -> A first, boxes_flow < 0 -> B first"""
    bf = c.pick([1.0, Q(1, 2), -0.5, -1], "boxes_flow")
    delta = c.pick([40, 64], "displacement")
    a_first = c.pick([True, False], "A first in the content")
    A = _line("ab", 20 + delta, 36 + delta, 20 + delta, 8)
    B = _line("cd", 20, 36, 20, 8)
    return {"family": "diagonal", "glyphs": (A + B) if a_first else (B + A), "params": (Q(1, 2), Q(1), Q(1, 2), Q(1, 4), bf),
            "judge_space": True, "extra_scales": (), "expect_first": ("a", "b") if bf > 0 else ("c", "d")}


def fam_overprint(c, tier):
    """a glyph printed (almost) on top of its predecessor -- aligned in BOTH writing directions -- with detect_vertical=True,
    optionally followed by a third glyph; only direction-neutral facts are judged (see lines_only_if / mirror_check)"""
    du = c.pick([0, 2, 3], "shift along")
    dv = c.pick([0, 2, 3], "shift across")
    third = c.pick(["none", "next", "below"], "third glyph")
    gl = [G("a", 0, 0, 8, 8), G("b", du, dv, 8, 8)]
    if third == "next":
        gl.append(G("c", du + 8, dv, 8, 8))
    elif third == "below":
        gl.append(G("c", du, dv - 8, 8, 8))
    return {"family": "overprint", "glyphs": gl, "params": (Q(1, 2), Q(1), Q(1, 2), Q(1, 4), Q(1, 2)), "judge_space": True,
            "extra_scales": (), "detect_vertical": True}


def fam_noflow(c, tier):
    """boxes_flow=None: boxes of different heights side by side (and optionally a third one below), bottoms level or offset;
    documented order: by the position of the bottom-left corner"""
    nl = c.pick([1, 2, 3], "lines in the left box")
    nr = c.pick([3, 1, 2], "lines in the right box")
    off = c.pick([0, 4, -4, 14, -14], "bottom of the right box relative to the left one")
    third = c.pick([0, 1, 2], "lines in a third box below (0 = none)")
    letters = "abcdefghijklmnopqrstuvwxyz"
    cells = []
    k = 0

    def cell(u0, bottom, n):
        nonlocal k
        gl = []
        for ln in range(n):          # top line first; lines 10 apart (gap 2 < line_margin * 8): one box
            gl += _line(letters[k:k + 2], u0, u0 + 16, bottom + 10 * (n - 1 - ln), 8)
            k += 2
        return gl

    cells.append(cell(0, 0, nl))
    cells.append(cell(80, off, nr))
    if third:
        cells.append(cell(40, -60, third))
    perm = c.pick(list(itertools.permutations(range(len(cells)))), "content order")
    glyphs = []
    for i in perm:
        glyphs += cells[i]
    return {"family": "noflow", "glyphs": glyphs, "params": (Q(1, 2), Q(1), Q(1, 2), Q(1, 4), None), "judge_space": True,
            "extra_scales": (), "bottom_left_order": True}


def fam_chain_in_figure(c, tier):
    g = fam_chain(c, tier)
    g["family"] = "chain-in-figure"
    g["in_figure"] = True
    return g


FAMILIES = {
    # name: (generator, arities of the shard-prefix choices per tier, orientations)
    "pair": (fam_pair, lambda t: [len(SIZES if t == "thorough" else SIZES_QUICK), len(LO)], "HV"),
    "pair-special": (fam_pair_special, lambda t: [2], "HV"),
    "triple": (fam_triple, lambda t: [2, 3, 3] if t == "thorough" else [2, 2, 2], "HV"),
    "linepair": (fam_linepair, lambda t: [len(LM), 3 if t == "thorough" else 2, 7], "HV"),
    "linepair-shift": (fam_linepair_shift, lambda t: [4], "HV"),
    "chain": (fam_chain, lambda t: [27, len(CHAIN_GAPS) + 3] if t == "thorough" else [8, len(CHAIN_GAPS)], "HV"),
    "columns": (fam_columns, lambda t: [9 if t == "thorough" else 6, len(BF_COLUMNS)], "H"),
    "triple-back": (fam_triple_back, lambda t: [2, 2], "HV"),
    "hline-then-cross": (fam_hline_then_cross, lambda t: [2, 2, 2], "HV"),
    "overlap3": (fam_overlap3, lambda t: [3, 8], "H"),
    "noflow": (fam_noflow, lambda t: [3, 3], "H"),
    "diagonal": (fam_diagonal, lambda t: [4], "HV"),
    "overprint": (fam_overprint, lambda t: [3], "HV"),
    "chain-in-figure": (fam_chain_in_figure, lambda t: [27, len(CHAIN_GAPS) + 3] if t == "thorough" else [8, len(CHAIN_GAPS)], "H"),
}

META = {
    "rule": (
        "arrangement families, every choice vector enumerated (ChoiceExplorer, full mode): pair (2 glyphs: sizes 8/16, "
        "vertical overlap in {t-1/2,t,t+1/2,0} around t=line_overlap*min height, horizontal gap on/below/above "
        "char_margin*max width and word_margin*max(w,h), above/below, content order forward/reversed; line_overlap "
        "{1/4,1/2,3/4} x char_margin {1/2,1,2} x word_margin {1/8,1/4,1/2}); pair-special (nested extents with line_overlap up to 1; "
        "word_margin=0); triple (joins decided on consecutive glyphs, third glyph also placed back at the first); linepair "
        "(two lines: vertical gap, height difference and start/end/centre offsets each on/below/above line_margin*height "
        "of the viewing line, either line viewing, either content order; neighbours-by-half-a-unit also translated so that the near edge lies on a line of Plane's 50-unit grid; proper-overlap shift family); chain (three lines of "
        "heights 8/16 with gaps around both tolerances, all 6 content orders: connected components of an asymmetric "
        "relation); chain-in-figure (the chain arrangements as the content of a figure on a page that has no glyph of its own, all_texts=True: same expected grouping); hline-then-cross (a line of 2-3 glyphs followed by a glyph directly below/above its last or first glyph with along-overlap and across-distance on/below/above the thresholds, detect_vertical=True, both writing directions: only the determinate half -- a line holds only consecutive glyphs joined by its own direction's predicate -- is judged); overlap3 (a huge glyph, a small glyph inside it and a caption overlapping its edge, char_margin = line_margin = 0, all content orders: the closest pair, distance = bounding area minus both areas, must be merged first in page.groups); diagonal (two one-line boxes on the anti-diagonal with equal displacement along and across, boxes_flow {1,1/2,-1/2,-1}, both content orders, horizontal and mirrored vertical writing: the across-lines position decides for boxes_flow > 0, the along-lines position for < 0); overprint (a glyph shifted by 0-3 units in both axes over its predecessor, optionally a third glyph, detect_vertical=True, both writing directions: wherever a consecutive pair is aligned in both directions the mirrored arrangement must give the mirrored lines); noflow (boxes_flow=None: two boxes of 1-3 lines side by side with level or offset bottoms, optionally a third box below, all content orders: output order must be by bottom edge downwards, equal bottoms left to right, as documented for None); triple-back (second glyph placed back over a wide first glyph, third glyph with its gap to the second on/below/above both margins); columns (1-2 columns x 1-3 rows, 1-2 lines per cell, single column also with a wide top cell, boxes_flow {1/4,1/2,3/4,0,0.0,-0.0,+1,-1}, content orders). Every "
        "family except columns is run in horizontal writing (detect_vertical=False) and mirrored into vertical writing "
        "(detect_vertical=True). Every arrangement is analysed at scale 1 and at 2^k, k in {-3,-1,1,4} (k=7 and k=10 on "
        "stated sub-families). A case is one arrangement with its LAParams (distinct by construction); non-trivial = the "
        "model predicts at least one join (a line of >= 2 glyphs or a box of >= 2 lines) or the case is a column grid "
        "with >= 2 boxes or an overlap3 arrangement (group tree judged). states/transitions = nodes/edges of the choice trees; traces = arrangements compared with the model."
    ),
    "bound": {
        "quick": "all families; pair with 6 of the 16 size combinations; scales {-3,-1,1,4}, k=7 for all 8x8 pairs, k=10 for the 8x8 pairs with line_overlap 1/2, char_margin 1/2, word_margin 1/4, overlap on the threshold",
        "thorough": "all families; pair with all 16 size combinations; triple over the full 3x3x3 margin grid; linepair also with viewer height 32; chain also with height 12 and gaps around 6; column grids also 2x4, 1x4, 3x2; scales {-3,-1,1,4}, k=7 for all 8x8 pairs, k=10 for the 8x8 pairs with line_overlap 1/2, char_margin 1/2, word_margin 1/4, overlap on the threshold",
    },
    "assumptions": [
        "all coordinates and margins are dyadic rationals, so the implementation's float arithmetic is exact and comparisons are exact",
        "glyphs are LTChar objects built with a stub font; page box (0,0,P,P), P a power of two enclosing the arrangement with a margin of 16",
        "the default word_margin 0.1 and other non-dyadic margins are not explored (their products are not exact in binary floating point)",
        "where consecutive glyphs satisfy the joining predicate of the *other* writing direction under detect_vertical the predicates do not determine the lines; judged there: every line holds only consecutive glyphs joined by its own direction's predicate, and -- from the documented 'as if the pdf was rotated' -- the mirrored arrangement yields the mirrored lines",
        "in vertical writing, the box relation of single-glyph lines is not judged (the implementation makes them horizontal lines; documentation silent)",
        "space insertion is not judged for glyph pairs placed right-to-left in content order (the documentation defines no signed gap)",
        "the group tree is judged only in overlap3 and only where the documented closest-first rule is not overridden by the implementation's undocumented postponement of pairs with a box in between; box order is judged only on column grids and, for boxes_flow=None, in the noflow family (horizontal boxes only; the documentation is silent on vertical ones): full column-major order for |boxes_flow| < 1 (incl. 0, 0.0, -0.0), only top-to-bottom within each column for +1, only left-column-first for -1; hierarchical group shape is only compared across scales",
        "ties between equal box distances are broken by id() (memory address) in group_textboxes -- run-to-run dependence is C12's "
        "subject; the harness substitutes a first-asked counter for the name `id` inside pdfminer.layout so that runs are reproducible",
        "scale factors beyond 2^4 are explored only on small sub-families because Plane's fixed grid size makes the analysis cost grow with the square of the scale",
    ],
}

DEADLINE = {"quick": 900, "thorough": 3600}


# ------------------------------------------------------------------ materialisation
def materialise(gen, orient):
    """reading-coordinate glyphs -> page coordinates (x0, y0, w, h) shifted into a power-of-two page"""
    boxes = []
    for t, u0, v0, w, h in gen["glyphs"]:
        x0, y0, x1, y1 = M.from_reading((u0, v0, u0 + w, v0 + h), orient)
        boxes.append((t, x0, y0, x1 - x0, y1 - y0))
    mx = min(b[1] for b in boxes)
    my = min(b[2] for b in boxes)
    sx = sy = Q(0)
    if "anchor_v" in gen:
        if orient == "H":
            sy = (-(gen["anchor_v"] - my + 16)) % 50
        else:
            sx = (-(gen["anchor_v"] - mx + 16)) % 50
    boxes = [(t, x0 - mx + 16 + sx, y0 - my + 16 + sy, w, h) for t, x0, y0, w, h in boxes]
    ext = max(max(b[1] + b[3] for b in boxes), max(b[2] + b[4] for b in boxes)) + 16
    P = 64
    while P < ext:
        P *= 2
    lo, cm, lm, wm, bf = gen["params"]
    case = {
        "family": gen["family"],
        "orient": orient,
        "glyphs": boxes,
        "page": P,
        "params": (lo, cm, lm, wm, bf, bool(gen.get("detect_vertical")) or orient == "V"),
        "judge_space": gen["judge_space"],
        "scales": tuple(BASE_SCALES) + tuple(gen["extra_scales"]),
    }
    if gen.get("in_figure"):
        case["in_figure"] = True
    if gen.get("group_tree"):
        case["group_tree"] = True
    if gen.get("bottom_left_order"):
        case["bottom_left_order"] = True
    if gen.get("expect_first"):
        case["expect_first"] = gen["expect_first"]
    if "column_major" in gen:
        case["column_major"] = gen["column_major"]
        case["cell_cols"] = gen["cell_cols"]
        case["order_mode"] = gen["order_mode"]
    return case


class FigureNotAnalysed(Exception):
    pass


def run_impl(case, k):
    """real analysis at scale 2^k -> canonical structure"""
    s = Q(2) ** k
    specs = [(t, float(x0 * s), float(y0 * s), float(w * s), float(h * s), "h") for t, x0, y0, w, h in case["glyphs"]]
    P = float(case["page"] * s)
    lo, cm, lm, wm, bf, dv = case["params"]
    in_figure = bool(case.get("in_figure"))
    if in_figure:
        # the page has no glyph of its own: all glyphs sit in a figure (a form XObject) covering the page; all_texts=True
        page, _ = make_page((0, 0, P, P), [])
        fig = make_figure("F", (0, 0, P, P))
        chars = [make_char(sp) for sp in specs]
        for ch in chars:
            fig.add(ch)
        page.add(fig)
    else:
        page, chars = make_page((0, 0, P, P), specs)
    install_stable_id().reset()
    page.analyze(
        LAParams(line_overlap=float(lo), char_margin=float(cm), line_margin=float(lm), word_margin=float(wm), boxes_flow=(float(bf) if isinstance(bf, Q) else bf), detect_vertical=dv, all_texts=in_figure)
    )
    if in_figure:
        if any(isinstance(o, LTChar) for o in fig):
            raise FigureNotAnalysed("the figure still holds bare glyphs after analysis with all_texts=True")
        page = fig
    ids = {id(c): i for i, c in enumerate(chars)}
    boxes = []
    loose = []
    pos = {}

    def line_of(ln):
        return (
            "V" if isinstance(ln, LTTextLineVertical) else "H",
            tuple(ids[id(o)] for o in ln if isinstance(o, LTChar)),
            ln.get_text(),
        )

    for o in page:
        if isinstance(o, LTTextBox):
            pos[id(o)] = len(boxes)
            boxes.append(("V" if isinstance(o, LTTextBoxVertical) else "H", tuple(line_of(ln) for ln in o)))
        elif isinstance(o, LTTextLine):
            loose.append(line_of(o))

    def shape(g):
        if isinstance(g, LTTextGroup):
            return tuple(shape(m) for m in g)
        return pos.get(id(g), -1)

    groups = tuple(shape(g) for g in (page.groups or []))
    return (tuple(boxes), tuple(loose), groups)


def expected(case):
    orient = case["orient"]
    lo, cm, lm, wm, bf, dv = case["params"]
    rd = [M.to_reading((x0, y0, x0 + w, y0 + h), orient) for _, x0, y0, w, h in case["glyphs"]]
    texts = [g[0] for g in case["glyphs"]]
    lines = M.group_lines(rd, texts, lo, cm, wm)
    boxes = M.group_boxes(lines, lm)
    cross = False
    if dv:
        other = "H" if orient == "V" else "V"
        ro = [M.to_reading((x0, y0, x0 + w, y0 + h), other) for _, x0, y0, w, h in case["glyphs"]]
        cross = any(M.chars_joined(ro[i], ro[i + 1], lo, cm) for i in range(len(ro) - 1))
    return rd, lines, boxes, cross


def judge(case):
    """-> (problems [(sig, expected, observed)], outcome, nontrivial, not_judged list)"""
    problems = []
    notj = []
    rd, lines, boxes, cross = expected(case)
    nontrivial = any(len(l[0]) > 1 for l in lines) or any(len(b) > 1 for b in boxes) or (case["family"] == "columns" and len(boxes) > 1) or bool(case.get("group_tree")) or bool(case.get("bottom_left_order")) or bool(case.get("expect_first")) or case["family"] == "overprint"
    try:
        base = run_impl(case, 0)
    except FigureNotAnalysed as e:
        return [("C09/figure-on-glyphless-page-not-analysed:all_texts=True", "glyphs of the figure grouped like page content", str(e))], ("figure-bare",), nontrivial, notj
    except Exception as e:  # noqa
        tb = traceback.extract_tb(e.__traceback__)
        return [(f"C09/exception:{type(e).__name__}@{tb[-1].name}", "analysis returns", f"{type(e).__name__}: {e}")], ("exc",), nontrivial, notj
    if cross:
        notj.append("consecutive glyphs also aligned in the other writing direction under detect_vertical")
        problems += lines_only_if(case, base)
        if not problems:
            problems += mirror_check(case, base)
    else:
        problems += compare(case, rd, lines, boxes, base, notj)
        if case.get("group_tree") and not problems:
            problems += group_tree_check(case, lines, base, notj)
    for k in case["scales"]:
        try:
            sk = run_impl(case, k)
        except Exception as e:  # noqa
            tb = traceback.extract_tb(e.__traceback__)
            problems.append((f"C09/exception:{type(e).__name__}@{tb[-1].name}", "analysis returns", f"scale 2^{k}: {type(e).__name__}: {e}"))
            continue
        if sk != base:
            problems.append(("C09/scale-dependent-outcome", base, {"k": k, "outcome": sk}))
            break
    return problems, base, nontrivial, notj


def lines_only_if(case, obs):
    """the half of 'joined exactly when' that is determined even when a pair is aligned in both writing directions:
    a line of one direction holds only glyphs that are consecutive in the content and pairwise joined by THAT
    direction's documented predicate"""
    lo, cm, lm, wm, bf, dv = case["params"]
    rdd = {o: [M.to_reading((x0, y0, x0 + w, y0 + h), o) for _, x0, y0, w, h in case["glyphs"]] for o in "HV"}
    obs_boxes, loose, _ = obs
    for ln in [ln for b in obs_boxes for ln in b[1]] + list(loose):
        d, idx = ln[0], ln[1]
        for i, j in zip(idx, idx[1:]):
            if j != i + 1:
                return [("C09/char-join:line-of-non-consecutive-glyphs", "consecutive glyphs", ln)]
            if not M.chars_joined(rdd[d][i], rdd[d][j], lo, cm):
                return [(f"C09/char-join:joined-without-alignment:{'horizontal' if d == 'H' else 'vertical'}-line",
                         f"glyphs {i},{j} not in one {d} line", ln)]
    return []


def mirror_check(case, obs):
    """detect_vertical is documented to 'apply all the grouping steps as if the pdf was rotated': the arrangement mirrored
    into the other writing direction must be grouped into the same lines, with the direction of every line of >= 2 glyphs
    exchanged.  Used where a pair is aligned in both directions and the predicates alone do not determine the outcome."""
    orient = case["orient"]
    other = "V" if orient == "H" else "H"
    boxes = []
    for t, x0, y0, w, h in case["glyphs"]:
        rd = M.to_reading((x0, y0, x0 + w, y0 + h), orient)
        a0, b0, a1, b1 = M.from_reading(rd, other)
        boxes.append((t, a0, b0, a1 - a0, b1 - b0))
    mx = min(b[1] for b in boxes)
    my = min(b[2] for b in boxes)
    boxes = [(t, x0 - mx + 16, y0 - my + 16, w, h) for t, x0, y0, w, h in boxes]
    ext = max(max(b[1] + b[3] for b in boxes), max(b[2] + b[4] for b in boxes)) + 16
    P = 64
    while P < ext:
        P *= 2
    m = dict(case, orient=other, glyphs=boxes, page=P)

    def lines_of(o):
        return sorted((ln[1], ln[0] if len(ln[1]) > 1 else "-") for ln in [l for b in o[0] for l in b[1]] + list(o[1]))

    try:
        mo = run_impl(m, 0)
    except Exception as e:  # noqa
        return [(f"C09/exception:{type(e).__name__}@mirrored-arrangement", "analysis returns", str(e)[:100])]
    want = [(idx, {"H": "V", "V": "H", "-": "-"}[d]) for idx, d in lines_of(obs)]
    got = lines_of(mo)
    if got != want:
        return [("C09/char-join:not-mirror-symmetric-under-detect_vertical", want, got)]
    return []


def group_tree_check(case, lines, obs, notj):
    """three one-glyph boxes: the pair the documentation calls closest is merged first"""
    if len(lines) != 3:
        return []
    bb = [l[2] for l in lines]                       # line boxes = glyph boxes, in content order
    pair, why = M.first_merge_of_three(bb)
    if pair is None:
        notj.append("group tree: " + why)
        return []
    obs_boxes, _, groups = obs
    leaf = {k: b[1][0][1][0] for k, b in enumerate(obs_boxes)}   # box position -> glyph index
    if len(groups) != 1 or len(groups[0]) != 2:
        return [("C09/group-tree:not-a-single-binary-root", "one root of two members", groups)]
    inner = [m for m in groups[0] if isinstance(m, tuple)]
    if len(inner) != 1 or len(inner[0]) != 2 or any(isinstance(m, tuple) for m in inner[0]):
        return [("C09/group-tree:not-a-single-binary-root", "one root of two members", groups)]
    got = tuple(sorted(leaf[m] for m in inner[0]))
    if got != tuple(sorted(lines[k][0][0] for k in pair)):
        d = {pq: M.box_distance(bb[pq[0]], bb[pq[1]]) for pq in ((0, 1), (0, 2), (1, 2))}
        neg = sum(1 for v in d.values() if v <= 0)
        cause = "several-pairs-overlap" if neg >= 2 else "off-overlap"
        return [(f"C09/group-tree:closest-pair-not-merged-first:{cause}", {"first": pair, "distances": {str(k): v for k, v in d.items()}}, {"first": got})]
    return []


def _decisive_term(x, y, lm, direct):
    """first documented quantity that sits exactly on its tolerance and whose strict/non-strict reading decides
    whether the two lines are neighbours (from either line's point of view); None if no such quantity"""
    order = ["close", "same", "start", "end", "centre", "along"]
    names = {"close": "gap==d", "same": "height-difference==d", "start": "start-offset==d", "end": "end-offset==d",
             "centre": "centre-offset==d", "along": "extents-touch"}
    for a, b in ((x, y), (y, x)):
        t = M.neighbour_terms(a, b, lm)
        d = t["d"]
        on = {
            "close": t["gap"] == d,
            "same": abs((b[3] - b[1]) - (a[3] - a[1])) == d,
            "start": abs(b[0] - a[0]) == d,
            "end": abs(b[2] - a[2]) == d,
            "centre": abs((b[0] + b[2]) / 2 - (a[0] + a[2]) / 2) == d,
            "along": b[2] == a[0] or a[2] == b[0],
        }
        other = M.neighbour(b, a, lm)
        for k in order:
            if not on[k]:
                continue
            u = dict(t)
            u[k] = not u[k]
            flipped = u["along"] and u["close"] and u["same"] and (u["start"] or u["end"] or u["centre"])
            if (flipped or other) != direct:
                return names[k]
    return None


def compare(case, rd, lines, boxes, obs, notj):
    problems = []
    orient = case["orient"]
    lo, cm, lm, wm, bf, dv = case["params"]
    obs_boxes, loose, _ = obs
    obs_lines = [ln for b in obs_boxes for ln in b[1]] + list(loose)
    n = len(rd)
    # ---- 1. line partition
    exp_part = sorted(l[0] for l in lines)
    obs_part = sorted(ln[1] for ln in obs_lines)
    if exp_part != obs_part:
        el = {i: l[0] for l in lines for i in l[0]}
        ol = {i: ln[1] for ln in obs_lines for i in ln[1]}
        for i in range(n - 1):
            ej = el[i] == el[i + 1]
            oj = ol.get(i) is not None and ol.get(i) == ol.get(i + 1)
            if ej != oj:
                hits = M.threshold_hits_chars(rd[i], rd[i + 1], lo, cm)
                cause = "+".join(hits) if hits else "off-threshold"
                problems.append(
                    (
                        f"C09/char-join:{'joined' if ej else 'separate'}-expected:{cause}",
                        {"lines": exp_part},
                        {"lines": obs_part, "pair": (i, i + 1)},
                    )
                )
                break
        else:
            problems.append(("C09/char-join:partition-differs", {"lines": exp_part}, {"lines": obs_part}))
        return problems
    # ---- 2. writing direction of each line
    for ln in obs_lines:
        want = "V" if (orient == "V" and len(ln[1]) > 1) else "H"
        if ln[0] != want:
            problems.append(("C09/line-direction", want, ln))
            return problems
    # ---- 3. inserted spaces
    if case["judge_space"]:
        et = {l[0]: l[1] for l in lines}
        for ln in obs_lines:
            if et[ln[1]] != ln[2]:
                idx = ln[1]
                cause = "off-threshold"
                for p, q in zip(idx, idx[1:]):
                    gap = rd[q][0] - rd[p][2]
                    if gap == Q(wm) * max(rd[q][2] - rd[q][0], rd[q][3] - rd[q][1]):
                        cause = "gap==word_margin*max(w,h)"
                if wm == 0:
                    cause = "word_margin=0"
                kind = "missing" if len(ln[2]) < len(et[ln[1]]) else "spurious"
                problems.append((f"C09/space-{kind}:{cause}", et[ln[1]], ln[2]))
                return problems
    else:
        notj.append("space insertion for a right-to-left glyph pair")
    # ---- 4. box partition
    single_v = orient == "V" and any(len(l[0]) == 1 for l in lines)
    if single_v:
        notj.append("box relation of single-glyph lines in vertical writing")
        return problems
    exp_boxes = sorted(sorted(lines[i][0] for i in b) for b in boxes)
    obs_bx = sorted(sorted(ln[1] for ln in b[1]) for b in obs_boxes)
    if loose:
        problems.append(("C09/line-outside-box", "every line in a box", list(loose)))
        return problems
    if exp_boxes != obs_bx:
        eb = {}
        for bi, b in enumerate(boxes):
            for i in b:
                eb[lines[i][0]] = bi
        ob = {}
        for bi, b in enumerate(obs_boxes):
            for ln in b[1]:
                ob[ln[1]] = bi
        cause = "off-threshold"
        found = None
        for i in range(len(lines)):
            for j in range(i + 1, len(lines)):
                a, b = lines[i][0], lines[j][0]
                if (eb[a] == eb[b]) != (ob[a] == ob[b]):
                    found = (a, b, eb[a] == eb[b])
                    direct = M.neighbour(lines[i][2], lines[j][2], lm) or M.neighbour(lines[j][2], lines[i][2], lm)
                    hit = _decisive_term(lines[i][2], lines[j][2], lm, direct)
                    if hit:
                        cause = hit
                    elif found[2] and not direct:
                        cause = "transitive"
                    break
            if found:
                break
        problems.append(
            (
                f"C09/box-join:{'joined' if (found and found[2]) else 'separate'}-expected:{cause}",
                {"boxes": exp_boxes},
                {"boxes": obs_bx, "lines": found[:2] if found else None},
            )
        )
        return problems
    # ---- 5b. two boxes on the anti-diagonal: which one comes first is decided by the sign of boxes_flow
    if case.get("expect_first"):
        first = tuple(sorted(case["glyphs"][i][0] for ln in obs_boxes[0][1] for i in ln[1])) if obs_boxes else ()
        if first != tuple(case["expect_first"]):
            vert = any(b[0] == "V" for b in obs_boxes)
            problems.append((f"C09/box-order:boxes_flow-weighting:{'vertical' if vert else 'horizontal'}-boxes", tuple(case["expect_first"]), first))
        return problems
    # ---- 5a. boxes_flow=None: documented order = position of the bottom-left corner (bottom edge from the top of the
    # page downwards, equal bottoms left to right)
    if case.get("bottom_left_order"):
        exp_order = []
        for b in boxes:
            y0 = min(lines[i][2][1] for i in b)
            x0 = min(lines[i][2][0] for i in b)
            exp_order.append(((-y0, x0), tuple(sorted(g for i in b for g in lines[i][0]))))
        want = [t for _, t in sorted(exp_order)]
        got = [tuple(sorted(i for ln in b[1] for i in ln[1])) for b in obs_boxes]
        if got != want:
            problems.append(("C09/box-order:boxes_flow=None-not-by-bottom-left-corner", want, got))
        return problems
    # ---- 5. order of boxes on a column grid
    if "column_major" in case:
        tidx = {}
        for i, g in enumerate(case["glyphs"]):
            tidx[g[0]] = i
        # expected: cells in column-major order, each cell = set of glyph texts
        got = [tuple(sorted(case["glyphs"][i][0] for ln in b[1] for i in ln[1])) for b in obs_boxes]
        want = [tuple(c) for c in case["column_major"]]
        mode = case.get("order_mode", "column-major")
        colof = dict(zip(want, case.get("cell_cols", [0] * len(want))))
        if sorted(got) != sorted(want):
            problems.append(("C09/box-order:cells-differ", want, got))
        else:
            cols = [colof[g] for g in got]
            columns_ok = all(a <= b for a, b in zip(cols, cols[1:]))
            within_ok = all([g for g in got if colof[g] == k] == [w for w in want if colof[w] == k] for k in set(cols))
            if mode in ("column-major", "columns-only") and len(set(cols)) > 1 and not columns_ok:
                problems.append(("C09/box-order:left-column-first", want, got))
            elif mode in ("column-major", "within-column") and not within_ok:
                problems.append(("C09/box-order:top-to-bottom", want, got))
    return problems


# ------------------------------------------------------------------ runner interface
def shards(tier):
    out = []
    for name, (gen, ar, orients) in FAMILIES.items():
        for o in orients:
            for pre in itertools.product(*[range(a) for a in ar(tier)]):
                out.append((name, o, pre))
    return out


def run_shard(shard, tier, st):
    name, orient, pre = shard
    gen = FAMILIES[name][0]

    def program(x):
        return gen(Pre(x, pre), tier)

    ex = ChoiceExplorer(program, mode="full")
    first = True
    for g, x in ex.run():
        case = materialise(g, orient)
        problems, outcome, nontrivial, notj = judge(case)
        st.case(None, nontrivial=nontrivial, outcome=outcome)
        st.add("analyses", 1 + len(case["scales"]))
        for w in notj:
            st.not_judged[w] += 1
        seen = set()
        for sig, exp, obs in problems:
            if sig in seen:
                continue
            seen.add(sig)
            st.violation(sig, case, exp, obs, sig.split("/", 1)[1])
        if first and pre and pre[-1] == 0:
            st.sample(case)
        first = False
    st.states += ex.states
    st.transitions += ex.transitions
    st.traces += ex.traces
    st.add("aborted_choice_vectors", ex.aborted)


def replay(case):
    case = dict(case)
    case["glyphs"] = [tuple(g) for g in case["glyphs"]]
    case["params"] = tuple(case["params"])
    case["scales"] = tuple(case["scales"])
    if "column_major" in case:
        case["column_major"] = [tuple(c) for c in case["column_major"]]
    problems, _, _, _ = judge(case)
    out = []
    seen = set()
    for sig, exp, obs in problems:
        if sig in seen:
            continue
        seen.add(sig)
        out.append({"signature": sig, "expected": repr(exp), "observed": repr(obs)})
    return out
