"""C14 -- tokenizer total, progressing, buffer-size independent on all bytes.

Shape A over strings: all strings up to a length bound over an alphabet with
one representative per lexical byte class, each tokenised with every BUFSIZ
1..len+1 and the default; refill loop made visible through a counting
``fillbuf``.
"""
from __future__ import annotations

import io
import itertools

from pdfminer.psparser import PSBaseParser, PSEOF, PSKeyword, PSLiteral

ID = "C14"
LEVEL = "model_checking"

# one representative per lexical class the scanners distinguish
SIGMA = [
    b" ", b"\n", b"\r", b"\x00", b"%", b"/", b"#", b"(", b")", b"\\", b"<", b">",
    b"[", b"]", b"{", b"}", b"+", b"-", b".", b"1", b"8", b"a", b"n", b"z", b"\x80", b"true",
    b"\x0b",  # VT: white space for Python's \s but not for PDF (added after seeded defect C14_4 was missed)
]
# symbols that open, close or steer a multi-byte scanner state
SIGMA12 = [b"(", b")", b"\\", b"<", b">", b"/", b"#", b"%", b"\r", b"\n", b"1", b"a", b"7"]
# extra classes added after reading the scanners again: TAB/FF (\s but not NUL), 7 (octal), e (float-ish), \x0b
SIGMA_X = [b"\t", b"\x0c", b"7", b"e", b"R", b"\xff", b"0", b"9", b"f", b"b"]

BOUNDS = {
    "quick": {"sigma_len": 4, "sigma12_len": 5, "sigx_len": 3, "seek_len": 3},
    "thorough": {"sigma_len": 5, "sigma12_len": 6, "sigx_len": 4, "seek_len": 4},
}

META = {
    "rule": (
        "every string over the 27-symbol class alphabet up to sigma_len, over the 13 state-steering symbols up to "
        "sigma12_len, and over the 36-symbol extended alphabet up to sigx_len; each tokenised with BUFSIZ = 1..len+1 "
        "and 4096; additionally every string over the 27-symbol alphabet up to seek_len is tokenised after seek(k) for every k "
        "(all buffer sizes again), and once more by ONE parser object that ran to end of input and was rewound with seek(0); "
        "one token of 4095..9000 bytes of every lexical class (70000 bytes for strings, hex strings, names and comments) (beyond the default buffer and CPython's 4300-digit int limit), and strings holding 1200 and 3200 nested / flat balanced parenthesis pairs (beyond the recursion limit); "
        "octal: literal strings with a backslash followed by 1..5 digits over {0,1,3,7,8} (alone, after another escape, before a line continuation), every BUFSIZ 1..len+1: an escape takes at most three digits wherever a buffer ends; "
        "the token objects of every two runs are also compared with the library's own == (names and keywords are interned "
        "objects), also after 70000 distinct names were tokenised in the process; every string over the 27-symbol alphabet up to seek_len "
        "(and over the 13 steering symbols up to sigma12_len-1) once more with settings.STRICT=True (nothing but end of input may be signalled in either mode), and once more with the parser's "
        "read-only helpers tell(), poll() and poll(1,3) called between every two tokens (the sequence must equal the run without them, for every buffer size); every string over the 13 steering symbols up to sigma12_len-2 with DEBUG logging enabled for the library's loggers; "
        "call histories on one parser object: every sequence of up to 3 (thorough: 4) calls from {nexttoken, nextline, one step of revreadlines(), the underlying file moved by someone else} on 3 structured inputs, "
        "then seek(k) for every k, with BUFSIZ in {1,2,3,7,4096}: the tokens that follow must be those of a fresh parser after seek(k). A case is one string (distinct by construction within a family); non-trivial = the reference run "
        "yields at least one token. states = strings (nodes of the string tree), transitions = (string, BUFSIZ) runs, "
        "traces = strings whose every run was compared with the single-buffer reference."
    ),
    "bound": {k: str(v) for k, v in BOUNDS.items()},
    "assumptions": [
        "bytes outside the class alphabet behave like their class representative (classes read off the scanner regexes and branches)",
        "strings longer than the bound are not explored",
        "termination is judged by counted budgets, not by time: 8*len+64 fillbuf calls, and 100*len+2000 PY_START+JUMP events inside pdfminer.psparser (sys.monitoring local events)",
    ],
}


class Livelock(Exception):
    pass


class AbortShard(Exception):
    """a livelock was found: every further case of the shard would burn its whole budget, so the shard stops
    (the violation is already recorded; the run is then reported as not exhaustive)"""


class Spin(BaseException):
    """raised from the monitoring callback: too many loop iterations / calls inside the tokenizer
    without returning (a loop that never calls fillbuf is invisible to the refill budget)"""


_MON = {"on": False, "count": 0, "budget": 1 << 60}
_TID = 4


def _mon_cb2(code, off):
    _MON["count"] += 1
    if _MON["count"] > _MON["budget"]:
        _MON["count"] = 0
        raise Spin()


def _mon_cb3(code, off, dst):
    _MON["count"] += 1
    if _MON["count"] > _MON["budget"]:
        _MON["count"] = 0
        raise Spin()


def _mon_init():
    """count PY_START and JUMP events in every function of pdfminer.psparser (local events only)"""
    if _MON["on"]:
        return
    import sys
    import types

    import pdfminer.psparser as M

    m = sys.monitoring
    if m.get_tool(_TID) is None:
        m.use_tool_id(_TID, "c14")
    m.register_callback(_TID, m.events.PY_START, _mon_cb2)
    m.register_callback(_TID, m.events.JUMP, _mon_cb3)

    def codes(obj, seen):
        if isinstance(obj, types.FunctionType):
            obj = obj.__code__
        if isinstance(obj, types.CodeType) and obj not in seen:
            seen.add(obj)
            for c in obj.co_consts:
                codes(c, seen)

    seen = set()
    for v in vars(M).values():
        if isinstance(v, type) and v.__module__ == M.__name__:
            for a in vars(v).values():
                codes(getattr(a, "__func__", a), seen)
        elif isinstance(v, types.FunctionType) and v.__module__ == M.__name__:
            codes(v, seen)
    for c in seen:
        m.set_local_events(_TID, c, m.events.PY_START | m.events.JUMP)
    _MON["on"] = True


class CountingParser(PSBaseParser):
    nfill = 0
    budget = 0

    def fillbuf(self) -> None:
        self.nfill += 1
        if self.nfill > self.budget:
            raise Livelock(f"more than {self.budget} refill-loop iterations")
        return PSBaseParser.fillbuf(self)


LAST_RAW: list = []


def canon_tok(t):
    if isinstance(t, PSLiteral):
        return ("L", t.name)
    if isinstance(t, PSKeyword):
        return ("K", t.name)
    if isinstance(t, float):
        return ("f", repr(t))
    return (type(t).__name__, t)


# configuration / call-history dimensions switched on by the 'strict' and 'poll' families
MODE = {"strict": False, "poll": False}


def tokenize(data: bytes, bufsiz: int, seek: int = 0):
    """Return (tokens, problems). problems is a list of (kind, detail)."""
    from pdfminer import settings

    old = settings.STRICT
    settings.STRICT = MODE["strict"]
    try:
        return _tokenize(data, bufsiz, seek)
    finally:
        settings.STRICT = old


def _tokenize(data: bytes, bufsiz: int, seek: int = 0):
    _mon_init()
    p = CountingParser(io.BytesIO(data))
    p.BUFSIZ = bufsiz
    p.nfill = 0
    p.budget = 8 * len(data) + 64
    if seek:
        p.seek(seek)
    toks = []
    problems = []
    del LAST_RAW[:]
    raw = LAST_RAW  # the token objects themselves, compared with the library's own ==
    _MON["count"] = 0
    _MON["budget"] = 100 * len(data) + 2000
    try:
        while True:
            pos, t = p.nexttoken()
            toks.append((pos, canon_tok(t)))
            raw.append(t)
            if MODE["poll"]:
                # the parser's read-only helpers between two tokens must not disturb the scan
                p.tell()
                p.poll()
                p.poll(1, 3)
            if len(toks) > len(data) + 2:
                problems.append(("more-tokens-than-bytes", len(toks)))
                break
    except PSEOF:
        # (4) end of input is sticky
        for _ in range(2):
            try:
                pos, t = p.nexttoken()
                problems.append(("token-after-eof", (pos, canon_tok(t))))
            except PSEOF:
                pass
            except (Livelock, Spin) as e:
                problems.append(("livelock-after-eof", str(e)))
                break
            except Exception as e:  # noqa
                problems.append(("exception-after-eof", f"{type(e).__name__}: {e}"))
                break
    except Livelock as e:
        problems.append(("livelock", str(e)))
    except Spin:
        problems.append(("livelock", "more than 100*len+2000 calls/loop iterations inside the tokenizer"))
    except Exception as e:  # noqa
        import traceback

        tb = traceback.extract_tb(e.__traceback__)
        problems.append(("exception", f"{type(e).__name__}@{tb[-1].name}"))
    _MON["budget"] = 1 << 60
    last = -1
    for pos, _ in toks:
        if not (0 <= pos < max(len(data), 1)) or pos < last:
            problems.append(("position", [q for q, _ in toks]))
            break
        last = pos
    return toks, problems


def _abort_if_livelock(problems) -> None:
    if any(kind.startswith("livelock") for kind, _ in problems):
        raise AbortShard()


def check_string(data: bytes, st, fam: str) -> None:
    polling, MODE["poll"] = MODE["poll"], False
    try:
        ref, prob = tokenize(data, 4096)  # the reference run never uses the helpers
    finally:
        MODE["poll"] = polling
    ref_raw = list(LAST_RAW)
    st.states += 1
    st.transitions += 1
    st.case(None, nontrivial=bool(ref), outcome=tuple(t[1][0] for t in ref))
    case = {"data": data, **{k: True for k, v in MODE.items() if v}}
    for kind, detail in prob:
        st.violation(f"C14/{kind}:{detail if kind=='exception' else ''}", {**case, "bufsiz": 4096}, "only PSEOF; positions in range", detail, kind)
    _abort_if_livelock(prob)
    for b in list(range(1, len(data) + 2)) + ([4096] if MODE["poll"] else []):
        toks, prob2 = tokenize(data, b)
        st.transitions += 1
        for kind, detail in prob2:
            st.violation(f"C14/{kind}:{detail if kind=='exception' else ''}", {**case, "bufsiz": b}, "only PSEOF; positions in range", detail, kind)
        _abort_if_livelock(prob2)
        if toks != ref and not prob2 and not prob:
            st.violation("C14/buffer-dependent", {**case, "bufsiz": b}, ref, toks, "token sequence differs from single-buffer run")
        elif not prob2 and not prob and list(LAST_RAW) != ref_raw:
            # same names and values, but the library's own == says the token objects differ
            st.violation("C14/tokens-unequal-under-library-equality", {**case, "bufsiz": b}, repr(ref_raw)[:200], repr(list(LAST_RAW))[:200],
                         "token objects of two runs are not equal under the library's own ==")
    st.traces += 1


def check_seek(data: bytes, st) -> None:
    """after seek(k) the token sequence (with absolute positions) is the same for every buffer size,
    positions are >= k, and only PSEOF escapes"""
    for k in range(1, len(data) + 1):
        ref, prob = tokenize(data, 4096, seek=k)
        st.states += 1
        st.transitions += 1
        st.case(None, nontrivial=bool(ref), outcome=("seek", tuple(t[1][0] for t in ref)))
        case = {"data": data, "seek": k}
        for kind, detail in prob:
            st.violation(f"C14/{kind}:{detail if kind=='exception' else ''}", {**case, "bufsiz": 4096}, "only PSEOF; positions in range", detail, kind)
        if any(pos < k for pos, _ in ref):
            st.violation("C14/position-before-seek", {**case, "bufsiz": 4096}, f">= {k}", [q for q, _ in ref], "token position before the seek offset")
        for b in range(1, len(data) + 2):
            toks, prob2 = tokenize(data, b, seek=k)
            st.transitions += 1
            for kind, detail in prob2:
                st.violation(f"C14/{kind}:{detail if kind=='exception' else ''}", {**case, "bufsiz": b}, "only PSEOF; positions in range", detail, kind)
            if toks != ref and not prob2 and not prob:
                st.violation("C14/buffer-dependent-after-seek", {**case, "bufsiz": b}, ref, toks, "token sequence after seek differs from single-buffer run")
        st.traces += 1


def check_reuse(data: bytes, st) -> None:
    """a parser that ran to end of input and is then rewound with seek(0) tokenises like a fresh one"""
    ref, prob = tokenize(data, 4096)
    if prob:
        return
    for b in (4096, 1, 3):
        p = CountingParser(io.BytesIO(data))
        p.BUFSIZ = b
        p.nfill = 0
        p.budget = 16 * len(data) + 128
        got = []
        err = None
        _MON["count"] = 0
        _MON["budget"] = 200 * len(data) + 4000
        try:
            for _round in range(2):
                got = []
                p.seek(0)
                try:
                    while True:
                        pos, t = p.nexttoken()
                        got.append((pos, canon_tok(t)))
                except PSEOF:
                    pass
        except (Livelock, Spin):
            err = "livelock"
        except Exception as e:  # noqa
            err = type(e).__name__
        _MON["budget"] = 1 << 60
        st.states += 1
        st.transitions += 1
        st.traces += 1
        st.case(None, nontrivial=bool(ref), outcome=("reuse", len(ref)))
        if err or got != ref:
            st.violation("C14/reused-parser-after-eof-and-seek", {"data": data, "bufsiz": b, "reuse": True}, ref, err or got,
                         "second pass of one parser object after seek(0) differs from a fresh parser")


LONG_UNITS = [b"7", b"a", b"/N", b"(s", b"<4", b"%c", b"+", b"1.", b" ", b"\\"]
LONG_LENGTHS = [4095, 4096, 4097, 4400, 9000]
OCT_DIGITS = [b"0", b"1", b"3", b"7", b"8"]


# ---- call histories on one parser object (added after seeded defect C14_15 was missed)
HIST_INPUTS = [
    b"12 /Na (s t) % c\n<AB> [ true ] 3.5 R",
    b"a b\r\nc d\re f\n/G#41 (x\\\ny) <4 1>",
    b"%%EOF\r\n1 0 obj\n<< /K 2 >>\nendobj\n",
]
HIST_OPS = ["T", "L", "R", "X"]  # nexttoken, nextline, one step of revreadlines(), the file moved behind the parser's back
HIST_BUFS = [1, 2, 3, 7, 4096]


def _hist_apply(p, fp, op):
    try:
        if op == "T":
            p.nexttoken()
        elif op == "L":
            p.nextline()
        elif op == "R":
            next(p.revreadlines(), None)
        else:
            fp.seek(0, 2)
            fp.read(1)
    except PSEOF:
        pass


def _drain(p):
    out = []
    try:
        while True:
            pos, t = p.nexttoken()
            out.append((pos, canon_tok(t)))
            if len(out) > 200:
                break
    except PSEOF:
        pass
    return out


def check_history(data: bytes, hist, st) -> None:
    """after ANY history of calls on one parser object, seek(k) puts it into the state of a fresh parser after seek(k):
    the tokens that follow are the same, for every buffer size"""
    for k in range(0, len(data) + 1):
        ref, prob = tokenize(data, 4096, seek=k) if k else tokenize(data, 4096)
        if prob:
            continue
        for b in HIST_BUFS:
            st.states += 1
            st.transitions += len(hist) + 1
            st.traces += 1
            case = {"data": data, "history": list(hist), "seek": k, "bufsiz": b, "hist": True}
            _MON["count"] = 0
            _MON["budget"] = 400 * len(data) + 20000
            try:
                fp = io.BytesIO(data)
                p = CountingParser(fp)
                p.BUFSIZ = b
                p.nfill = 0
                p.budget = 64 * len(data) + 512
                for op in hist:
                    _hist_apply(p, fp, op)
                p.seek(k)
                got = _drain(p)
            except (Livelock, Spin):
                got = "livelock"
            except Exception as e:  # noqa
                got = f"{type(e).__name__}"
            _MON["budget"] = 1 << 60
            st.case(None, nontrivial=bool(ref), outcome=("hist", len(got) if isinstance(got, list) else got))
            if got != ref:
                st.violation("C14/history:seek-does-not-restore-fresh-state" if isinstance(got, list) else f"C14/history:{got}", case, ref, got,
                             "tokens after history + seek(k) differ from a fresh parser after seek(k)")
            if got == "livelock":
                raise AbortShard()


def long_tokens():
    """one very long token of each lexical class (longer than the default buffer and than CPython's
    4300-digit int limit), between two short tokens"""
    for u in LONG_UNITS:
        # one token beyond 65535 bytes for the string, name and comment scanners (added after seeded defect C14_21, a 65535-byte cap, was missed)
        for n in LONG_LENGTHS + ([70000] if u in (b"(s", b"/N", b"%c", b"<4") else []):
            head, fill = u[:-1], u[-1:]
            body = head + fill * n
            close = {b"(": b")", b"<": b">", b"%": b"\n"}.get(head[:1] if head else fill, b"")
            yield b"x " + body + close + b" y"
    # balanced parentheses nested deeper than CPython's recursion limit, and the same number of flat pairs, in one string
    for n in (1200, 3200):
        yield b"x (" + b"(" * n + b"s" + b")" * n + b") y"
        yield b"x (" + b"()" * n + b") y"


def shards(tier):
    out = [("sigma", "short")]
    out += [("sigma", i) for i in range(len(SIGMA))]
    out += [("s12", "short")]
    out += [("s12", i) for i in range(len(SIGMA12))]
    full = SIGMA + SIGMA_X
    out += [("sx", "short")] + [("sx", i) for i in range(len(full))]
    out += [("seek", i) for i in range(len(SIGMA))]
    out += [("reuse", i) for i in range(len(SIGMA))]
    out += [("strict", i) for i in range(len(SIGMA))] + [("strict12", i) for i in range(len(SIGMA12))]
    out += [("poll", i) for i in range(len(SIGMA))]
    out += [("hist", i, o) for i in range(len(HIST_INPUTS)) for o in HIST_OPS]
    out += [("debuglog", i) for i in range(len(SIGMA12))]
    out += [("long",), ("names",)]
    out += [("octal", d) for d in OCT_DIGITS]
    return out


def _strings(alpha, prefix, maxlen):
    """all strings with the given prefix symbols, total symbol count <= maxlen"""
    base = b"".join(prefix)
    for n in range(0, maxlen - len(prefix) + 1):
        for tail in itertools.product(alpha, repeat=n):
            yield base + b"".join(tail)


def run_shard(shard, tier, st):
    try:
        _run_shard(shard, tier, st)
    except AbortShard:
        st.caps.append("shard stopped after a livelock was detected")


def _run_shard(shard, tier, st):
    b = BOUNDS[tier]
    fam = shard[0]
    if fam == "hist":
        data = HIST_INPUTS[shard[1]]
        depth = 3 if tier == "quick" else 4
        for n in range(0, depth):
            for tail in itertools.product(HIST_OPS, repeat=n):
                check_history(data, (shard[2],) + tail, st)
        if shard[1:] == (0, "T"):
            st.sample({"family": "hist", "input": data, "ops": HIST_OPS, "depth": depth, "bufsizes": HIST_BUFS})
        return
    if fam == "debuglog":
        # configuration: DEBUG logging switched on for the library's loggers (added after seeded defect C14_14 was missed)
        import logging

        lg = logging.getLogger("pdfminer")
        old_level, old_prop = lg.level, lg.propagate
        h = logging.NullHandler()
        lg.addHandler(h)
        lg.setLevel(logging.DEBUG)
        lg.propagate = False
        disabled = logging.root.manager.disable
        logging.disable(logging.NOTSET)  # the runner switches logging off globally; this family switches it on
        try:
            for data in _strings(SIGMA12, [SIGMA12[shard[1]]], b["sigma12_len"] - 2):
                check_string(data, st, fam)
            if shard[1] == 0:
                st.sample({"family": "debuglog", "logger": "pdfminer", "level": "DEBUG", "last_string": data})
        finally:
            logging.disable(disabled)
            lg.setLevel(old_level)
            lg.propagate = old_prop
            lg.removeHandler(h)
        return
    if fam in ("strict", "strict12", "poll"):
        MODE["strict" if fam != "poll" else "poll"] = True
        try:
            alpha, maxlen = (SIGMA12, b["sigma12_len"] - 1) if fam == "strict12" else (SIGMA, b["seek_len"])
            for data in _strings(alpha, [alpha[shard[1]]], maxlen):
                check_string(data, st, fam)
            if shard[1] == 0:
                st.sample({"family": fam, "last_string": data, "settings.STRICT": MODE["strict"], "helpers_between_tokens": MODE["poll"]})
        finally:
            MODE["strict"] = MODE["poll"] = False
        return
    if fam == "seek":
        for data in _strings(SIGMA, [SIGMA[shard[1]]], b["seek_len"]):
            check_seek(data, st)
        return
    if fam == "reuse":
        for data in _strings(SIGMA, [SIGMA[shard[1]]], b["seek_len"]):
            check_reuse(data, st)
        return
    if fam == "octal":
        # an octal escape is at most three digits whatever follows and wherever a buffer ends: ( \\ d1..dk ) for k = 1..5
        # over the digits OCT_DIGITS, alone, after another escape, and before a line continuation; every BUFSIZ 1..len+1
        n = 0
        for k in range(0, 5):
            for tail in itertools.product(OCT_DIGITS, repeat=k):
                ds = b"".join((shard[1],) + tail)
                for data in (b"(\\" + ds + b")", b"(\\7\\" + ds + b"x)", b"(a\\" + ds + b"\\\n1)"):
                    check_string(data, st, fam)
                    n += 1
        if shard[1] == OCT_DIGITS[0]:
            st.sample({"family": "octal", "digits": OCT_DIGITS, "max_digits": 5, "last": data})
        return
    if fam == "long":
        for data in long_tokens():
            ref, prob = tokenize(data, 4096)
            st.states += 1
            st.traces += 1
            st.case(None, nontrivial=bool(ref), outcome=("long", len(ref)))
            for kind, detail in prob:
                st.violation(f"C14/{kind}:{detail if kind=='exception' else ''}", {"data": data, "bufsiz": 4096}, "only PSEOF; positions in range", detail, kind)
            for bs in (1, 7, 4095, 4097):
                toks, prob2 = tokenize(data, bs)
                st.transitions += 1
                for kind, detail in prob2:
                    st.violation(f"C14/{kind}:{detail if kind=='exception' else ''}", {"data": data, "bufsiz": bs}, "only PSEOF; positions in range", detail, kind)
                if toks != ref and not prob and not prob2:
                    st.violation("C14/buffer-dependent", {"data": data, "bufsiz": bs}, len(ref), len(toks), "long token: sequence differs from single-buffer run")
        st.sample({"family": "long", "units": LONG_UNITS, "lengths": LONG_LENGTHS})
        return
    if fam == "names":
        # 70000 distinct names and keywords in one process, then the interning contract again
        blob = b" ".join(b"/N%d k%d" % (i, i) for i in range(70000))
        ref, prob = tokenize(blob, 4096)
        st.states += 1
        st.traces += 1
        st.case(None, nontrivial=True, outcome=("names", len(ref)))
        for kind, detail in prob[:3]:
            st.violation(f"C14/{kind}:{detail if kind=='exception' else ''}", {"data": b"<70000 distinct names>", "bufsiz": 4096, "names": True}, "only PSEOF", detail, kind)
        for data in (b"/Fresh1 fresh2 /N5 k7", b"obj endobj /Type"):
            check_string(data, st, "names")
        for v in st.violations:
            v["case"]["names"] = True
        return
    if fam == "sigma":
        alpha, maxlen, plen = SIGMA, b["sigma_len"], 1
    elif fam == "s12":
        alpha, maxlen, plen = SIGMA12, b["sigma12_len"], 1
    else:
        alpha, maxlen, plen = SIGMA + SIGMA_X, b["sigx_len"], 1
    if shard[1] == "short":
        for n in range(0, plen):
            for s in itertools.product(alpha, repeat=n):
                check_string(b"".join(s), st, fam)
        st.sample({"family": fam, "string": b"".join(alpha[:plen - 1])})
        return
    prefix = [alpha[i] for i in shard[1:]]
    for data in _strings(alpha, prefix, maxlen):
        check_string(data, st, fam)
    if shard in (("sigma", 7), ("s12", 2), ("sx", 10)):
        st.sample({"family": fam, "last_string": data, "bufsizes": f"1..{len(data)+1},4096"})


def replay(case):
    from mc.core import Stats

    st = Stats()
    data = case["data"]
    if case.get("reuse") or case.get("names"):
        from mc.core import Stats

        st = Stats()
        if case.get("reuse"):
            check_reuse(data, st)
        else:
            _run_shard(("names",), "quick", st)
        return [{"signature": v["signature"], "expected": v["expected"], "observed": v["observed"]} for v in st.violations]
    if case.get("hist"):
        check_history(data, tuple(case["history"]), st)
        return [{"signature": v["signature"], "expected": repr(v["expected"]), "observed": repr(v["observed"])} for v in st.violations]
    sk = case.get("seek", 0)
    MODE["strict"] = bool(case.get("strict"))
    ref, prob = tokenize(data, 4096, seek=sk)
    MODE["poll"] = bool(case.get("poll"))
    try:
        toks, prob2 = tokenize(data, case["bufsiz"], seek=sk)
    finally:
        MODE["strict"] = MODE["poll"] = False
    out = []
    for kind, detail in prob2:
        out.append({"signature": f"C14/{kind}:{detail if kind=='exception' else ''}", "expected": "only PSEOF; positions in range", "observed": repr(detail)})
    if toks != ref and not prob2 and not prob:
        out.append({"signature": "C14/buffer-dependent-after-seek" if sk else "C14/buffer-dependent", "expected": repr(ref), "observed": repr(toks)})
    if sk and any(pos < sk for pos, _ in ref):
        out.append({"signature": "C14/position-before-seek", "expected": f">= {sk}", "observed": repr(ref)})
    return out
