"""C15 -- filesystem confinement: document-controlled names cannot steer file access.

Shape B.  Every (slot, hostile string) pair -- and, in the thorough tier, every pair of slots for the traversal
strings -- is materialised as a one-page document inside a harness-owned directory tree with decoy files planted
where a traversal would land and sentinel files where an export would collide.  ``extract_text_to_fp(output_dir=)``
runs under a ``sys.addaudithook`` recorder; the oracle judges every file-system audit event and, independently,
the before/after state of the whole tree.
"""
from __future__ import annotations

import gzip
import hashlib
import io
import os
import pickle
import re
import shutil
import sys
import tempfile
import zlib
from typing import Any, Dict, List, Optional, Tuple

from mc.pdfgen import Doc, Name, Raw, Ref, Stream, ser_name

ID = "C15"
LEVEL = "model_checking"
N = Name

ROOT_TOKEN = "@ROOT@"

# ------------------------------------------------------------ hostile strings
HOSTILE: List[Tuple[str, str]] = [
    ("dotdot", ".."),
    ("up1", "../x"),
    ("up2", "../../x"),
    ("abs", ROOT_TOKEN + "/abs/x"),
    ("sub", "a/b"),
    ("backslash", "..\\x"),
    ("nul", "x\0y"),
    ("dot", "./x"),
    ("empty", ""),
    ("long", "A" * 300),
    ("pct", "%2e%2e/x"),
    ("hash2F", "..#2Fx"),  # the five characters '..#2Fx' (spelled ..#232Fx in the file): no separator after name decoding
    ("existing", "exists"),
    ("suffix", "../x.pickle.gz"),
    ("nul-up", "..\0/x"),  # NUL removal must not create a traversal
    ("abs-up", ROOT_TOKEN + "/a/b/cmap/../../../abs/x"),
    ("sibling-cmap", "../cmapX/x"),  # sibling directory whose name merely starts like the resource directory
    ("sibling-out", "../outX/x"),
    ("nested", "....//x"),  # becomes ../x if '../' is deleted once
    ("sibling-case", "../CMAP/evil"),  # sibling of the resource directory (.../cmap) whose name differs only in letter case
    ("sibling-case-out", "../OUT/evil"),
]
TRAVERSAL = ["up1", "up2", "abs", "suffix"]

# ---- compatibility characters: every code point whose NFC/NFD/NFKC/NFKD/casefold/lower/upper form contains '/', '\\',
# '.' or NUL (enumerated with unicodedata over all planes; 38 with Unicode 15), placed in dot-dot and absolute arrangements
ROOT_FW_TOKEN = "@ROOTFW@"  # the harness root with every '/' written as FULLWIDTH SOLIDUS


def _compat_chars():
    import unicodedata as U

    forms = [lambda c: U.normalize("NFC", c), lambda c: U.normalize("NFD", c), lambda c: U.normalize("NFKC", c), lambda c: U.normalize("NFKD", c),
             str.casefold, str.lower, str.upper]
    out = []
    for cp in range(0x80, 0x110000):
        if 0xD800 <= cp <= 0xDFFF:
            continue
        c = chr(cp)
        ms = {f(c) for f in forms} - {c}
        if any(x in m for m in ms for x in "/\\.\0"):
            out.append((cp, sorted(ms)))
    return out


COMPAT = _compat_chars()


def _unicode_hostile():
    out = []
    slashes = [chr(cp) for cp, ms in COMPAT if "/" in ms]
    two_dots = []
    for cp, ms in COMPAT:
        c = chr(cp)
        if "." in ms:
            two_dots.append(c + c)
        if ".." in ms:
            two_dots.append(c)
    for cp, ms in COMPAT:
        c = chr(cp)
        out.append(("u%04X-mid" % cp, ".." + c + "x"))  # ../x if c turns into a separator
        for S in slashes:
            out.append(("u%04X-pair-%04X" % (cp, ord(S)), c + c + S + "x"))  # ../x if c turns into '.'
    for S in slashes:
        for i, dd in enumerate(two_dots):
            out.append(("u-dd%d-%04X" % (i, ord(S)), dd + S + dd + S + "x"))  # ../../x
        out.append(("u-asciidots2-%04X" % ord(S), ".." + S + ".." + S + "x"))
        out.append(("u-abs-%04X" % ord(S), ROOT_FW_TOKEN.replace("FW", "FW%04X" % ord(S)) + S + "abs" + S + "x"))
    seen, res = set(), []
    for k, v in out:
        if v not in seen:
            seen.add(v)
            res.append((k, v))
    return res


UNICODE_HOSTILE = _unicode_hostile()
HOSTILE_D = dict(HOSTILE + UNICODE_HOSTILE)

# ---- k same-named exports into one directory: the unique-name search must hand out k different files
# names over an alphabet with every regex / glob / printf metacharacter (one each, and in combination)
META_NAMES = ["Im0", "Im+0", "a*b", "x?y", "a|b", "Im(0)", "a.b", "[ab]", "a{2}", "a^b$", "a%sb", "a%d", "a\\b", "^a", "a$", "(", ")", "[", "]", "a{", "}",
              "*", "+", "?", ".", "%", "|", "Im0.0", "Im0.", "a b", "a~b", "a!b", "a-b", "[!a]", "\\d", "(?i)im", "a+*?", "..."]
REPEAT_KINDS = ["bmp8gray", "jpg", "raw"]
# which of NAME.ext / NAME.0.ext / NAME.1.ext are user files that already lie in the output directory
PRE_SETS = [(), ("",), ("", ".0"), ("", ".0", ".1"), (".0",), (".1",), ("", ".1"), (".0", ".1")]



SLOTS = [
    "simple-encoding",  # /Encoding /h of a Type1 font
    "type0-encoding",  # /Encoding /h of a Type0 font (predefined CMap name)
    "cmap-stream-name",  # /Encoding stream whose /CMapName is h (and whose body says /h usecmap)
    "usecmap-tounicode-type0",  # /h usecmap inside the ToUnicode CMap of a Type0 font
    "usecmap-tounicode-simple",  # /h usecmap inside the ToUnicode CMap of a simple font
    "registry",  # CIDSystemInfo /Registry (h)
    "ordering",  # CIDSystemInfo /Ordering (h)
    "basefont",  # /BaseFont /h and FontDescriptor /FontName /h
    "form-name",  # form XObject resource name h (contains an image named Im0)
    "image-name",  # image XObject resource name h
    "image-in-form",  # image named h inside a form XObject named F0
]
IMAGE_KINDS = ["bmp1", "bmp8rgb", "bmp8gray", "jpg", "raw", "jp2", "jbig2"]
IMAGE_SLOTS = ("image-name", "image-in-form", "form-name")
OTYPES = ["text", "xml", "html"]

BOUNDS = {
    "quick": "11 slots x 19 hostile strings (image slots x 7 export kinds) x output type text; + xml/html for image-name; + inline image and benign baselines; + 17 late-sentinel cases (files appearing after the ImageWriter exists); + 6 CMap slots x 5 names with CMAP_PATH unset and decoys in the working directory; + CMAP_PATH in {'', '.', relative dir} x 5 slots x 6 names; + 10 symlink-inside-resource-dir cases; + %d names built from the %d code points whose normal/case forms contain path syntax x 4 slots; + %d names over the regex/glob/printf metacharacters x 6 sets of pre-existing NAME/NAME.0/NAME.1 files x 3 same-named exports (3 pages); + image names {., .., empty, x} x {BitsPerComponent, Width, Height, ColorSpace, Filter} x 13 hostile values (names with slashes/dots, strings with path syntax, real, negative, huge, null, array) through the raw export; + ImageWriter reused for 2-3 same-shaped documents (3 names x 3 kinds x 3 pre-sets x 3 shapes); + 21 names of 200..300 bytes (ASCII and multi-byte) x 3 kinds with user files named like every plausible truncation; + output_dir '' and None with a sentinel working directory (nothing may be created); + 5 cases with NAME.ext and NAME.0..999.ext pre-existing (export must become NAME.1000.ext); + 7 output-dir spellings (incl. '.' = cwd) (through a symlink + '..', relative, './', trailing slash) x 2 names x 2 kinds x existing/fresh" % (len(UNICODE_HOSTILE), len(COMPAT), len(META_NAMES)),
    "thorough": "quick + all output types for every image case + all unordered slot pairs x 4x4 traversal strings",
}

META = {
    "rule": (
        "case = one document (slot(s), hostile string(s), image export kind, output type) processed by extract_text_to_fp(output_dir=) "
        "under an audit hook, in a fresh harness-owned tree ROOT/a/b/{cmap,out} with decoy *.pickle.gz files planted at every path a "
        "joined name normalises to inside ROOT and sentinel files named like the expected exports. Judged: every open/mkdir/rename/remove/"
        "truncate/link/symlink audit event (reads only under pdfminer/cmap or $CMAP_PATH; writes only to new files whose realpath is inside "
        "the output dir) and the tree diff (new files only inside the output dir, nothing changed or deleted). Non-trivial = at least one "
        "file-system audit event was observed and judged. states = documents, transitions = audit events judged, traces = documents whose "
        "complete event trace and tree diff were judged."
    ),
    "bound": BOUNDS,
    "assumptions": [
        "file access is observed through CPython audit events (open, os.mkdir, os.rename, os.remove, os.rmdir, os.truncate, os.link, os.symlink, os.chmod, shutil.*) plus a before/after diff of the harness tree; stat()/exists() probes raise no audit event and are not judged",
        "opens of *.py/*.pyc in read mode (lazy imports) are counted, not judged; imports are pre-warmed with a benign document",
        "decoys are planted only where the joined path normalises to a location inside the harness tree and all intermediate directories of the un-normalised path exist; nothing is planted inside the repository",
        "CMapDB's per-process caches are cleared before every case so that a name loaded earlier cannot hide a later load",
        "Pillow is not installed: export paths that need it create their file and then raise ImportError; only file effects are judged, exceptions are recorded as outcome",
        "symbolic links inside $CMAP_PATH that point out of it count as leaving the resource directory (the realpath containment of the implementation rejects them); none are planted inside the repository's own cmap directory",
        "the chosen output directory is os.path.realpath(output_dir) evaluated in the caller's working directory before anything is created",
        "Unicode names: the code points whose NFC/NFD/NFKC/NFKD/casefold/lower/upper form contains '/', '\\', '.' or NUL (enumerated at import with the interpreter's unicodedata) in '..c x', 'cc/ x', '../../x' and absolute arrangements; decoys and sentinels are planted for the normalised spellings too; other confusables (e.g. U+2215 DIVISION SLASH, which no normal form maps to '/') are not generated",
        "uniqueness: k = 3 (thorough 3..4) same-named images on k pages with different pixels, names over the metacharacter alphabet, with each subset of {NAME.ext, NAME.0.ext, NAME.1.ext} pre-existing; judged: pre-existing files byte-identical, no path opened for writing twice in one run, k new files",
        "the harness tree lives at one path per worker process (<tmp>/verif_c15_p<pid>), re-created for every shard and removed at its end, so that a resource path remembered by the library across shards still denotes the former directory (CMAP_PATH re-pointing is then judged by the cmap_env cases)",
        "late-sentinel cases assemble the extract_text_to_fp pipeline from the public classes (ImageWriter, converter, PDFPageInterpreter) to drop files between writer construction and export",
        "with CMAP_PATH unset, reads under the documented default /usr/share/pdfminer would be allowed (the directory does not exist here)",
        "inline image names are interpreter-generated (id()), not document-controlled; one inline case per export kind checks they stay inside the output dir",
    ],
}


# ------------------------------------------------------------- audit recorder
_EVENTS: List[Tuple[str, Tuple]] = []
_ARMED = [False]
_HOOKED = [False]
_WATCH = {"open", "os.mkdir", "os.rename", "os.remove", "os.rmdir", "os.truncate", "os.link", "os.symlink", "os.chmod", "os.chown",
          "os.utime", "shutil.copyfile", "shutil.move", "shutil.rmtree", "shutil.copytree", "os.open", "os.scandir", "os.listdir",
          "subprocess.Popen", "os.system", "os.exec", "os.posix_spawn", "os.spawn", "socket.connect"}


def _hook(event: str, args: Tuple) -> None:
    if not _ARMED[0] or event not in _WATCH:
        return
    fn = "?"
    try:
        f = sys._getframe(1)
        chain = []
        while f is not None:
            co = f.f_code
            if os.sep + "pdfminer" + os.sep in co.co_filename:
                chain.append(co.co_name)
            f = f.f_back
        fn = ">".join(reversed(chain[:4])) if chain else "?"
    except Exception:  # noqa
        pass
    rec = [a if isinstance(a, (str, bytes, int, type(None))) else repr(a) for a in args]
    if rec and isinstance(rec[0], (str, bytes)) and event not in ("subprocess.Popen", "os.system"):
        try:
            # relative names are anchored at the cwd of the moment; '..' components are kept, because the OS
            # resolves them after following symbolic links, not lexically
            rec[0] = os.path.join(os.getcwd(), os.fsdecode(rec[0]))
        except Exception:  # noqa
            pass
    _EVENTS.append((event, tuple(rec), fn))


def _install() -> None:
    if not _HOOKED[0]:
        sys.addaudithook(_hook)
        _HOOKED[0] = True


# ------------------------------------------------------------------ documents
def _nm(s: str) -> Name:
    return Name(s.encode("utf-8"))


def _image_stream(kind: str) -> Stream:
    """2x2 image whose export takes the code path ``kind``."""
    if kind == "bmp1":
        return Stream({"Type": N("XObject"), "Subtype": N("Image"), "Width": 2, "Height": 2, "BitsPerComponent": 1, "ColorSpace": N("DeviceGray"),
                       "Filter": N("FlateDecode")}, zlib.compress(b"\x80\x40"))
    if kind == "bmp8rgb":
        return Stream({"Type": N("XObject"), "Subtype": N("Image"), "Width": 2, "Height": 2, "BitsPerComponent": 8, "ColorSpace": N("DeviceRGB"),
                       "Filter": N("FlateDecode")}, zlib.compress(bytes(range(12))))
    if kind == "bmp8gray":
        return Stream({"Type": N("XObject"), "Subtype": N("Image"), "Width": 2, "Height": 2, "BitsPerComponent": 8, "ColorSpace": N("DeviceGray"),
                       "Filter": N("FlateDecode")}, zlib.compress(bytes(range(4))))
    if kind == "jpg":
        return Stream({"Type": N("XObject"), "Subtype": N("Image"), "Width": 2, "Height": 2, "BitsPerComponent": 8, "ColorSpace": N("DeviceRGB"),
                       "Filter": N("DCTDecode")}, b"\xff\xd8\xff\xe0JFIF-not-really\xff\xd9")
    if kind == "raw":
        return Stream({"Type": N("XObject"), "Subtype": N("Image"), "Width": 2, "Height": 2, "BitsPerComponent": 4, "ColorSpace": N("DeviceGray"),
                       "Filter": [N("ASCIIHexDecode"), N("FlateDecode")]}, zlib.compress(b"\x12\x34").hex().encode() + b">")
    if kind == "jp2":
        return Stream({"Type": N("XObject"), "Subtype": N("Image"), "Width": 2, "Height": 2, "BitsPerComponent": 8, "ColorSpace": N("DeviceRGB"),
                       "Filter": N("JPXDecode")}, b"\x00\x00\x00\x0cjP  \r\n\x87\n")
    if kind == "jbig2":
        return Stream({"Type": N("XObject"), "Subtype": N("Image"), "Width": 2, "Height": 2, "BitsPerComponent": 1, "ColorSpace": N("DeviceGray"),
                       "Filter": N("JBIG2Decode")}, b"")
    raise ValueError(kind)


EXT = {"bmp1": ".bmp", "bmp8rgb": ".bmp", "bmp8gray": ".bmp", "jpg": ".jpg", "raw": ".4.2x2.img", "jp2": ".jp2", "jbig2": ".jb2"}


def _tounicode(usecmap: Optional[str]) -> bytes:
    u = (ser_name(usecmap.encode("utf-8")) + b" usecmap\n") if usecmap is not None else b""
    return (b"/CIDInit /ProcSet findresource begin\n12 dict begin\nbegincmap\n" + u +
            b"/CMapName /Adobe-Identity-UCS def\n/CMapType 2 def\n1 begincodespacerange\n<00> <FF>\nendcodespacerange\n"
            b"1 beginbfchar\n<41> <0041>\nendbfchar\nendcmap\nCMapName currentdict /CMap defineresource pop\nend\nend\n")


def _cidfont(reg: bytes = b"Adobe", ordering: bytes = b"Identity", base: str = "HostileCID") -> Dict[str, Any]:
    return {"Type": N("Font"), "Subtype": N("CIDFontType2"), "BaseFont": N(base),
            "CIDSystemInfo": {"Registry": reg, "Ordering": ordering, "Supplement": 0},
            "FontDescriptor": {"Type": N("FontDescriptor"), "FontName": N(base), "Flags": 4, "FontBBox": [0, -200, 1000, 800],
                               "Ascent": 800, "Descent": -200, "ItalicAngle": 0, "CapHeight": 700, "StemV": 80},
            "DW": 1000}


def _field_value(spec, root: str) -> Any:
    """('name', s) | ('str', s) | ('real', x) | ('int', n) | ('null',) | ('list', n) -> pdfgen value (ROOT token materialised)."""
    k = spec[0]
    if k == "name":
        return Name(str(spec[1]).replace(ROOT_TOKEN, root).encode("utf-8"))
    if k == "str":
        return str(spec[1]).replace(ROOT_TOKEN, root).encode("utf-8")
    if k in ("real", "int"):
        return spec[1]
    if k == "null":
        return None
    if k == "list":
        return [spec[1]]
    raise ValueError(spec)


# other document-controlled entries of the image dictionary that end up in the exported file's name
IMG_FIELDS = ["BitsPerComponent", "Width", "Height", "ColorSpace", "Filter"]  # the last two select the export branch / extension
IMG_FIELD_VALUES = [("name", "x"), ("name", "../x"), ("name", ROOT_TOKEN + "/abs/x"), ("str", "/../x"), ("str", "../x"), ("real", 4.5), ("int", -4), ("int", 10 ** 30), ("null",), ("list", 4),
                    ("name", "'pwned'"), ("name", "."), ("name", "..")]


def build_pdf(slots: List[Tuple[str, str]], kind: str, inline: bool = False, img_field: Optional[Tuple[str, Any]] = None) -> bytes:
    """One page using every listed (slot, hostile string); strings are already materialised."""
    d = Doc()
    fonts: Dict[str, Any] = {"F1": d.add({"Type": N("Font"), "Subtype": N("Type1"), "BaseFont": N("Helvetica")})}
    xobj: Dict[str, Any] = {}
    ops: List[bytes] = [b"BT /F1 12 Tf 72 720 Td (C15) Tj ET"]
    fi = [1]

    def use_font(spec, text=b"<0041>"):
        fi[0] += 1
        k = "F%d" % fi[0]
        fonts[k] = d.add(spec)
        ops.append(b"BT /" + k.encode() + b" 12 Tf 72 %d Td " % (720 - 20 * fi[0]) + text + b" Tj ET")

    for slot, h in slots:
        if slot == "simple-encoding":
            use_font({"Type": N("Font"), "Subtype": N("Type1"), "BaseFont": N("Helvetica"), "Encoding": _nm(h)}, b"(A)")
        elif slot == "type0-encoding":
            use_font({"Type": N("Font"), "Subtype": N("Type0"), "BaseFont": N("HostileCID"), "Encoding": _nm(h), "DescendantFonts": [d.add(_cidfont())]})
        elif slot == "cmap-stream-name":
            body = (b"/CIDInit /ProcSet findresource begin\n12 dict begin\nbegincmap\n" + ser_name(h.encode("utf-8")) + b" usecmap\n"
                    b"1 begincodespacerange\n<0000> <FFFF>\nendcodespacerange\n1 begincidrange\n<0000> <FFFF> 0\nendcidrange\nendcmap\nend\nend\n")
            enc = d.add(Stream({"Type": N("CMap"), "CMapName": _nm(h), "CIDSystemInfo": {"Registry": b"Adobe", "Ordering": b"Identity", "Supplement": 0}}, body))
            use_font({"Type": N("Font"), "Subtype": N("Type0"), "BaseFont": N("HostileCID"), "Encoding": enc, "DescendantFonts": [d.add(_cidfont())]})
        elif slot == "usecmap-tounicode-type0":
            tu = d.add(Stream({}, _tounicode(h)))
            use_font({"Type": N("Font"), "Subtype": N("Type0"), "BaseFont": N("HostileCID"), "Encoding": N("Identity-H"), "ToUnicode": tu,
                      "DescendantFonts": [d.add(_cidfont())]})
        elif slot == "usecmap-tounicode-simple":
            tu = d.add(Stream({}, _tounicode(h)))
            use_font({"Type": N("Font"), "Subtype": N("Type1"), "BaseFont": N("Helvetica"), "ToUnicode": tu}, b"(A)")
        elif slot == "registry":
            use_font({"Type": N("Font"), "Subtype": N("Type0"), "BaseFont": N("HostileCID"), "Encoding": N("Identity-H"),
                      "DescendantFonts": [d.add(_cidfont(reg=h.encode("latin-1", "replace"), ordering=b"Japan1"))]})
        elif slot == "ordering":
            use_font({"Type": N("Font"), "Subtype": N("Type0"), "BaseFont": N("HostileCID"), "Encoding": N("Identity-H"),
                      "DescendantFonts": [d.add(_cidfont(reg=b"Adobe", ordering=h.encode("latin-1", "replace")))]})
        elif slot == "basefont":
            use_font({"Type": N("Font"), "Subtype": N("Type1"), "BaseFont": _nm(h), "FirstChar": 65, "LastChar": 65, "Widths": [600],
                      "FontDescriptor": {"Type": N("FontDescriptor"), "FontName": _nm(h), "Flags": 32, "FontBBox": [0, -200, 1000, 800],
                                         "Ascent": 800, "Descent": -200, "ItalicAngle": 0, "CapHeight": 700, "StemV": 80}}, b"(A)")
        elif slot == "image-name":
            im_ = _image_stream(kind)
            if img_field is not None:
                im_.d[img_field[0]] = img_field[1]
            xobj[h] = d.add(im_)
            ops.append(b"q 10 0 0 10 100 100 cm " + ser_name(h.encode("utf-8")) + b" Do Q")
        elif slot in ("form-name", "image-in-form"):
            fname, iname = (h, "Im0") if slot == "form-name" else ("F0", h)
            im = d.add(_image_stream(kind))
            form = d.add(Stream({"Type": N("XObject"), "Subtype": N("Form"), "BBox": [0, 0, 100, 100], "Resources": {"XObject": {iname: im}}},
                                b"q 10 0 0 10 0 0 cm " + ser_name(iname.encode("utf-8")) + b" Do Q"))
            xobj[fname] = form
            ops.append(b"q " + ser_name(fname.encode("utf-8")) + b" Do Q")
        elif slot == "legit-cmap":
            use_font({"Type": N("Font"), "Subtype": N("Type0"), "BaseFont": N("Ryumin-Light"), "Encoding": _nm(h),
                      "DescendantFonts": [d.add(_cidfont(reg=b"Adobe", ordering=b"Japan1", base="Ryumin-Light"))]}, b"<8140>")
        else:
            raise ValueError(slot)
    if inline:
        if kind == "jpg":
            ops.append(b"q 10 0 0 10 50 50 cm BI /W 2 /H 2 /BPC 8 /CS /RGB /F [/AHx /DCT] ID " + b"\xff\xd8\xff\xd9".hex().encode() + b"> EI Q")
        elif kind == "bmp1":
            ops.append(b"q 10 0 0 10 50 50 cm BI /W 2 /H 2 /BPC 1 /CS /G /F /AHx ID 8040> EI Q")
        elif kind == "bmp8gray":
            ops.append(b"q 10 0 0 10 50 50 cm BI /W 2 /H 2 /BPC 8 /CS /G /F /AHx ID 00010203> EI Q")
        elif kind == "bmp8rgb":
            ops.append(b"q 10 0 0 10 50 50 cm BI /W 2 /H 2 /BPC 8 /CS /RGB /F /AHx ID " + bytes(range(12)).hex().encode() + b"> EI Q")
        else:
            ops.append(b"q 10 0 0 10 50 50 cm BI /W 2 /H 2 /BPC 4 /CS /G /F [/AHx /AHx] ID " + b"1234>".hex().encode() + b"> EI Q")
    cat, pages, page = d.reserve(), d.reserve(), d.reserve()
    cref = d.add(Stream({}, b"\n".join(ops) + b"\n"))
    res: Dict[str, Any] = {"Font": fonts}
    if xobj:
        res["XObject"] = {k: v for k, v in xobj.items()}
    d.set(cat, {"Type": N("Catalog"), "Pages": pages})
    d.set(pages, {"Type": N("Pages"), "Kids": [page], "Count": 1})
    d.set(page, {"Type": N("Page"), "Parent": pages, "MediaBox": [0, 0, 612, 792], "Resources": res, "Contents": cref})
    return d.write(cat)


def build_repeat_pdf(name: str, kind: str, k: int, first: int = 0) -> bytes:
    """k pages, each with its own image XObject called ``name`` (different pixels on every page; ``first`` shifts them)."""
    d = Doc()
    cat, pages = d.reserve(), d.reserve()
    kids = []
    for i in range(first, first + k):
        im = _image_stream(kind)
        if kind == "bmp8gray":
            im.data = zlib.compress(bytes((i * 16 + j) & 255 for j in range(4)))
        elif kind == "jpg":
            im.data = b"\xff\xd8\xff\xe0JFIF-page-%d\xff\xd9" % i
        elif kind == "raw":
            im.data = zlib.compress(bytes((0x12 + i, 0x34))).hex().encode() + b">"
        else:
            raise ValueError(kind)
        ref = d.add(im)
        cref = d.add(Stream({}, b"q 10 0 0 10 100 100 cm " + ser_name(name.encode("utf-8")) + b" Do Q\n"))
        kids.append(d.add({"Type": N("Page"), "Parent": pages, "MediaBox": [0, 0, 612, 792], "Resources": {"XObject": {name: ref}}, "Contents": cref}))
    d.set(cat, {"Type": N("Catalog"), "Pages": pages})
    d.set(pages, {"Type": N("Pages"), "Kids": kids, "Count": k})
    return d.write(cat)


# the pdfgen dict serialiser and the name helpers above encode str as UTF-8, which is how pdfminer decodes names


# ------------------------------------------------------------------ the tree
DECOY_CMAP = {"IS_VERTICAL": False, "CODE2CID": {}}
DECOY_UMAP = {"CID2UNICHR_H": {}, "CID2UNICHR_V": {}}


def _gz_pickle(obj) -> bytes:
    b = io.BytesIO()
    with gzip.GzipFile(fileobj=b, mode="wb", mtime=0) as g:
        g.write(pickle.dumps(obj, 2))
    return b.getvalue()


class Tree:
    def __init__(self):
        # one path per worker process, re-created for every shard and removed when the shard ends: a search path the
        # library may have remembered from an earlier shard then still names the (former) resource directory
        self.root = os.path.join(os.path.realpath(tempfile.gettempdir()), "verif_c15_p%d" % os.getpid())
        shutil.rmtree(self.root, ignore_errors=True)
        os.mkdir(self.root, 0o700)
        # sweep trees left behind by worker processes that were killed in mid-shard (their pid is gone)
        try:
            for n in os.listdir(os.path.dirname(self.root)):
                if n.startswith("verif_c15_p") and n[11:].isdigit():
                    try:
                        os.kill(int(n[11:]), 0)
                    except ProcessLookupError:
                        shutil.rmtree(os.path.join(os.path.dirname(self.root), n), ignore_errors=True)
                    except OSError:
                        pass
        except OSError:
            pass
        self.cmap = os.path.join(self.root, "a", "b", "cmap")
        self.out = os.path.join(self.root, "a", "b", "out")
        self.abs = os.path.join(self.root, "abs")
        self.cwd = os.path.join(self.root, "a", "b", "cwd")
        import pdfminer

        self.lib = os.path.join(os.path.dirname(os.path.realpath(pdfminer.__file__)), "cmap")

    def reset(self) -> None:
        for n in os.listdir(self.root):
            p = os.path.join(self.root, n)
            shutil.rmtree(p) if os.path.isdir(p) and not os.path.islink(p) else os.remove(p)
        for dd in (self.cmap, self.out, self.abs, self.cwd):
            os.makedirs(dd)
        with open(os.path.join(self.cmap, "exists.pickle.gz"), "wb") as f:
            f.write(_gz_pickle(DECOY_CMAP))
        with open(os.path.join(self.root, "a", "canary.txt"), "wb") as f:
            f.write(b"canary")

    def inside(self, path: str, base: str) -> bool:
        rp = os.path.realpath(path)
        rb = os.path.realpath(base)
        return rp == rb or rp.startswith(rb + os.sep)

    def plant_cmap_decoys(self, names: List[str], bases: Optional[Tuple[str, ...]] = None) -> int:
        """For every file name the implementation may join to a resource directory, plant a decoy where it lands."""
        n = 0
        for nm in [v for nm0 in names for v in _variants(nm0)]:
            nm = nm.replace("\0", "")
            for base in (bases or (self.cmap, self.lib)):
                for fname, payload in ((nm + ".pickle.gz", DECOY_CMAP), ("to-unicode-" + nm + ".pickle.gz", DECOY_UMAP)):
                    raw = os.path.join(base, fname)
                    tgt = os.path.normpath(raw)
                    if not (tgt.startswith(self.root + os.sep)) or len(os.path.basename(tgt)) > 200:
                        continue  # never plant outside the harness tree (in particular not in the repository)
                    if os.path.exists(tgt):
                        continue
                    try:
                        os.makedirs(os.path.dirname(tgt), exist_ok=True)
                        with open(tgt, "wb") as f:
                            f.write(_gz_pickle(payload))
                        n += 1
                    except OSError:
                        pass
        return n

    def plant_sentinels(self, names: List[str], ext: str, out: Optional[str] = None) -> None:
        import re

        spellings = []
        for nm in [v for nm0 in names for v in _variants(nm0)]:
            # the name as written and the spellings a sanitiser could plausibly map it to, so that the
            # collision branch of the unique-name search is taken whatever the sanitiser does
            for v in (nm, re.sub(r"[/\\\0]", "_", nm), os.path.basename(nm.replace("\0", "")), nm.replace("/", "").replace("\0", "")):
                if v not in spellings:
                    spellings.append(v)
        for nm in spellings:
            for fn in (nm + ext, "%s.0%s" % (nm, ext)):
                if "\0" in fn:
                    continue
                for base in (out or self.out,):
                    tgt = os.path.normpath(os.path.join(base, fn))
                    if not tgt.startswith(self.root + os.sep) or len(os.path.basename(tgt)) > 200 or os.path.isdir(tgt):
                        continue
                    try:
                        os.makedirs(os.path.dirname(tgt), exist_ok=True)
                        if not os.path.exists(tgt):
                            with open(tgt, "wb") as f:
                                f.write(b"sentinel:" + fn.encode("utf-8", "replace"))
                    except OSError:
                        pass

    def snapshot(self) -> Dict[str, str]:
        snap = {}
        for dp, dn, fn in os.walk(self.root):
            for d_ in dn:
                snap[os.path.join(dp, d_) + os.sep] = "dir"
            for f_ in fn:
                p = os.path.join(dp, f_)
                try:
                    with open(p, "rb") as f:
                        snap[p] = hashlib.sha1(f.read()).hexdigest()
                except OSError as e:
                    snap[p] = "unreadable:" + type(e).__name__
        return snap

    def close(self) -> None:
        shutil.rmtree(self.root, ignore_errors=True)


_TREE: List[Optional[Tree]] = [None]
_WARM = [False]


def _tree() -> Tree:
    """The harness tree of the current shard (created on first use, removed by ``_close_tree`` when the shard ends)."""
    if _TREE[0] is None:
        _TREE[0] = Tree()
    return _TREE[0]


def _close_tree() -> None:
    if _TREE[0] is not None:
        _TREE[0].close()
        _TREE[0] = None


def _clear_caches() -> None:
    try:
        from pdfminer.cmapdb import CMapDB

        CMapDB._cmap_cache.clear()
        CMapDB._umap_cache.clear()
    except Exception:  # noqa
        pass


def _extract(pdf: bytes, out: Optional[str], otype: str) -> Optional[str]:
    from pdfminer.high_level import extract_text_to_fp
    from pdfminer.layout import LAParams

    sink = io.BytesIO()
    try:
        extract_text_to_fp(io.BytesIO(pdf), sink, output_type=otype, laparams=LAParams(), output_dir=out)
        return None
    except BaseException as e:  # noqa
        return type(e).__name__


def _extract_reuse(pdfs: List[bytes], out: str, otype: str) -> Optional[str]:
    """ONE ImageWriter serving several documents one after the other (fresh resource manager and converter each)."""
    from pdfminer.converter import HTMLConverter, TextConverter, XMLConverter
    from pdfminer.image import ImageWriter
    from pdfminer.layout import LAParams
    from pdfminer.pdfinterp import PDFPageInterpreter, PDFResourceManager
    from pdfminer.pdfpage import PDFPage

    try:
        iw = ImageWriter(out)
        for pdf in pdfs:
            sink = io.BytesIO()
            rsrc = PDFResourceManager()
            conv = {"text": TextConverter, "xml": XMLConverter, "html": HTMLConverter}[otype]
            device = conv(rsrc, sink, codec="utf-8", laparams=LAParams(), imagewriter=iw)
            interp = PDFPageInterpreter(rsrc, device)
            for page in PDFPage.get_pages(io.BytesIO(pdf)):
                interp.process_page(page)
            device.close()
        return None
    except BaseException as e:  # noqa
        return type(e).__name__


def _extract_late(pdf: bytes, out: str, otype: str, plant) -> Optional[str]:
    """Same pipeline as extract_text_to_fp, assembled from the public classes, so that ``plant()`` can drop files into
    the output directory after the ImageWriter and the converter exist and before the first page is processed."""
    from pdfminer.converter import HTMLConverter, TextConverter, XMLConverter
    from pdfminer.image import ImageWriter
    from pdfminer.layout import LAParams
    from pdfminer.pdfinterp import PDFPageInterpreter, PDFResourceManager
    from pdfminer.pdfpage import PDFPage

    sink = io.BytesIO()
    try:
        iw = ImageWriter(out)
        rsrc = PDFResourceManager()
        conv = {"text": TextConverter, "xml": XMLConverter, "html": HTMLConverter}[otype]
        device = conv(rsrc, sink, codec="utf-8", laparams=LAParams(), imagewriter=iw)
        plant()
        interp = PDFPageInterpreter(rsrc, device)
        for page in PDFPage.get_pages(io.BytesIO(pdf)):
            interp.process_page(page)
        device.close()
        return None
    except BaseException as e:  # noqa
        return type(e).__name__


DEFAULT_CMAP_DIR = "/usr/share/pdfminer"  # documented default of $CMAP_PATH


def _prewarm(t: Tree) -> None:
    if _WARM[0]:
        return
    t.reset()
    os.environ["CMAP_PATH"] = t.cmap
    for kind in IMAGE_KINDS:
        pdf = build_pdf([("image-name", "Im0"), ("legit-cmap", "90ms-RKSJ-H"), ("usecmap-tounicode-simple", "H"), ("registry", "Adobe"), ("form-name", "Fm")], kind, inline=True)
        for ot in OTYPES:
            _extract(pdf, t.out, ot)
    _WARM[0] = True


# ----------------------------------------------------------------- the oracle
def materialise(h: str, t: Tree) -> str:
    h = re.sub(r"@ROOTFW([0-9A-F]{4})@", lambda m: t.root.replace("/", chr(int(m.group(1), 16))), h)
    return h.replace(ROOT_TOKEN, t.root)


def _variants(nm: str) -> List[str]:
    """The name and what a Unicode normalisation could turn it into (decoys/sentinels are planted for all of them)."""
    import unicodedata as U

    out = [nm]
    for f in ("NFC", "NFD", "NFKC", "NFKD"):
        v = U.normalize(f, nm)
        if v not in out:
            out.append(v)
    for v in (nm.casefold(),):
        if v not in out and any(ord(c) > 127 for c in nm):
            out.append(v)
    return out


def run_case(case: Dict[str, Any]):
    """-> (violations [(sig, expected, observed, what)], outcome, n_events)"""
    _install()
    t = _tree()
    _prewarm(t)
    t.reset()
    os.environ["CMAP_PATH"] = t.cmap
    slots = [(s, hk[4:] if hk.startswith("lit:") else materialise(HOSTILE_D.get(hk, hk), t)) for s, hk in case["slots"]]
    kind, otype, inline = case["kind"], case["otype"], case.get("inline", False)
    repeat = int(case.get("repeat") or 0)
    reuse = int(case.get("reuse") or 0)  # that many structurally identical documents through ONE ImageWriter
    pdfs = [build_repeat_pdf(slots[0][1], kind, repeat, first=7 * j) for j in range(reuse)] if reuse else []
    if reuse:
        repeat_total = repeat * reuse
    else:
        repeat_total = repeat
    pdf = pdfs[0] if reuse else build_repeat_pdf(slots[0][1], kind, repeat) if repeat else build_pdf(
        slots, kind, inline, (case["img_field"][0], _field_value(tuple(case["img_field"][1]), t.root)) if case.get("img_field") else None)
    cmap_names = [h for s, h in slots if s not in IMAGE_SLOTS and s != "basefont" and s != "simple-encoding"]
    for s, h in slots:
        if s == "registry":
            cmap_names.append(h.strip() + "-Japan1")
        if s == "ordering":
            cmap_names.append("Adobe-" + h.strip())
    late = bool(case.get("late_sentinels"))
    chdir_to: Optional[str] = None
    # ---- how the resource directory is configured
    cmap_env = case.get("cmap_env") or ("unset" if case.get("cwd_mode") else None)
    cwd_mode = cmap_env is not None
    allowed_cmap: Optional[str] = t.cmap
    env_value: Optional[str] = t.cmap
    if cmap_env:
        chdir_to = t.cwd
        env_value = {"unset": None, "empty": "", "dot": ".", "rel": "relcmaps"}[cmap_env]
        os.makedirs(os.path.join(t.cwd, "relcmaps"), exist_ok=True)
        # unset: the working directory is no resource directory at all; otherwise the user named it (relative to the cwd)
        allowed_cmap = None if env_value is None else os.path.realpath(os.path.join(t.cwd, env_value))
    # ---- symbolic links an administrator might have inside the resource directory, pointing out of it
    sym = case.get("symlinks")
    if sym == "dir":
        os.symlink(t.abs, os.path.join(t.cmap, "shared"))
    elif sym == "file":
        k = 0
        for nm in cmap_names:
            for fname in (nm + ".pickle.gz", "to-unicode-" + nm + ".pickle.gz"):
                if "/" in fname or "\0" in fname:
                    continue
                target = os.path.join(t.abs, "target-%d.pickle.gz" % k)
                k += 1
                with open(target, "wb") as f:
                    f.write(_gz_pickle(DECOY_UMAP if fname.startswith("to-unicode-") else DECOY_CMAP))
                if not os.path.lexists(os.path.join(t.cmap, fname)):
                    os.symlink(target, os.path.join(t.cmap, fname))
    planted = t.plant_cmap_decoys(cmap_names)
    if cmap_env:
        # files named like the document's CMaps lie in (or relative to) the working directory / the named directory
        planted += t.plant_cmap_decoys(cmap_names, bases=(t.cwd,) if allowed_cmap is None else (allowed_cmap, t.cwd))
    # ---- how the caller spells the output directory
    sp = case.get("out_spelling")
    ab = os.path.dirname(t.out)  # ROOT/a/b
    outdir_arg = t.out
    if sp:
        os.makedirs(os.path.join(ab, "real", "sub"))
        os.symlink(os.path.join(ab, "real", "sub"), os.path.join(ab, "link"))
        if sp == "symlink-dotdot":
            outdir_arg = os.path.join(ab, "link", "..", "out")
        elif sp == "symlink-dotdot-rel":
            chdir_to, outdir_arg = ab, os.path.join("link", "..", "out")
        elif sp == "relative":
            chdir_to, outdir_arg = ab, "out"
        elif sp == "dot-slash-rel":
            chdir_to, outdir_arg = ab, "./out/"
        elif sp == "trailing-slash":
            outdir_arg = t.out + "/"
        elif sp == "dot-slash":
            outdir_arg = os.path.join(ab, ".", "out")
        elif sp == "cwd-dot":
            chdir_to, outdir_arg = t.cwd, "."
        else:
            raise ValueError(sp)
    # the directory the caller chose, resolved the way the OS resolves it, before anything is created
    if case.get("no_export") and not chdir_to:
        chdir_to = t.cwd  # export disabled (output_dir None or ''): a sentinel working directory in which nothing may appear
    out_real = os.path.realpath(os.path.join(chdir_to or os.getcwd(), outdir_arg))
    if not out_real.startswith(t.root + os.sep):
        raise RuntimeError("harness: output directory outside the harness tree")
    os.makedirs(out_real, exist_ok=True)
    # where a purely lexical reading of the caller's path would point (differs from out_real only through symlinks)
    out_lexical = os.path.normpath(os.path.join(chdir_to or os.getcwd(), outdir_arg))
    img_names = [h for s, h in slots if s in ("image-name", "image-in-form")] + (["Im0"] if any(s == "form-name" for s, _ in slots) else [])
    if repeat:
        # exactly the listed user files (named with the sanitised spelling the exporter uses for its candidates)
        base_nm = re.sub(r"[/\\\0]", "_", img_names[0])
        pre_sufs = list(case.get("pre", ()))
        if case.get("pre_n"):
            # NAME.ext and NAME.0.ext .. NAME.(n-1).ext all taken: the export has to go to NAME.n.ext
            pre_sufs = [""] + [".%d" % i for i in range(int(case["pre_n"]))]
        for suf in pre_sufs:
            with open(os.path.join(out_real, base_nm + suf + EXT[kind]), "wb") as f:
                f.write(b"user file " + suf.encode())
    elif case.get("trunc"):
        # user files named like every plausible shortening of an over-long name (NAME_MAX is 255 bytes)
        nm_, ext_ = re.sub(r"[/\\\0]", "_", img_names[0]), EXT[kind]
        cands = set()
        for L in (255, 254, 251, 250, 200, 128, 127):
            for v in (nm_[: L - len(ext_)] + ext_, (nm_ + ext_)[:L], nm_[:L], nm_[:L] + ext_,
                      nm_.encode("utf-8")[: L - len(ext_)].decode("utf-8", "ignore") + ext_, (nm_ + ext_).encode("utf-8")[:L].decode("utf-8", "ignore")):
                for w in (v, v[: -len(ext_)] + ".0" + ext_ if v.endswith(ext_) else v + ".0"):
                    if 0 < len(w.encode("utf-8")) <= 255:
                        cands.add(w)
        for w in sorted(cands):
            try:
                with open(os.path.join(out_real, w), "wb") as f:
                    f.write(b"user file " + w.encode("utf-8")[:40])
            except OSError:
                pass
    elif not late:
        t.plant_sentinels(img_names, EXT[kind], out_real)
    if case.get("fresh_out"):
        shutil.rmtree(out_real)  # output directory does not exist yet: ImageWriter may create it (and only it)
    snap = [t.snapshot()]
    _clear_caches()
    del _EVENTS[:]
    old_cwd = os.getcwd()
    if cmap_env:
        if env_value is None:
            os.environ.pop("CMAP_PATH", None)
        else:
            os.environ["CMAP_PATH"] = env_value
    if chdir_to:
        os.chdir(chdir_to)

    def plant_late():
        _ARMED[0] = False
        t.plant_sentinels(img_names, EXT[kind], out_real)
        snap[0] = t.snapshot()
        _ARMED[0] = True

    _ARMED[0] = True
    try:
        if reuse:
            exc = _extract_reuse(pdfs, outdir_arg, otype)
        elif late:
            exc = _extract_late(pdf, outdir_arg, otype, plant_late)
        else:
            exc = _extract(pdf, ("" if case.get("out_empty") else None) if case.get("no_export") else outdir_arg, otype)
    finally:
        _ARMED[0] = False
        os.chdir(old_cwd)
        os.environ["CMAP_PATH"] = t.cmap
    before = snap[0]
    events = list(_EVENTS)
    after = t.snapshot()
    viol: List[Tuple[str, Any, Any, str]] = []
    seen = set()

    def add(sig, exp, obs, what):
        if sig not in seen:
            seen.add(sig)
            viol.append((sig, exp, obs, what))

    out_abs = []
    imports = 0
    written: set = set()
    for ev, args, fn in events:
        if ev in ("open", "os.open"):
            path = args[0]
            mode = args[1] if len(args) > 1 else None
            flags = args[2] if len(args) > 2 and isinstance(args[2], int) else 0
            if isinstance(path, bytes):
                path = os.fsdecode(path)
            if isinstance(path, int):
                out_abs.append(("open-fd", "fd"))
                continue
            writing = bool(flags & (os.O_WRONLY | os.O_RDWR | os.O_CREAT | os.O_TRUNC | os.O_APPEND)) or (isinstance(mode, str) and any(c in mode for c in "wax+"))
            ap = path if os.path.isabs(path) else os.path.abspath(path)  # anchored by the hook; '..' kept for realpath
            if not writing and ap.endswith((".py", ".pyc")):
                imports += 1
                continue
            if writing:
                rp_ = os.path.realpath(ap)
                if rp_ in written:
                    add("C15/existing-file-overwritten", "never overwrites an existing file", {"opened_for_writing_twice": ap.replace(t.root, ROOT_TOKEN), "via": fn},
                        "a file created earlier in the same run was opened for writing again (two exports share one file)")
                written.add(rp_)
            if t.inside(ap, t.lib):
                cls = "libcmap"
            elif cmap_env == "unset" and t.inside(ap, DEFAULT_CMAP_DIR):
                cls = "cmappath"  # the documented default resource directory
            elif allowed_cmap is not None and t.inside(ap, allowed_cmap):
                cls = "cmappath"
            elif t.inside(ap, out_real):
                cls = "outdir"
            elif t.inside(ap, t.root):
                cls = "tree-outside"
            else:
                cls = "elsewhere"
            out_abs.append(("open-w" if writing else "open-r", cls, os.path.basename(ap)[:24] if cls != "outdir" or not inline else "inline", fn.split(">")[-1]))
            rel = ap.replace(t.root, ROOT_TOKEN)
            if not writing:
                if cls not in ("libcmap", "cmappath"):
                    if "_load_data" in fn:
                        add("C15/cmap-name-escapes-resource-dirs", "reads only inside pdfminer/cmap and $CMAP_PATH", {"opened": rel, "via": fn},
                            "CMapDB._load_data joined a document-supplied name into a path outside the resource directories and opened it (and would unpickle it)")
                    else:
                        add(f"C15/read-outside-allowed@{fn.split('>')[-1]}", "reads only inside pdfminer/cmap and $CMAP_PATH", {"opened": rel, "via": fn}, "file opened for reading outside the allowed directories")
            else:
                if cls != "outdir":
                    if sp and out_lexical != out_real and os.path.dirname(os.path.normpath(ap)) == out_lexical:
                        add("C15/output-dir-not-the-one-chosen", "files created only inside output_dir (as the OS resolves it)", {"opened_for_writing": rel, "chosen": out_real.replace(t.root, ROOT_TOKEN), "via": fn},
                            "image written into a directory other than the one the caller's output_dir resolves to")
                    elif "ImageWriter" in fn or "_save_" in fn or "export_image" in fn:
                        add("C15/image-name-escapes-output-dir", "files created only inside output_dir", {"opened_for_writing": rel, "via": fn},
                            "ImageWriter joined the XObject name into a path outside the output directory and created the file there")
                    else:
                        add(f"C15/write-outside-output-dir@{fn.split('>')[-1]}", "files created only inside output_dir", {"opened_for_writing": rel, "via": fn}, "file opened for writing outside the output directory")
                elif case.get("no_export"):
                    add("C15/write-without-image-export", "no file created when output_dir is not given", {"opened_for_writing": rel, "via": fn}, "file written although image export is disabled")
                elif ap in before or os.path.realpath(ap) in before:
                    add("C15/existing-file-overwritten", "never overwrites an existing file", {"opened_for_writing": rel, "via": fn}, "an existing file in the output directory was opened for writing")
        elif ev in ("os.scandir", "os.listdir"):
            out_abs.append((ev, fn.split(">")[-1]))
        elif ev == "os.mkdir":
            p_ = os.fsdecode(args[0]) if isinstance(args[0], bytes) else str(args[0])
            out_abs.append((ev, "outdir" if t.inside(p_, out_real) else "other"))
            if not t.inside(p_, out_real):
                add("C15/mkdir-outside-output-dir", "directories created only inside output_dir", {"mkdir": p_.replace(t.root, ROOT_TOKEN), "via": fn}, "directory created outside the output directory")
        else:
            out_abs.append((ev, fn.split(">")[-1]))
            add(f"C15/unexpected-fs-operation:{ev}", "no such operation", {"event": ev, "args": repr(args)[:200].replace(t.root, ROOT_TOKEN), "via": fn}, "file-system operation other than open/mkdir during processing")
    # independent oracle: the tree itself
    for p_, hsh in before.items():
        if p_ not in after:
            add("C15/tree-file-removed", "nothing removed", p_.replace(t.root, ROOT_TOKEN), "a pre-existing file or directory disappeared")
        elif after[p_] != hsh:
            add("C15/existing-file-overwritten", "never overwrites an existing file", {"changed": p_.replace(t.root, ROOT_TOKEN)}, "a pre-existing file has different content after processing")
    created = [p_ for p_ in after if p_ not in before]
    for p_ in created:
        if case.get("no_export"):
            add("C15/write-without-image-export", "no file created when output_dir is not given", {"created": p_.replace(t.root, ROOT_TOKEN)}, "a new file exists although image export is disabled")
        elif not t.inside(p_, out_real) and sp and out_lexical != out_real and (p_.rstrip(os.sep) == out_lexical or os.path.dirname(p_.rstrip(os.sep)) == out_lexical):
            add("C15/output-dir-not-the-one-chosen", "files created only inside output_dir (as the OS resolves it)",
                {"created": p_.replace(t.root, ROOT_TOKEN), "chosen": out_real.replace(t.root, ROOT_TOKEN)}, "a new file or directory exists where a lexical reading of output_dir points, not in the directory it resolves to")
        elif not t.inside(p_, out_real):
            add("C15/image-name-escapes-output-dir" if not p_.endswith(os.sep) else "C15/mkdir-outside-output-dir", "files created only inside output_dir",
                {"created": p_.replace(t.root, ROOT_TOKEN)}, "a new file exists outside the output directory after processing")
    if repeat and exc is None:
        n_files = len([p_ for p_ in created if not p_.endswith(os.sep) and t.inside(p_, out_real)])
        if n_files != repeat_total:
            add("C15/exports-share-a-file", f"{repeat_total} exports -> {repeat_total} new files", {"new_files": sorted(os.path.basename(p_) for p_ in created)},
                "fewer new files than exported images: one export replaced another")
    outcome = (tuple(out_abs), exc, len(created))
    info = {"events": len(events), "imports": imports, "planted": planted, "created": len(created), "exception": exc, "pdf": pdf}
    return viol, outcome, info


# -------------------------------------------------------------- enumeration
def _cases(tier: str) -> List[Dict[str, Any]]:
    cs: List[Dict[str, Any]] = []
    # baselines: the hook must see legitimate resource loads and legitimate exports
    for kind in IMAGE_KINDS:
        cs.append({"slots": [("legit-cmap", "90ms-RKSJ-H"), ("image-name", "Im0")], "kind": kind, "otype": "text"})
        cs.append({"slots": [], "kind": kind, "otype": "text", "inline": True})
    cs.append({"slots": [("legit-cmap", "UniJIS-UCS2-H"), ("legit-cmap", "exists")], "kind": "bmp1", "otype": "xml"})
    for ot in OTYPES:
        cs.append({"slots": [("image-name", "Im0")], "kind": "bmp1", "otype": ot, "fresh_out": True})
        cs.append({"slots": [("image-name", "up1"), ("image-in-form", "abs")], "kind": "jpg", "otype": ot, "no_export": True})
        # output_dir '' means "no export", exactly like None: nothing may be created, in particular not in the working directory
        for kind in ("bmp1", "jpg", "raw"):
            for nm in ("Im0", "up1"):
                cs.append({"slots": [("image-name", nm)], "kind": kind, "otype": ot, "no_export": True, "out_empty": True})
                cs.append({"slots": [("image-name", nm)], "kind": kind, "otype": ot, "no_export": True})
    # a full candidate range: NAME.ext and NAME.0.ext .. NAME.999.ext exist, the export must become NAME.1000.ext
    for nm in ("Im0", "a.b"):
        for kind in ("bmp8gray", "jpg"):
            cs.append({"slots": [("image-name", "lit:" + nm)], "kind": kind, "otype": "text", "repeat": 1, "pre_n": 1000})
    cs.append({"slots": [("image-name", "lit:Im0")], "kind": "raw", "otype": "text", "repeat": 2, "pre_n": 1000})
    # files that come into existence after the ImageWriter was set up must not be overwritten either
    for kind in IMAGE_KINDS:
        for nm in ("Im0", "existing"):
            for ot in (OTYPES if kind == "bmp1" else ["text"]):
                cs.append({"slots": [("image-name", nm)], "kind": kind, "otype": ot, "late_sentinels": True})
    cs.append({"slots": [("image-in-form", "Im0"), ("image-name", "Im0")], "kind": "jpg", "otype": "text", "late_sentinels": True})
    # default configuration (CMAP_PATH unset): the working directory is not a resource directory
    for slot in ("type0-encoding", "cmap-stream-name", "usecmap-tounicode-type0", "usecmap-tounicode-simple", "registry", "ordering"):
        for nm in ("evil", "sub/evil", "up1", "abs", "90ms-RKSJ-H"):
            cs.append({"slots": [(slot, nm)], "kind": "bmp1", "otype": "text", "cwd_mode": True})
    # CMAP_PATH set to the empty string, to '.', to a relative directory: only that directory (resolved) is a resource directory
    for env in ("empty", "dot", "rel"):
        for slot in ("type0-encoding", "usecmap-tounicode-simple", "cmap-stream-name", "usecmap-tounicode-type0", "registry"):
            for nm in ("evil", "sub/evil", "up1", "up2", "abs", "abs-up"):
                cs.append({"slots": [(slot, nm)], "kind": "bmp1", "otype": "text", "cmap_env": env})
    # symbolic links inside the resource directory that point out of it are not followed
    for slot in ("type0-encoding", "cmap-stream-name", "usecmap-tounicode-type0", "usecmap-tounicode-simple"):
        cs.append({"slots": [(slot, "shared/evil")], "kind": "bmp1", "otype": "text", "symlinks": "dir"})
    for slot in ("type0-encoding", "cmap-stream-name", "usecmap-tounicode-type0", "usecmap-tounicode-simple", "registry", "ordering"):
        cs.append({"slots": [(slot, "Alias")], "kind": "bmp1", "otype": "text", "symlinks": "file"})
    # spellings of the output directory: files go where the OS resolves the caller's path, nowhere else
    for sp in ("symlink-dotdot", "symlink-dotdot-rel", "relative", "dot-slash-rel", "trailing-slash", "dot-slash", "cwd-dot"):
        for nm in ("Im0", "up1"):
            for kind in ("bmp1", "jpg"):
                for fresh in (False, True):
                    c = {"slots": [("image-name", nm)], "kind": kind, "otype": "text", "out_spelling": sp}
                    if fresh and sp == "cwd-dot":
                        continue  # the working directory itself cannot be absent
                    if fresh:
                        c["fresh_out"] = True
                    cs.append(c)
    # one ImageWriter reused for structurally identical documents (same object numbers and resource names, other pixels)
    for nm in ("Im0", "Im+0", "a.b"):
        for kind in REPEAT_KINDS:
            for pre in ((), ("",), ("", ".0")):
                for reuse, k in ((2, 1), (3, 1), (2, 2)):
                    cs.append({"slots": [("image-name", "lit:" + nm)], "kind": kind, "otype": "text", "repeat": k, "reuse": reuse, "pre": pre})
    # names at and beyond NAME_MAX, with user files named like every plausible shortening
    long_names = ["A" * n for n in (200, 250, 251, 252, 253, 254, 255, 256, 257, 258, 259, 260, 300)]
    long_names += ["\u00e9" * 100, "\u00e9" * 126, "\u00e9" * 128, "\u3042" * 83, "\u3042" * 84, "\u3042" * 86, "B" * 250 + "\u00e9\u00e9\u00e9", "x" * 249 + "/" + "y" * 8]
    for nm in long_names:
        for kind in ("bmp1", "jpg", "raw"):
            cs.append({"slots": [("image-name", "lit:" + nm)], "kind": kind, "otype": "text", "trunc": True})
    # image dictionary entries other than the name that flow into the file name (the '.BITS.WxH.img' extension of raw exports)
    for nm in (".", "..", "", "x"):
        for fld in IMG_FIELDS:
            for val in IMG_FIELD_VALUES:
                for kind in ("raw", "bmp8gray", "jpg"):
                    cs.append({"slots": [("image-name", "lit:" + nm)], "kind": kind, "otype": "text", "img_field": (fld, val)})
    # k same-named exports (k pages) into a directory that may already hold NAME.ext / NAME.0.ext / NAME.1.ext
    for nm in META_NAMES:
        for kind in (REPEAT_KINDS if tier == "thorough" or nm in ("Im0", "Im+0", "a.b") else REPEAT_KINDS[:1]):
            for pre in (PRE_SETS if tier == "thorough" else PRE_SETS[:6]):
                for k in ((3, 4) if tier == "thorough" else (3,)):
                    cs.append({"slots": [("image-name", "lit:" + nm)], "kind": kind, "otype": "text", "repeat": k, "pre": pre})
    # compatibility characters that a normalisation would turn back into path syntax
    for hk, _ in UNICODE_HOSTILE:
        for slot, kinds in (("image-name", ("bmp1", "jpg")), ("image-in-form", ("bmp8gray",)), ("type0-encoding", ("bmp1",)), ("usecmap-tounicode-simple", ("bmp1",))):
            for kind in kinds:
                cs.append({"slots": [(slot, hk)], "kind": kind, "otype": "text"})
    if tier == "thorough":
        for hk, _ in UNICODE_HOSTILE:
            for slot in ("form-name", "cmap-stream-name", "usecmap-tounicode-type0"):
                cs.append({"slots": [(slot, hk)], "kind": "raw", "otype": "xml"})
    for slot in SLOTS:
        kinds = IMAGE_KINDS if slot in IMAGE_SLOTS else ["bmp1"]
        for hk, _ in HOSTILE:
            for kind in kinds:
                otypes = OTYPES if (tier == "thorough" and slot in IMAGE_SLOTS) or (slot == "image-name" and kind in ("bmp1", "jpg")) else ["text"]
                for ot in otypes:
                    cs.append({"slots": [(slot, hk)], "kind": kind, "otype": ot})
    if tier == "thorough":
        for i, s1 in enumerate(SLOTS):
            for s2 in SLOTS[i + 1:]:
                if s1 in IMAGE_SLOTS and s2 in IMAGE_SLOTS and {s1, s2} == {"form-name", "image-in-form"}:
                    pass
                for h1 in TRAVERSAL:
                    for h2 in TRAVERSAL:
                        cs.append({"slots": [(s1, h1), (s2, h2)], "kind": "bmp8gray" if (h1 + h2).count("up") % 2 else "jpg", "otype": "text"})
    return cs


PER_SHARD = {"quick": 8, "thorough": 16}


def shards(tier):
    n = len(_cases(tier))
    k = PER_SHARD[tier]
    return [(i, min(i + k, n)) for i in range(0, n, k)]


def _stored(case, info):
    c = dict(case)
    c["slots"] = [list(x) for x in case["slots"]]
    c["pdf_as_run"] = info["pdf"]
    return c


def run_shard(shard, tier, st):
    cs = _cases(tier)[shard[0]:shard[1]]
    try:
        _run_cases(cs, shard, st)
    finally:
        _close_tree()


def _run_cases(cs, shard, st):
    for i, case in enumerate(cs):
        viol, outcome, info = run_case(case)
        st.states += 1
        st.transitions += info["events"]
        st.traces += 1
        st.case(None, nontrivial=info["events"] - info["imports"] > 0, outcome=outcome)
        st.add("audit_events", info["events"])
        st.add("import_opens_not_judged", info["imports"])
        st.add("decoys_planted", info["planted"])
        st.add("files_created_by_implementation", info["created"])
        if info["exception"]:
            st.add("runs_ending_in_exception", 1)
        for sig, e_, o_, what in viol:
            st.violation(sig, _stored(case, info), e_, o_, what)
        if i == 0 and shard[0] % 64 == 0:
            st.sample({"case": {k: v for k, v in case.items()}, "events": info["events"], "created": info["created"], "exception": info["exception"], "pdf_len": len(info["pdf"])})


def replay(case):
    c = {"slots": [tuple(x) for x in case["slots"]], "kind": case["kind"], "otype": case["otype"], "inline": case.get("inline", False),
         "fresh_out": case.get("fresh_out", False), "no_export": case.get("no_export", False),
         "late_sentinels": case.get("late_sentinels", False), "cwd_mode": case.get("cwd_mode", False),
         "cmap_env": case.get("cmap_env"), "symlinks": case.get("symlinks"), "out_spelling": case.get("out_spelling"),
         "repeat": case.get("repeat"), "pre": tuple(case.get("pre") or ()), "reuse": case.get("reuse"), "trunc": case.get("trunc"), "pre_n": case.get("pre_n"), "out_empty": case.get("out_empty"),
         "img_field": (case["img_field"][0], tuple(case["img_field"][1])) if case.get("img_field") else None}
    try:
        viol, _, _ = run_case(c)
    finally:
        _close_tree()
    return [{"signature": sig, "expected": repr(e_), "observed": repr(o_)} for sig, e_, o_, what in viol]
