"""C07 -- composite fonts: segmentation, CID, Unicode text and advances follow CMap, ToUnicode, W/DW, W2/DW2.

Shape B.  Families of shards:

* ``seg``    -- every byte string up to a length bound over a boundary byte alphabet, decoded by every encoding
               CMap pdfminer ships (and the identity CMaps), against a reference decoder that works on a
               flattened code table read from the pickles by the harness (unique defined code at each position).
* ``codec``  -- every kana, hangul syllable and unified ideograph: platform codec -> CMap -> CID -> collection
               Unicode map must return the character (for characters whose codec form is one code of the CMap).
* ``tou``    -- ToUnicode grammar through generated documents: all maps of <= 3 entries from an 8-entry pool x
               spellings x identity encodings; plus ToUnicode over predefined (non-identity) CMaps.
* ``w``      -- all W arrays of <= 3 items from a 9-item pool (with a range up to CID 65535) x DW x {Identity-H, 90ms-RKSJ-H}; W2/DW2 x vertical CMaps.
* ``wbound`` -- W and W2 entries (list and range forms) whose first or last CID is 0, 1, 255, 256, 65534 or 65535, and a
               range whose last CID lies beyond 65535; the CIDs around the boundary are shown.
* ``ttf``    -- embedded TrueType cmap tables (formats 0, 4 incl. glyphIdArray with a wrapping idDelta, 12; platform filtering) under Adobe-Identity.
* ``coll``   -- predefined CMap + character collection wiring through a document; odd-length identity strings.
* ``fb``     -- ToUnicode maps that omit shown codes: fall back to the collection / the embedded TrueType cmap.
* ``c2g``    -- CIDToGIDMap (name, plain and Flate streams; identity, shifted, permuted, several CIDs per glyph) with an embedded TrueType cmap.
* ``mixres`` -- one /Font resource dictionary listing fonts partly by reference, partly as direct dictionaries (two
               ToUnicode composite fonts, a predefined-CMap composite font, a simple font), every order: each font is
               decoded with its own CMap / ToUnicode / W / DW.
* ``tw``     -- non-zero word spacing (Tw, the aw operand of ") while composite fonts with two-byte codes show strings
               containing CID 32 / the bytes 0x20: no word spacing is added (it belongs to the single-byte code 32 only).
* ``tj``     -- every TJ array of <= 4 elements over {two-glyph string, one-glyph string, +250, -500} followed by
               another TJ and a Tj, for vertical and horizontal composite fonts with default and explicit metrics:
               pen displacement (w - Tj/1000) * Tfs along the writing direction, the other coordinate unchanged.
* ``usecmap``-- (public API, own process each) a FileCMap that imports a predefined CMap with usecmap and then defines
               codes of its own: the cached predefined CMap still decodes as before.
* ``one``    -- several composite fonts in one document, one fresh process per case: an -H and a -V font of one
               collection in both load orders (same page / two pages); two Type0 fonts sharing one descendant
               CIDFont, one with ToUnicode and one without, in every load order.
"""
from __future__ import annotations

import gzip
import itertools
import os
import pickle
import struct
from fractions import Fraction
from typing import Any, Dict, Iterable, List, Optional, Sequence, Tuple

from mc.pdfgen import Doc, HexStr, N, Ref, Stream, page_doc, ser
from mc.refs import fonts_ref as R

ID = "C07"
LEVEL = "model_checking"
FS = 8  # font size (dyadic)

SEG_BYTES = [0x00, 0x20, 0x41, 0x7F, 0x80, 0x81, 0x8E, 0xA1, 0xE0, 0xFE, 0xFF]
SEG_BYTES_X = SEG_BYTES + [0x30, 0x40, 0x8F, 0xC4, 0xF0]

BOUNDS = {
    "quick": {"seg_len": 3, "seg_alphabet": 11, "tou_entries": 3, "w_items": 3, "tj_elements": 4, "vertical_codec": True},
    "thorough": {"seg_len": 4, "seg_alphabet": 16, "tou_entries": 4, "w_items": 4, "tj_elements": 5, "vertical_codec": True},
}

META = {
    "rule": (
        "seg: one case per (CMap, byte string); strings = all over the boundary alphabet up to seg_len; judged on the "
        "CIDs of the maximal prefix made of defined codes (whole string when every byte belongs to a defined code); "
        "non-trivial = at least one CID expected. codec: one case per (CMap, code point); non-trivial = in scope "
        "(codec form is a single defined code). tou (spellings include one begincmap..endcmap section per entry, and blocks with malformed entries between the well-formed ones) / "
        "wbound (W/W2 entries starting or ending at CID 0, 1, 255, 256, 65534, 65535) / mixres (references and direct dictionaries in one /Font dictionary) / tj / tw, tw1 (word spacing with two-byte codes; with a single-byte code 32) / fb / c2g / w / ttf / coll / one (several composite fonts in one document: "
        "-H and -V font of one collection in every load order, two Type0 fonts sharing one descendant with and "
        "without ToUnicode; each such case runs in its own fresh process): one case per generated document, every glyph's "
        "text, advance and pen displacement compared (tou, fb, coll, onebyte, ttf, c2g documents are additionally read "
        "through the TagExtractor device and its text compared); non-trivial = some expected text is not a placeholder or some "
        "advance differs from the default. states = enumeration-tree nodes (string-tree nodes per CMap, subsets / "
        "sequences of pool entries, code points), transitions = edges, traces = executions compared with the model."
    ),
    "bound": {k: str(v) for k, v in BOUNDS.items()},
    "assumptions": [
        "CMap pickles are data: the reference reads the same pickled code tables (by its own loader and a flattened "
        "longest-defined-code walk); only the codec family ties them to an independent source (Python codecs)",
        "undefined codes: in CMaps with one- and two-byte codes a byte that begins two-byte codes followed by an "
        "unmapped trail byte is an undefined two-byte code (skipped, decoding restarts after it); for any other byte "
        "that begins no defined code only the CIDs before it are judged; notdef ranges are not modelled",
        "embedded (non-predefined) encoding CMap streams (the statement names the predefined CMaps only; notdef and "
        "cidrange of embedded CMaps therefore too) are not generated; a code defined twice in a ToUnicode CMap takes "
        "the later entry, except that a code mapped to SPACE is not re-mapped to NO-BREAK SPACE (the library's documented guard)",
        "vertical glyph boxes are not judged except the horizontal origin shift -vx of explicit W2 entries; "
        "pen displacement and LTChar.adv are",
        "strings longer than the bound, bytes outside the alphabet, W arrays with more items than the bound are not explored",
        "the tag-output device is compared on the concatenated text of the tou (canonical spelling) / fb / coll / onebyte / ttf / c2g documents only",
        "advances compared with tolerance 1e-9 at font size 8",
    ],
}


# ------------------------------------------------------------------ reference CMap access
def cmap_dir() -> str:
    import pdfminer

    return os.path.join(os.path.dirname(pdfminer.__file__), "cmap")


_PICKLE: Dict[str, Any] = {}


def load_pickle(name: str) -> Dict[str, Any]:
    if name not in _PICKLE:
        with gzip.open(os.path.join(cmap_dir(), name + ".pickle.gz")) as f:
            _PICKLE[name] = pickle.loads(f.read())
    return _PICKLE[name]


_FLAT: Dict[str, Tuple[Dict[bytes, int], int]] = {}


def flat_codes(name: str) -> Tuple[Dict[bytes, int], int]:
    """code bytes -> cid for every defined code of a predefined CMap, and the longest code length."""
    if name in _FLAT:
        return _FLAT[name]
    out: Dict[bytes, int] = {}
    stack = [(b"", load_pickle(name)["CODE2CID"])]
    maxlen = 0
    while stack:
        pre, node = stack.pop()
        for k, v in node.items():
            code = pre + bytes((k,))
            if isinstance(v, dict):
                stack.append((code, v))
            else:
                out[code] = v
                if len(code) > maxlen:
                    maxlen = len(code)
    _FLAT[name] = (out, maxlen)
    return _FLAT[name]


IDENTITY2 = ("Identity-H", "Identity-V", "DLIdent-H", "DLIdent-V")
IDENTITY1 = ("OneByteIdentityH", "OneByteIdentityV")


def ref_decode(name: str, s: bytes) -> Tuple[List[int], bool]:
    """(cids of the maximal all-defined prefix, whole string was defined codes)"""
    if name in IDENTITY2:
        n = len(s) // 2
        return [int.from_bytes(s[2 * i : 2 * i + 2], "big") for i in range(n)], len(s) % 2 == 0
    if name in IDENTITY1:
        return list(s), True
    flat, maxlen = flat_codes(name)
    leads = lead_bytes(name) if maxlen == 2 else frozenset()
    out: List[int] = []
    p = 0
    while p < len(s):
        for L in range(1, maxlen + 1):
            cid = flat.get(s[p : p + L]) if p + L <= len(s) else None
            if cid is not None:
                out.append(cid)
                p += L
                break
        else:
            if s[p] in leads:
                # CMaps with one- and two-byte codes only: the byte begins two-byte codes, so the (undefined) code is
                # two bytes long -- ISO 32000-1 9.7.6.3: an invalid code that matches a codespace range in its first
                # byte consumes the length of that range; decoding then restarts with the next byte
                p += 2
                continue
            return out, False
    return out, True


_LEADS: Dict[str, frozenset] = {}


def lead_bytes(name: str) -> frozenset:
    if name not in _LEADS:
        flat, _ = flat_codes(name)
        _LEADS[name] = frozenset(c[0] for c in flat if len(c) == 2)
    return _LEADS[name]


def all_cmap_names() -> List[str]:
    names = sorted(f[: -len(".pickle.gz")] for f in os.listdir(cmap_dir()) if f.endswith(".pickle.gz") and not f.startswith("to-unicode-"))
    return names


def is_vertical_name(name: str) -> bool:
    return name.endswith("-V") or name.endswith("IdentityV")


# ------------------------------------------------------------------ seg family
def exc_sig(e: BaseException) -> str:
    import traceback

    tb = traceback.extract_tb(e.__traceback__)
    where = next((f.name for f in reversed(tb) if "/pdfminer/" in f.filename), tb[-1].name)
    return f"{type(e).__name__}@{where}"


def impl_decode(name: str, s: bytes):
    from pdfminer.cmapdb import CMapDB

    return list(CMapDB.get_cmap(name).decode(s))


def check_seg(name: str, s: bytes):
    """-> list of (sig, expected, observed, what); outcome"""
    exp, whole = ref_decode(name, s)
    try:
        got = impl_decode(name, s)
    except Exception as e:  # noqa
        sig = "C07/identity-odd-length-raises" if (name in IDENTITY2 and len(s) % 2 and isinstance(e, struct.error)) else "C07/seg-exception:" + exc_sig(e)
        return [(sig, exp, f"{type(e).__name__}: {e}", f"{name}.decode raised")], ("exc", type(e).__name__), exp, whole
    bad = []
    if whole:
        if got != exp:
            bad.append((f"C07/segmentation:{family_of(name)}", exp, got, f"{name}.decode of an all-defined string"))
    elif got[: len(exp)] != exp:
        bad.append((f"C07/segmentation-prefix:{family_of(name)}", exp, got, f"{name}.decode: CIDs before the first undefined byte"))
    return bad, tuple(got), exp, whole


def family_of(name: str) -> str:
    if name in IDENTITY2 or name in IDENTITY1:
        return "identity"
    return name


def seg_strings(tier: str) -> Iterable[bytes]:
    b = BOUNDS[tier]
    alpha = SEG_BYTES if b["seg_alphabet"] == 11 else SEG_BYTES_X
    for n in range(0, b["seg_len"] + 1):
        for t in itertools.product(alpha, repeat=n):
            yield bytes(t)


def run_seg(names: Sequence[str], tier: str, st) -> None:
    for name in names:
        first = True
        for s in seg_strings(tier):
            bad, outcome, exp, whole = check_seg(name, s)
            st.states += 1
            st.transitions += 1
            st.traces += 1
            st.case(None, nontrivial=bool(exp), outcome=outcome)
            if not whole:
                st.add("seg_strings_with_undefined_or_truncated_code", 1)
            for sig, e, g, what in bad:
                st.violation(sig, {"family": "seg", "cmap": name, "string": s}, e, g, what)
        if first:
            first = False


# ------------------------------------------------------------------ codec family
def chars_kana():
    return list(range(0x3041, 0x3097)) + list(range(0x30A1, 0x30FB))


def chars_hangul():
    return list(range(0xAC00, 0xAC00 + 11172))


def chars_ideo():
    return list(range(0x4E00, 0xA000))


# (cmap, codec, collection): frozen number of in-scope characters (kana, hangul, ideographs), measured on the
# snapshot tree; a lower number on a later tree means CMap / codec coverage was lost.
# (cmap, codec, collection, character classes: k = kana, h = hangul, i = unified ideographs).  Big5 proper has no
# kana; Python's big5 codec and the ETen vendor extension disagree on rows C6-C8, so the Big5 pairs are judged on
# ideographs only.
CODEC_PAIRS: List[Tuple[str, str, str, str]] = [
    ("90ms-RKSJ-H", "cp932", "Adobe-Japan1", "khi"),
    ("EUC-H", "euc_jp", "Adobe-Japan1", "khi"),
    ("UniJIS-UTF16-H", "utf-16-be", "Adobe-Japan1", "khi"),
    ("UniJIS-UCS2-H", "utf-16-be", "Adobe-Japan1", "khi"),
    ("UniJIS-UTF8-H", "utf-8", "Adobe-Japan1", "khi"),
    ("UniJIS-UTF32-H", "utf-32-be", "Adobe-Japan1", "khi"),
    ("GBK-EUC-H", "gbk", "Adobe-GB1", "khi"),
    ("GB-EUC-H", "gb2312", "Adobe-GB1", "khi"),
    ("UniGB-UCS2-H", "utf-16-be", "Adobe-GB1", "khi"),
    ("UniGB-UTF16-H", "utf-16-be", "Adobe-GB1", "khi"),
    ("UniGB-UTF8-H", "utf-8", "Adobe-GB1", "khi"),
    ("UniGB-UTF32-H", "utf-32-be", "Adobe-GB1", "khi"),
    ("B5pc-H", "big5", "Adobe-CNS1", "i"),
    ("ETen-B5-H", "big5", "Adobe-CNS1", "i"),
    ("UniCNS-UCS2-H", "utf-16-be", "Adobe-CNS1", "khi"),
    ("UniCNS-UTF16-H", "utf-16-be", "Adobe-CNS1", "khi"),
    ("UniCNS-UTF8-H", "utf-8", "Adobe-CNS1", "khi"),
    ("UniCNS-UTF32-H", "utf-32-be", "Adobe-CNS1", "khi"),
    ("KSC-EUC-H", "euc_kr", "Adobe-Korea1", "khi"),
    ("KSCms-UHC-H", "cp949", "Adobe-Korea1", "khi"),
    ("UniKS-UCS2-H", "utf-16-be", "Adobe-Korea1", "khi"),
    ("UniKS-UTF16-H", "utf-16-be", "Adobe-Korea1", "khi"),
    ("UniKS-UTF8-H", "utf-8", "Adobe-Korea1", "khi"),
    ("UniKS-UTF32-H", "utf-32-be", "Adobe-Korea1", "khi"),
]
DATA = os.path.join(os.path.dirname(os.path.dirname(os.path.abspath(__file__))), "data", "c07_cjk.json")
_FROZEN: Dict[str, Any] = {}


def frozen() -> Dict[str, Any]:
    """data/c07_cjk.json: {"coverage": {cmap: in-scope count}, "gaps": {"coll|cid|U+XXXX": observed}} measured once
    on the snapshot tree.  ``coverage`` keeps lost CMap entries from being silently excused; ``gaps`` lets the
    data defects of the to-unicode pickles that exist on the snapshot be reported under one signature per
    (collection, kind) while any *other* mismatch gets its own per-code-point signature."""
    if not _FROZEN:
        import json

        with open(DATA) as f:
            _FROZEN.update(json.load(f))
    return _FROZEN


def gap_kind(got: Any) -> str:
    if isinstance(got, str):
        if got and all(0x2E80 <= ord(c) <= 0x2FDF or 0x31C0 <= ord(c) <= 0x31EF for c in got):
            return "radical-or-stroke-instead-of-unified-ideograph"
        return "other-character"
    return str(got[0])


def pair_classes(cmapname: str) -> str:
    base = cmapname[:-2] + "-H"
    return next(p[3] for p in CODEC_PAIRS if p[0] == base)


def run_codec(cmapname: str, codec: str, coll: str, st, collect=None) -> None:
    from pdfminer.cmapdb import CMapDB

    vertical = is_vertical_name(cmapname)
    flat, _ = flat_codes(cmapname)
    cmap = CMapDB.get_cmap(cmapname)
    umap = CMapDB.get_unicode_map(coll, vertical)
    mism: List[Tuple[int, bytes, Any, Any]] = []
    inscope = 0
    cls = pair_classes(cmapname)
    cps = (chars_kana() if "k" in cls else []) + (chars_hangul() if "h" in cls else []) + (chars_ideo() if "i" in cls else [])
    for cp in cps:
        ch = chr(cp)
        st.states += 1
        st.transitions += 1
        try:
            b = ch.encode(codec)
        except UnicodeEncodeError:
            st.case(None, nontrivial=False)
            continue
        if b not in flat:
            st.case(None, nontrivial=False)
            continue
        inscope += 1
        st.traces += 1
        try:
            cids = list(cmap.decode(b))
            if cids != [flat[b]]:
                got: Any = ("cids", cids)
            else:
                try:
                    got = umap.get_unichr(cids[0])
                except KeyError:
                    got = ("no-unicode-entry", cids[0])
        except Exception as e:  # noqa
            got = ("exc", exc_sig(e))
        st.case(None, nontrivial=True, outcome=(cp if got == ch else (cp, repr(got))))
        if got != ch:
            mism.append((cp, b, ch, got, flat[b]))
    st.add("codec_in_scope:" + cmapname, inscope)
    if collect is not None:
        collect["coverage"][cmapname] = inscope
        for cp, b, ch, got, cid in mism:
            collect["gaps"][f"{coll}|{cid}|U+{cp:04X}"] = repr(got)
        return
    fz = frozen()
    fresh = [m for m in mism if fz["gaps"].get(f"{coll}|{m[4]}|U+{m[0]:04X}") != repr(m[3])]
    for cp, b, ch, got, cid in mism:
        if fz["gaps"].get(f"{coll}|{cid}|U+{cp:04X}") == repr(got):
            sig = f"C07/cjk-data:{coll}:{gap_kind(got)}"
        elif len(fresh) <= 32:
            sig = f"C07/codec-roundtrip:{coll}:{cmapname}:U+{cp:04X}"
        else:
            sig = f"C07/codec-roundtrip:{coll}:{cmapname}:many"
        st.violation(sig, {"family": "codec", "cmap": cmapname, "codec": codec, "coll": coll, "cp": cp}, ch, got,
                     f"U+{cp:04X} encoded by {codec} as {b.hex()} -> {cmapname} -> CID {cid} -> {coll} does not come back")
    want = fz["coverage"].get(cmapname)
    if want is not None and inscope < want:
        st.violation(f"C07/codec-coverage-lost:{cmapname}", {"family": "codec-coverage", "cmap": cmapname, "codec": codec, "coll": coll}, want, inscope,
                     "fewer characters in scope than on the snapshot tree")


# ------------------------------------------------------------------ document helpers
def cid_descriptor(doc: Doc, ff2: Optional[bytes] = None) -> Ref:
    fd: Dict[str, Any] = {
        "Type": N("FontDescriptor"), "FontName": N("ABCDEF+Foo"), "Flags": 4, "FontBBox": [0, -200, 1000, 800],
        "Ascent": 800, "Descent": -200, "ItalicAngle": 0, "CapHeight": 700, "StemV": 80,
    }
    if ff2 is not None:
        fd["FontFile2"] = doc.add(Stream({"Length1": len(ff2)}, ff2))
    return doc.add(fd)


IDENTITY_CMAP_BODY = (
    b"/CIDInit /ProcSet findresource begin\n12 dict begin\nbegincmap\n"
    b"/CIDSystemInfo << /Registry (Adobe) /Ordering (Identity) /Supplement 0 >> def\n"
    b"/CMapName /%s def\n/CMapType 1 def\n/WMode %d def\n1 begincodespacerange\n<0000> <FFFF>\nendcodespacerange\n"
    b"1 begincidrange\n<0000> <FFFF> 0\nendcidrange\nendcmap\nCMapName currentdict /CMap defineresource pop\nend\nend\n"
)


def encoding_obj(doc: Doc, enc: str, spelling: str) -> Any:
    if spelling == "name":
        return N(enc)
    # a CMap stream that names a predefined CMap
    wmode = 1 if is_vertical_name(enc) else 0
    d = {"Type": N("CMap"), "CMapName": N(enc), "CIDSystemInfo": {"Registry": b"Adobe", "Ordering": b"Identity", "Supplement": 0}, "WMode": wmode}
    return doc.add(Stream(d, IDENTITY_CMAP_BODY % (enc.encode(), wmode)))


def type0_doc(enc: str, strings: Sequence[bytes], ros=("Adobe", "Identity", 0), tou: Optional[bytes] = None, extra: Optional[Dict[str, Any]] = None,
              ff2: Optional[bytes] = None, sub: str = "CIDFontType2", enc_spelling: str = "name", doc: Optional[Doc] = None,
              show_ops: Optional[bytes] = None) -> bytes:
    """``show_ops`` replaces the default ``<..> Tj`` sequence (text-showing operators only, inside BT .. ET)."""
    doc = doc or Doc()
    d: Dict[str, Any] = {
        "Type": N("Font"), "Subtype": N(sub), "BaseFont": N("ABCDEF+Foo"),
        "CIDSystemInfo": {"Registry": ros[0].encode(), "Ordering": ros[1].encode(), "Supplement": ros[2]},
        "FontDescriptor": cid_descriptor(doc, ff2),
    }
    d.update(extra or {})
    f: Dict[str, Any] = {"Type": N("Font"), "Subtype": N("Type0"), "BaseFont": N("ABCDEF+Foo"), "Encoding": encoding_obj(doc, enc, enc_spelling), "DescendantFonts": [doc.add(d)]}
    if tou is not None:
        f["ToUnicode"] = doc.add(Stream({}, tou))
    ops = show_ops if show_ops is not None else b" ".join(ser(HexStr(s)) + b" Tj" for s in strings)
    content = b"BT /F1 %d Tf 16 700 Td " % FS + ops + b" ET"
    return page_doc(content, {"F1": doc.add(f)}, doc=doc)


X0, Y0 = 16, 700


def compare_doc(pdf: bytes, expected: List[Dict[str, Any]], vertical: bool, sigbase: str, classify=None):
    """expected: per glyph {text, adv (Fraction), vx (Fraction or None), tag[, vert (writing mode of this glyph's font),
    page (0-based page the glyph is shown on)]}.  -> (violations, outcome)"""
    try:
        pages = R.glyphs(pdf)
    except Exception as e:  # noqa
        es = exc_sig(e)
        sig = {
            "error@decode": "C07/identity-odd-length-raises",
            "AssertionError@create_unicode_map": "C07/truetype-cmap-unhandled-format-raises",
        }.get(es, "C07/exception:" + es)
        return [(sig, -1, f"{len(expected)} glyphs", f"{type(e).__name__}: {e}", "document raised")], ("exc", es)
    npages = 1 + max([e.get("page", 0) for e in expected] or [0])
    per_page = [[e for e in expected if e.get("page", 0) == k] for k in range(npages)]
    if len(pages) != npages or any(len(pages[k]) != len(per_page[k]) for k in range(npages)):
        sig = (classify("count", None, None) if classify else None) or sigbase + ":glyph-count"
        return [(sig, -1, [[e["text"] for e in pp] for pp in per_page], [[x[0] for x in pg] for pg in pages], "number of glyphs per page")], ("count", tuple(len(pg) for pg in pages))
    viol = []
    i = -1
    for k in range(npages):
        px, py = Fraction(X0), Fraction(Y0)
        for e, x in zip(per_page[k], pages[k]):
            i += 1
            vert = e.get("vert", vertical)
            if e.get("shift"):
                # numbers of a TJ array since the previous glyph: the pen moves back by n/1000 * Tfs along the
                # writing direction (ISO 32000-1 9.4.4: tx = (w0 - Tj/1000) Tfs, ty = (w1 - Tj/1000) Tfs)
                if vert:
                    py -= Fraction(e["shift"]) * FS / 1000
                else:
                    px -= Fraction(e["shift"]) * FS / 1000
            text, adv, m, bbox = x[0], x[1], x[2], x[3]
            if text != e["text"]:
                viol.append(((classify("text", e, text) if classify else None) or f"{sigbase}:text:{e.get('tag','')}", i, e["text"], text, f"text of glyph {i} ({e.get('note','')})"))
            if not R.close(adv, e["adv"]):
                viol.append(((classify("adv", e, adv) if classify else None) or f"{sigbase}:advance:{e.get('wtag','')}", i, float(e["adv"]), adv, f"advance of glyph {i} ({e.get('note','')})"))
            if not (R.close(m[4], px) and R.close(m[5], py)):
                viol.append(((classify("pen", e, (m[4], m[5])) if classify else None) or f"{sigbase}:pen-position", i, (float(px), float(py)), (m[4], m[5]), f"pen position of glyph {i}"))
            if vert and e.get("vx") is not None and not R.close(bbox[0], px - e["vx"] * FS / 1000):
                viol.append(((classify("vx", e, bbox[0]) if classify else None) or f"{sigbase}:vertical-origin-x", i, float(px - e["vx"] * FS / 1000), bbox[0], f"x0 of glyph {i} (position vector vx={e['vx']})"))
            if vert:
                py += e["adv"] + Fraction(e.get("after", 0))
            else:
                px += e["adv"] + Fraction(e.get("after", 0))
    return viol, tuple((x[0], round(x[1], 6)) for pg in pages for x in pg)


TAG_KINDS = ("tou", "fb", "coll", "onebyte", "ttf", "c2g")  # documents also read through the TagExtractor device


def tag_text(pdf: bytes) -> str:
    """The text the tag-output device (pdf2txt -t tag) writes for the document, page tags removed."""
    import io
    import re

    from pdfminer.pdfdevice import TagExtractor
    from pdfminer.pdfdocument import PDFDocument
    from pdfminer.pdfinterp import PDFPageInterpreter, PDFResourceManager
    from pdfminer.pdfpage import PDFPage
    from pdfminer.pdfparser import PDFParser

    out = io.BytesIO()
    rm = PDFResourceManager()
    dev = TagExtractor(rm, out, codec="utf-8")
    ip = PDFPageInterpreter(rm, dev)
    for page in PDFPage.create_pages(PDFDocument(PDFParser(io.BytesIO(pdf)))):
        ip.process_page(page)
    return re.sub(r"<page [^>]*>|</page>\n", "", out.getvalue().decode("utf-8"))


def compare_tag(pdf: bytes, expected):
    """The tag device reports, per shown string, the text of every code that has one (codes without are skipped)."""
    want = "".join(e["text"] for e in expected if not (e["text"].startswith("(cid:") and e["text"].endswith(")")))
    want = want.replace("&", "&amp;").replace("<", "&lt;").replace(">", "&gt;").replace('"', "&quot;")
    try:
        got = tag_text(pdf)
    except Exception as e:  # noqa
        return [("C07/tag-output-exception:" + exc_sig(e), -2, want, f"{type(e).__name__}: {e}", "tag-output device raised")]
    if got != want:
        return [("C07/tag-output-text", -2, want, got, "text written by the tag-output device (TagExtractor)")]
    return []


def record_doc(st, fam: str, key, pdf: bytes, expected, vertical: bool, sigbase: str, desc: Dict[str, Any], classify=None) -> None:
    viol, outcome = compare_doc(pdf, expected, vertical, sigbase, classify)
    if fam in TAG_KINDS and not (viol and viol[0][1] == -1) and (fam != "tou" or key[1] == "canonical"):
        viol = viol + compare_tag(pdf, expected)
        st.add("documents_also_read_through_tag_device", 1)
    st.traces += 1
    nt = any(not e["text"].startswith("(cid:") for e in expected) or any(e["adv"] != FS for e in expected)
    st.case((fam, key), nontrivial=nt, outcome=outcome)
    for sig, i, exp, ob, what in viol:
        if st.viol_counts[sig] >= st.MAX_VIOL_PER_SIG:
            st.viol_counts[sig] += 1  # counted, not stored
            continue
        st.violation(sig, {"family": "doc", "sub": fam, "desc": desc, "pdf": pdf, "vertical": vertical, "sigbase": sigbase, "index": i,
                           "expected": [[e["text"], e["adv"], e.get("vx"), e.get("tag", ""), e.get("wtag", ""), e.get("note", ""), e.get("vert"), e.get("page", 0), e.get("shift", 0), e.get("after", 0), e.get("mixed")] for e in expected]}, exp, ob, what)


# ------------------------------------------------------------------ tou family
def u16(s: str) -> bytes:
    return s.encode("utf-16-be")


def hx(b: bytes, lower: bool = False) -> bytes:
    h = b.hex() if lower else b.hex().upper()
    return b"<" + h.encode() + b">"


# pool entries: (kind, ...) with 2-byte sources; sources are unique over the pool
TOU_POOL = [
    ("char", b"\x00\x41", "X"),
    ("char", b"\x00\x42", "ffi"),
    ("char", b"\x00\x43", "\U0001f600"),
    ("range", b"\x00\xfe", b"\x01\x01", "a"),  # source carries across the low byte
    ("array", b"\x02\x00", b"\x02\x02", ["X", "YY", "\U0001f600"]),
    ("range", b"\x03\x00", b"\x03\x02", "\U0001f600"),  # low surrogate increments
    ("range", b"\x04\x00", b"\x04\x02", "fAB"),  # three-unit target (longer than the four incremented bytes): last unit increments
    ("range", b"\x05\xff", b"\x06\x00", "ヿ"),  # target carries across a byte (30FF -> 3100)
    ("char", b"\x00\x20", " "),
]
TOU_SPELLINGS = ["canonical", "comments", "no-begincmap", "one-block-per-kind", "lowercase-hex", "section-per-entry", "malformed-neighbours"]
TOU_ENCODINGS = [("Identity-H", "name"), ("Identity-V", "name"), ("DLIdent-H", "name"), ("Identity-H", "stream"), ("DLIdent-V", "name"), ("Identity-V", "stream")]


def tou_model(entries) -> Dict[bytes, str]:
    m: Dict[bytes, str] = {}
    for e in entries:
        if e[0] == "char":
            m[e[1]] = e[2]
        else:
            lo, hi = int.from_bytes(e[1], "big"), int.from_bytes(e[2], "big")
            for i, c in enumerate(range(lo, hi + 1)):
                code = c.to_bytes(len(e[1]), "big")
                if e[0] == "array":
                    m[code] = e[3][i]
                else:
                    units = bytearray(u16(e[3]))
                    v = int.from_bytes(units[-2:], "big") + i
                    units[-2:] = (v & 0xFFFF).to_bytes(2, "big")
                    m[code] = bytes(units).decode("utf-16-be")
    return m


def tou_stream(entries, spelling: str, codespace=((b"\x00\x00", b"\xff\xff"),)) -> bytes:
    if spelling == "section-per-entry":
        # several complete begincmap .. endcmap sections in one stream (a map with supplements appended)
        return b"".join(tou_stream([e], "canonical", codespace) for e in entries) if entries else tou_stream([], "canonical", codespace)
    lower = spelling == "lowercase-hex"
    cm = spelling == "comments"
    out = bytearray()
    if spelling != "no-begincmap":
        out += b"/CIDInit /ProcSet findresource begin\n12 dict begin\nbegincmap\n"
    out += b"/CIDSystemInfo << /Registry (Adobe) /Ordering (UCS) /Supplement 0 >> def\n/CMapName /Adobe-Identity-UCS def\n/CMapType 2 def\n"
    if cm:
        out += b"% a comment with keywords endcmap beginbfchar <0041> <0058>\n"
    out += b"%d begincodespacerange\n" % len(codespace) + b"".join(hx(a, lower) + b" " + hx(b, lower) + b"\n" for a, b in codespace) + b"endcodespacerange\n"

    def line(e) -> bytes:
        if e[0] == "char":
            return hx(e[1], lower) + b" " + hx(u16(e[2]), lower) + (b" % c\n" if cm else b"\n")
        if e[0] == "array":
            return hx(e[1], lower) + b" " + hx(e[2], lower) + b" [" + b" ".join(hx(u16(t), lower) for t in e[3]) + b"]\n"
        return hx(e[1], lower) + (b"\t" if lower else b" ") + hx(e[2], lower) + b" " + hx(u16(e[3]), lower) + b"\n"

    if spelling == "malformed-neighbours":
        # every block also holds malformed entries (on codes that are never shown) before, between and after the
        # well-formed ones: a malformed entry is skipped, its neighbours in the block still count
        bad_r = [b"<F0> <00F1> <0041>\n", b"61680 <F0F1> <0042>\n", b"<F0F2> /x <0043>\n", b"<F0F3> <F0F5> [<0044>]\n"]
        bad_c = [b"<F0F6> 5\n", b"61687 <0045>\n", b"<F0F8> /y\n"]
        chars = [e for e in entries if e[0] == "char"]
        ranges = [e for e in entries if e[0] != "char"]
        body = [bad_r[0]]
        for k, e in enumerate(ranges):
            body += [line(e), bad_r[(k + 1) % len(bad_r)]]
        out += b"%d beginbfrange\n" % len(body) + b"".join(body) + b"endbfrange\n"
        body = [bad_c[0]]
        for k, e in enumerate(chars):
            body += [line(e), bad_c[(k + 1) % len(bad_c)]]
        out += b"%d beginbfchar\n" % len(body) + b"".join(body) + b"endbfchar\n"
    elif spelling == "one-block-per-kind":
        chars = [e for e in entries if e[0] == "char"]
        ranges = [e for e in entries if e[0] != "char"]
        if ranges:
            out += b"%d beginbfrange\n" % len(ranges) + b"".join(line(e) for e in ranges) + b"endbfrange\n"
        if chars:
            out += b"%d beginbfchar\n" % len(chars) + b"".join(line(e) for e in chars) + b"endbfchar\n"
    else:
        for e in entries:
            kw = b"bfchar" if e[0] == "char" else b"bfrange"
            out += b"1 begin" + kw + b"\n" + line(e) + b"end" + kw + b"\n"
    if spelling != "no-begincmap":
        out += b"endcmap\nCMapName currentdict /CMap defineresource pop\nend\nend\n"
    return bytes(out)


def tou_cases(tier: str):
    k = BOUNDS[tier]["tou_entries"]
    idx = range(len(TOU_POOL))
    for r in range(0, k + 1):
        for sub in itertools.combinations(idx, r):
            for sp in TOU_SPELLINGS:
                for enc in TOU_ENCODINGS:
                    yield sub, sp, enc


def tou_codes() -> List[bytes]:
    codes = []
    for e in TOU_POOL:
        if e[0] == "char":
            codes.append(e[1])
        else:
            lo, hi = int.from_bytes(e[1], "big"), int.from_bytes(e[2], "big")
            codes += [c.to_bytes(2, "big") for c in range(lo, hi + 1)]
    codes += [b"\x00\x44", b"\x01\x02", b"\xff\xff", b"\x00\x00"]
    return codes


def build_tou(sub, sp, enc):
    entries = [TOU_POOL[i] for i in sub]
    m = tou_model(entries)
    codes = tou_codes()
    vertical = is_vertical_name(enc[0])
    exp = []
    for c in codes:
        cid = int.from_bytes(c, "big")
        exp.append({"text": m.get(c, "(cid:%d)" % cid), "adv": Fraction(-FS if vertical else FS), "tag": "tounicode" if c in m else "unmapped", "note": f"code {c.hex()}"})
    half = len(codes) // 2
    pdf = type0_doc(enc[0], [b"".join(codes[:half]), b"".join(codes[half:])], tou=tou_stream(entries, sp), enc_spelling=enc[1])
    return pdf, exp, vertical


# ToUnicode over predefined (non-identity) CMaps: the map is keyed by character code, not by CID
TOU_PREDEF = [
    ("90ms-RKSJ-H", ("Adobe", "Japan1", 2), [("char", b"\x41", "X"), ("char", b"\x88\x9f", "Y"), ("range", b"\x42", b"\x44", "b"), ("range", b"\x88\xa0", b"\x88\xa2", "㐀")],
     [b"\x41", b"\x88\x9f", b"\x42", b"\x43", b"\x44", b"\x88\xa0", b"\x88\xa1", b"\x88\xa2"], ((b"\x00", b"\x80"), (b"\x81\x40", b"\x9f\xfc"))),
    ("UniJIS-UTF16-H", ("Adobe", "Japan1", 2), [("char", b"\x00\x41", "X"), ("range", b"\x4e\x00", b"\x4e\x01", "㐀")],
     [b"\x00\x41", b"\x4e\x00", b"\x4e\x01"], ((b"\x00\x00", b"\xd7\xff"),)),
    ("UniJIS-UTF32-H", ("Adobe", "Japan1", 2), [("char", b"\x00\x00\x00\x41", "X"), ("range", b"\x00\x00\x4e\x00", b"\x00\x00\x4e\x01", "㐀")],
     [b"\x00\x00\x00\x41", b"\x00\x00\x4e\x00", b"\x00\x00\x4e\x01"], ((b"\x00\x00\x00\x00", b"\x00\x10\xff\xff"),)),
    ("UniJIS-UTF8-H", ("Adobe", "Japan1", 2), [("char", b"\x41", "X"), ("char", b"\xe4\xb8\x80", "Y")],
     [b"\x41", b"\xe4\xb8\x80"], ((b"\x00", b"\x7f"), (b"\xe0\x80\x80", b"\xef\xbf\xbf"))),
    ("GBK-EUC-H", ("Adobe", "GB1", 2), [("char", b"\x41", "X"), ("char", b"\xb0\xa1", "Y")], [b"\x41", b"\xb0\xa1"], ((b"\x00", b"\x80"), (b"\x81\x40", b"\xfe\xfe"))),
]


def build_tou_predef(i: int):
    enc, ros, entries, codes, cs = TOU_PREDEF[i]
    m = tou_model(entries)
    exp = []
    for c in codes:
        cids, whole = ref_decode(enc, c)
        assert whole and len(cids) == 1, (enc, c)
        exp.append({"text": m[c], "adv": Fraction(FS), "tag": "tounicode-by-code", "note": f"code {c.hex()} cid {cids[0]}"})
    pdf = type0_doc(enc, [b"".join(codes)], ros=ros, tou=tou_stream(entries, "canonical", cs), sub="CIDFontType0")
    return pdf, exp, False


def classify_tou_predef(kind, e, got):
    if kind == "text":
        return "C07/tounicode-keyed-by-cid-not-code"
    return None


# ------------------------------------------------------------------ w family
def W_POOL(base: int):
    b = base
    return [
        ("list", b + 1, [500, 600, 700]),
        ("range", b + 2, b + 4, 250),
        ("list", b + 3, [125]),
        ("range", b + 10, b + 12, ("ref", 300)),
        ("reflist", b + 5, [111, 222]),
        ("range", b + 4, b + 4, Fraction(1501, 2)),
        ("list", b + 0, [900]),
        ("range", b + 8, b + 9, 0),
        ("range", 65533, 65535, 375),  # the range form up to the last CID (absolute, whatever the base)
    ]


def w_model(items) -> Dict[int, Fraction]:
    m: Dict[int, Fraction] = {}
    for it in items:
        if it[0] in ("list", "reflist"):
            for i, w in enumerate(it[2]):
                m[it[1] + i] = Fraction(w)
        else:
            w = it[3][1] if isinstance(it[3], tuple) else it[3]
            for c in range(it[1], it[2] + 1):
                m[c] = Fraction(w)
    return m


def w_array(doc: Doc, items) -> list:
    out: list = []
    for it in items:
        if it[0] == "list":
            out += [it[1], list(it[2])]
        elif it[0] == "reflist":
            out += [it[1], doc.add(list(it[2]))]
        else:
            w = doc.add(it[3][1]) if isinstance(it[3], tuple) else it[3]
            out += [it[1], it[2], w]
    return out


W_ENCODINGS = [("Identity-H", 0), ("90ms-RKSJ-H", 263)]  # (CMap, cid base): 90ms-RKSJ-H maps 0x41.. to CID 264..
DWS = [None, 500]


def w_cases(tier: str):
    k = BOUNDS[tier]["w_items"]
    n = len(W_POOL(0))
    for r in range(0, k + 1):
        if r <= 3:
            seqs = itertools.permutations(range(n), r)
        else:
            seqs = itertools.combinations(range(n), r)  # beyond three items: one order per subset
        for seq in seqs:
            for dw in DWS:
                for enc in range(len(W_ENCODINGS)):
                    yield ("h", tuple(seq), dw, enc)


def build_w(seq, dw, enci):
    enc, base = W_ENCODINGS[enci]
    pool = W_POOL(base)
    items = [pool[i] for i in seq]
    m = w_model(items)
    doc = Doc()
    extra: Dict[str, Any] = {}
    if items:
        extra["W"] = w_array(doc, items)
    if dw is not None:
        extra["DW"] = dw
    default = Fraction(1000 if dw is None else dw)
    if enc == "Identity-H":
        cids = list(range(0, 14)) + [0xFFFC, 0xFFFD, 0xFFFE, 0xFFFF]
        codes = [c.to_bytes(2, "big") for c in cids]
        ros = ("Adobe", "Identity", 0)
    else:
        codes = [bytes((0x40 + i,)) for i in range(0, 14)] + [b"\x88\x9f"]
        cids = [ref_decode(enc, c)[0][0] for c in codes]
        assert cids[1] == base + 1, cids
        ros = ("Adobe", "Japan1", 2)
    umap = None
    if enc != "Identity-H":
        umap = load_pickle("to-unicode-Adobe-Japan1")["CID2UNICHR_H"]
    exp = []
    for c, cid in zip(codes, cids):
        w = m.get(cid, default)
        text = "(cid:%d)" % cid if umap is None else umap.get(cid, "(cid:%d)" % cid)
        exp.append({"text": text, "adv": w * FS / 1000, "tag": "collection" if umap else "none", "wtag": ("W" if cid in m else "DW"), "note": f"cid {cid}"})
    pdf = type0_doc(enc, [b"".join(codes)], ros=ros, extra=extra, doc=doc, sub="CIDFontType0" if umap else "CIDFontType2")
    return pdf, exp, False


# vertical
def W2_POOL():
    return [
        ("list", 1, [(-500, 250, 800), (-600, 260, 810)]),
        ("range", 2, 4, (-700, 300, 900)),
        ("list", 3, [(-125, 10, 20)]),
        ("reflist", 5, [(-111, 400, 700), (-222, 410, 710)]),
        ("range", 6, 7, (("ref", -300), 320, 720)),
        ("range", 0, 0, (-900, 500, 880)),
        ("range", 65534, 65535, (-800, 310, 910)),  # up to the last CID
    ]


V_ENCODINGS = ["Identity-V", "UniJIS-UTF16-V", "DLIdent-V"]
DW2S = [None, (800, -900)]


def w2_cases(tier: str):
    k = BOUNDS[tier]["w_items"]
    n = len(W2_POOL())
    for r in range(0, min(k, 3) + 1):
        for seq in itertools.permutations(range(n), r):
            for dw2 in range(len(DW2S)):
                for enc in range(len(V_ENCODINGS)):
                    yield ("v", tuple(seq), dw2, enc)


def build_w2(seq, dw2i, enci):
    enc = V_ENCODINGS[enci]
    pool = W2_POOL()
    items = [pool[i] for i in seq]
    m: Dict[int, Tuple[Fraction, Fraction, Fraction]] = {}
    doc = Doc()
    arr: list = []
    for it in items:
        if it[0] in ("list", "reflist"):
            flat = [x for t in it[2] for x in t]
            arr += [it[1], flat if it[0] == "list" else doc.add(flat)]
            for i, t in enumerate(it[2]):
                m[it[1] + i] = tuple(Fraction(x) for x in t)
        else:
            w = it[3][0]
            wv = w[1] if isinstance(w, tuple) else w
            arr += [it[1], it[2], doc.add(wv) if isinstance(w, tuple) else wv, it[3][1], it[3][2]]
            for c in range(it[1], it[2] + 1):
                m[c] = (Fraction(wv), Fraction(it[3][1]), Fraction(it[3][2]))
    extra: Dict[str, Any] = {"W": [0, [250, 300, 350]], "DW": 600}  # horizontal metrics must not be used
    if items:
        extra["W2"] = arr
    dw2 = DW2S[dw2i]
    if dw2 is not None:
        extra["DW2"] = list(dw2)
    dvy, dw1 = dw2 if dw2 is not None else (880, -1000)
    cids = list(range(0, 9))
    if enc in ("Identity-V", "DLIdent-V"):
        cids += [0xFFFD, 0xFFFE, 0xFFFF]
        codes = [c.to_bytes(2, "big") for c in cids]
        ros = ("Adobe", "Identity", 0)
        umap = None
    else:
        # Adobe-Japan1 CIDs 1..8 are reached from U+0020.. in UniJIS-UTF16; pick the codes by the reference table
        flat, _ = flat_codes(enc)
        by_cid: Dict[int, bytes] = {}
        for code, cid in flat.items():
            if cid in cids and (cid not in by_cid or (len(code), code) < (len(by_cid[cid]), by_cid[cid])):
                by_cid[cid] = code
        cids = [c for c in cids if c in by_cid]
        codes = [by_cid[c] for c in cids]
        ros = ("Adobe", "Japan1", 2)
        umap = load_pickle("to-unicode-Adobe-Japan1")["CID2UNICHR_V"]
    exp = []
    for cid in cids:
        w1, vx, vy = m.get(cid, (Fraction(dw1), None, None))
        text = "(cid:%d)" % cid if umap is None else umap.get(cid, "(cid:%d)" % cid)
        exp.append({"text": text, "adv": w1 * FS / 1000, "vx": vx, "wtag": "W2" if cid in m else "DW2", "tag": "collection" if umap else "none", "note": f"cid {cid}"})
    pdf = type0_doc(enc, [b"".join(codes)], ros=ros, extra=extra, doc=doc, sub="CIDFontType0" if umap else "CIDFontType2")
    return pdf, exp, True


def make_classify_w2(seq):
    indirect = any(W2_POOL()[i][0] == "reflist" or (W2_POOL()[i][0] == "range" and isinstance(W2_POOL()[i][3][0], tuple)) for i in seq)

    def classify(kind, e, got):
        # (on the snapshot an indirect W2 element was skipped and misaligned everything parsed after it; repaired in
        # /repo by f1a1840 -- keep the generic signatures, only tag the advance ones)
        return f"C07/widths2:{kind}:with-indirect-element" if indirect and kind in ("adv", "pen") else None

    return classify


# ------------------------------------------------------------------ W / W2 at the boundary CIDs
WB_CIDS = [0, 1, 255, 256, 65534, 65535]
WB_FORMS = ["list-starts", "list-ends", "range-starts", "range-ends", "range-single", "range-to-70000"]


def wbound_cases():
    for b in WB_CIDS:
        for form in WB_FORMS:
            for v in (False, True):
                yield ("wbound", b, form, v)


def build_wbound(b: int, form: str, vertical: bool):
    """One W (W2) entry whose first or last CID is b; the CIDs around b are shown."""
    lo = max(b - 1, 0)
    hi = min(b + 1, 65535)
    m: Dict[int, int] = {}
    if form == "list-starts":
        n = hi - b + 1
        ws = [300 + 10 * i for i in range(n)]
        item = ("list", b, ws)
        m = {b + i: w for i, w in enumerate(ws)}
    elif form == "list-ends":
        ws = [300 + 10 * i for i in range(b - lo + 1)]
        item = ("list", lo, ws)
        m = {lo + i: w for i, w in enumerate(ws)}
    elif form == "range-starts":
        item = ("range", b, hi, 450)
        m = {c: 450 for c in range(b, hi + 1)}
    elif form == "range-ends":
        item = ("range", lo, b, 450)
        m = {c: 450 for c in range(lo, b + 1)}
    elif form == "range-single":
        item = ("range", b, b, 450)
        m = {b: 450}
    else:
        item = ("range", b, 70000, 450)  # a last CID beyond the 16-bit CID space covers everything up to 65535
        m = {c: 450 for c in range(b, min(b + 3, 65536))}
        m[65535] = 450
    shown = sorted({lo, b, hi, 65535} | ({b + 2} if b + 2 <= 65535 else set()))
    if form != "range-to-70000":
        shown = sorted({lo, b, hi} | ({b + 2} if b + 2 <= 65535 else set()) | ({b - 2} if b >= 2 else set()))
    extra: Dict[str, Any] = {}
    if vertical:
        if item[0] == "list":
            extra["W2"] = [item[1], [x for w in item[2] for x in (-w, 250, 800)]]
        else:
            extra["W2"] = [item[1], item[2], -item[3], 250, 800]
        extra["DW2"] = [880, -600]
        exp = [{"text": "(cid:%d)" % c, "adv": Fraction(-m[c] if c in m else -600) * FS / 1000, "vx": Fraction(250) if c in m else None, "vert": True,
                "wtag": "W2-boundary" if c in m else "DW2", "note": f"cid {c}"} for c in shown]
    else:
        extra["W"] = [item[1], list(item[2])] if item[0] == "list" else [item[1], item[2], item[3]]
        extra["DW"] = 600
        exp = [{"text": "(cid:%d)" % c, "adv": Fraction(m.get(c, 600)) * FS / 1000, "wtag": "W-boundary" if c in m else "DW", "note": f"cid {c}"} for c in shown]
    pdf = type0_doc("Identity-V" if vertical else "Identity-H", [b"".join(c.to_bytes(2, "big") for c in shown)], extra=extra)
    return pdf, exp, vertical


# ------------------------------------------------------------------ ttf family
def ttf_fmt0(mapping: Dict[int, int]) -> bytes:
    arr = bytes(mapping.get(c, 0) for c in range(256))
    return struct.pack(">HHH", 0, 262, 0) + arr


def ttf_fmt4(segs) -> bytes:
    """segs: ascending (start, end, mode, g): mode 'delta' (g = gid of start) | 'array' (g = list of gids)."""
    segs = list(segs) + [(0xFFFF, 0xFFFF, "last", 0)]
    n = len(segs)
    ends = [e for _, e, _, _ in segs]
    starts = [s for s, _, _, _ in segs]
    deltas, ros, garr = [], [], []
    for i, (s, e, mode, g) in enumerate(segs):
        if mode == "last":
            deltas.append(1)
            ros.append(0)
        elif mode == "delta":
            deltas.append((g - s) & 0xFFFF)
            ros.append(0)
        else:
            dl = getattr(g, "delta", 0)
            deltas.append(dl & 0xFFFF)
            ros.append(2 * (n - i) + 2 * len(garr))  # from &idRangeOffset[i] to the glyph's slot in glyphIdArray
            garr += [(x - dl) & 0xFFFF for x in g]
    body = (struct.pack(">HHHH", n * 2, 0, 0, 0) + struct.pack(">%dH" % n, *ends) + b"\0\0" + struct.pack(">%dH" % n, *starts)
            + struct.pack(">%dH" % n, *deltas) + struct.pack(">%dH" % n, *ros) + struct.pack(">%dH" % len(garr), *garr))
    return struct.pack(">HHH", 4, 6 + len(body), 0) + body


def ttf_fmt12(groups) -> bytes:
    body = struct.pack(">L", len(groups)) + b"".join(struct.pack(">LLL", *g) for g in groups)
    return struct.pack(">HHLL", 12, 0, 12 + len(body), 0) + body


def ttf_file(subtables) -> bytes:
    hdr = struct.pack(">HH", 0, len(subtables))
    off = 4 + 8 * len(subtables)
    recs, data = b"", b""
    for pid, eid, tab in subtables:
        recs += struct.pack(">HHL", pid, eid, off + len(data))
        data += tab
    cmap = hdr + recs + data
    # table directory with a single 'cmap' table (pdfminer reads nothing else)
    return b"\x00\x01\x00\x00" + struct.pack(">HHHH", 1, 16, 0, 0) + struct.pack(">4sLLL", b"cmap", 0, 28, len(cmap)) + cmap


class DeltaGids(list):
    """glyph ids of an 'array' segment that also carries a non-zero idDelta: glyphIdArray holds (gid - idDelta) mod
    65536 and the reader adds idDelta modulo 65536 (OpenType cmap format 4)."""

    delta = 0


def _delta_gids(gids, delta):
    g = DeltaGids(gids)
    g.delta = delta
    return g


SEG_POOL = [
    (0x0041, 0x0043, "delta", 5),
    (0x0061, 0x0063, "array", [9, 10, 11]),
    (0x00C0, 0x00C2, "array", _delta_gids([61, 62, 50], 100)),  # stored 0xFFD9, 0xFFDA, 0xFFCE: the sum wraps
    (0x3042, 0x3044, "delta", 20),
    (0x4E00, 0x4E01, "array", [31, 30]),
    (0xFF21, 0xFF22, "delta", 40),
]
TTF_LAYOUTS = ["ms-unicode", "unicode-platform", "mac-decoy-first", "symbol-decoy", "ucs4-extra", "format0-unicode-platform"]


def seg_map(segs) -> Dict[int, int]:
    m: Dict[int, int] = {}
    for s, e, mode, g in segs:
        for i, c in enumerate(range(s, e + 1)):
            m[c] = (g + i) if mode == "delta" else g[i]
    return m


def ttf_cases():
    n = len(SEG_POOL)
    for r in range(1, n + 1):
        for sub in itertools.combinations(range(n), r):
            for lay in TTF_LAYOUTS[:5]:
                yield ("ttf", sub, lay)
    yield ("ttf", (), "format0-unicode-platform")


def build_ttf(sub, lay):
    segs = [SEG_POOL[i] for i in sub]
    c2g = seg_map(segs)
    decoy = ttf_fmt0({c: 200 + (c % 50) for c in range(32, 127)})
    if lay == "ms-unicode":
        tabs = [(3, 1, ttf_fmt4(segs))]
    elif lay == "unicode-platform":
        tabs = [(0, 3, ttf_fmt4(segs))]
    elif lay == "mac-decoy-first":
        tabs = [(1, 0, decoy), (3, 1, ttf_fmt4(segs))]
    elif lay == "symbol-decoy":
        tabs = [(3, 0, ttf_fmt4([(0xF041, 0xF043, "delta", 100)])), (3, 1, ttf_fmt4(segs))]
    elif lay == "ucs4-extra":
        groups = []
        for s, e, mode, g in segs:
            if mode == "delta":
                groups.append((s, e, g))
            else:
                groups += [(s + i, s + i, gg) for i, gg in enumerate(g)]
        groups.append((0x1F600, 0x1F600, 60))
        tabs = [(3, 1, ttf_fmt4(segs)), (3, 10, ttf_fmt12(groups))]
        c2g = dict(c2g)
        c2g[0x1F600] = 60
    else:
        c2g = {0x41: 5, 0x42: 6, 0xE9: 7}
        tabs = [(0, 3, ttf_fmt0(c2g))]
    g2c = {g: c for c, g in c2g.items()}
    assert len(g2c) == len(c2g)
    gids = sorted(g2c) + [3, 150, 100, 232]  # 100.. / 232: targets of the symbol and Macintosh decoy subtables
    exp = []
    for gid in gids:
        astral = gid in g2c and g2c[gid] > 0xFFFF
        exp.append({"text": chr(g2c[gid]) if gid in g2c else "(cid:%d)" % gid, "adv": Fraction(FS), "tag": ("cmap12" if astral else "cmap") if gid in g2c else "unmapped",
                    "note": f"gid {gid}" + (f" <- U+{g2c[gid]:04X}" if gid in g2c else "")})
    pdf = type0_doc("Identity-H", [b"".join(g.to_bytes(2, "big") for g in gids)], ff2=ttf_file(tabs))
    return pdf, exp, False, segs


def make_classify_ttf(sub, lay):
    segs = [SEG_POOL[i] for i in sub]

    def classify(kind, e, got):
        if kind != "text":
            return None
        if e.get("tag") == "cmap12":
            return "C07/truetype-cmap-format12-ignored"
        # an 'array' segment that is not the first segment of its table
        for i, (s, en, mode, g) in enumerate(segs):
            if mode == "array" and i > 0:
                return "C07/truetype-cmap4-idRangeOffset-base"
        return None

    return classify


# ------------------------------------------------------------------ coll family
COLL_SAMPLE = {"Adobe-Japan1": "あア亜一", "Adobe-GB1": "啊一丁", "Adobe-CNS1": "一丁乙", "Adobe-Korea1": "가각一"}


def coll_cases():
    for cm, codec, coll, _ in CODEC_PAIRS:
        yield ("coll", cm, codec, coll)
        v = cm[:-2] + "-V"
        if os.path.exists(os.path.join(cmap_dir(), v + ".pickle.gz")):
            yield ("coll", v, codec, coll)


def build_coll(cm, codec, coll):
    vertical = is_vertical_name(cm)
    s = COLL_SAMPLE[coll] + "A （）「」"  # brackets: their vertical CIDs differ, the text must not
    codes = [ch.encode(codec) for ch in s]
    flat, _ = flat_codes(cm)
    exp = []
    keep = []
    for ch, c in zip(s, codes):
        if c in flat:
            keep.append(c)
            exp.append({"text": ch, "adv": Fraction(-FS if vertical else FS), "tag": "collection", "note": f"code {c.hex()} cid {flat[c]}"})
    reg, order = coll.split("-")
    pdf = type0_doc(cm, [b"".join(keep)], ros=(reg, order, 2), sub="CIDFontType0")
    return pdf, exp, vertical


# one-byte identity CMaps: ToUnicode with one-byte sources, W / W2 keyed by the byte value
def onebyte_cases():
    for enc in ("OneByteIdentityH", "OneByteIdentityV"):
        for tou in (False, True):
            for w in (False, True):
                yield ("onebyte", enc, tou, w)


def build_onebyte(enc, with_tou, with_w):
    vertical = is_vertical_name(enc)
    entries = [("char", b"\x41", "X"), ("range", b"\x80", b"\x82", "Ā"), ("array", b"\xfe", b"\xff", ["YZ", "\U0001f600"])]
    m = tou_model(entries) if with_tou else {}
    codes = [b"\x41", b"\x42", b"\x80", b"\x81", b"\x82", b"\xfe", b"\xff", b"\x00"]
    extra: Dict[str, Any] = {}
    wm: Dict[int, Fraction] = {}
    vxm: Dict[int, Fraction] = {}
    if with_w and not vertical:
        extra = {"W": [0x41, [300], 0x80, 0x81, 700], "DW": 400}
        wm = {0x41: Fraction(300), 0x80: Fraction(700), 0x81: Fraction(700)}
    elif with_w:
        extra = {"W2": [0x41, [-300, 250, 800], 0x80, 0x81, -700, 260, 810], "DW2": [800, -900]}
        wm = {0x41: Fraction(-300), 0x80: Fraction(-700), 0x81: Fraction(-700)}
        vxm = {0x41: Fraction(250), 0x80: Fraction(260), 0x81: Fraction(260)}
    default = Fraction(-1000 if vertical else 1000)
    if with_w:
        default = Fraction(-900 if vertical else 400)
    exp = []
    for c in codes:
        cid = c[0]
        exp.append({"text": m.get(c, "(cid:%d)" % cid), "adv": wm.get(cid, default) * FS / 1000, "vx": vxm.get(cid), "tag": "tounicode" if c in m else "unmapped",
                    "wtag": "W" if cid in wm else "DW", "note": f"code {c.hex()}"})
    pdf = type0_doc(enc, [b"".join(codes)], tou=tou_stream(entries, "canonical", ((b"\x00", b"\xff"),)) if with_tou else None, extra=extra)
    return pdf, exp, vertical


# ------------------------------------------------------------------ several composite fonts in one document
def pages_doc(doc: Doc, fonts_per_page: List[Dict[str, Ref]], shows_per_page: List[List[Tuple[str, bytes]]]) -> bytes:
    """A document with one page per entry; each page lists its fonts (in load order) and shows (font, string) pairs."""
    cat = doc.reserve()
    pages = doc.reserve()
    kids = []
    for fonts, shows in zip(fonts_per_page, shows_per_page):
        content = b"BT 16 700 Td " + b" ".join(b"/%s %d Tf %s Tj" % (k.encode(), FS, ser(HexStr(sv))) for k, sv in shows) + b" ET"
        c = doc.add(Stream({}, content))
        kids.append(doc.add({"Type": N("Page"), "Parent": pages, "MediaBox": [0, 0, 612, 792], "Resources": {"Font": dict(fonts)}, "Contents": c}))
    doc.set(cat, {"Type": N("Catalog"), "Pages": pages})
    doc.set(pages, {"Type": N("Pages"), "Kids": kids, "Count": len(kids)})
    return doc.write(cat)


def descendant_obj(doc: Doc, ros, sub: str = "CIDFontType0", ff2: Optional[bytes] = None, stray: Optional[Dict[str, Any]] = None) -> Ref:
    return doc.add({
        "Type": N("Font"), "Subtype": N(sub), "BaseFont": N("ABCDEF+Foo"),
        "CIDSystemInfo": {"Registry": ros[0].encode(), "Ordering": ros[1].encode(), "Supplement": ros[2]},
        "FontDescriptor": cid_descriptor(doc, ff2),
        # keys that mean nothing in a CIDFont dictionary (ISO 32000-1 table 117): the Type0 font's own entries decide
        **(stray or {}),
    })


def type0_obj(doc: Doc, enc: str, desc: Ref, tou: Optional[bytes] = None) -> Ref:
    f: Dict[str, Any] = {"Type": N("Font"), "Subtype": N("Type0"), "BaseFont": N("ABCDEF+Foo"), "Encoding": N(enc), "DescendantFonts": [desc]}
    if tou is not None:
        f["ToUnicode"] = doc.add(Stream({}, tou))
    return doc.add(f)


# (a) an -H and a -V font of one character collection, no ToUnicode, in one document, both load orders.  The
#     collection's Unicode maps are cached process-wide per orientation; brackets and punctuation have distinct
#     vertical CIDs whose text must still be the character itself.
HV_PAIRS = [
    ("90ms-RKSJ", "cp932", "Adobe-Japan1"), ("UniJIS-UTF16", "utf-16-be", "Adobe-Japan1"), ("EUC", "euc_jp", "Adobe-Japan1"),
    ("GBK-EUC", "gbk", "Adobe-GB1"), ("UniGB-UTF16", "utf-16-be", "Adobe-GB1"),
    ("B5pc", "big5", "Adobe-CNS1"), ("UniCNS-UTF16", "utf-16-be", "Adobe-CNS1"),
    ("KSCms-UHC", "cp949", "Adobe-Korea1"), ("UniKS-UTF16", "utf-16-be", "Adobe-Korea1"),
]
HV_SAMPLE = "（）「」、。あ一A"
HV_LAYOUTS = ["h-first", "v-first", "h-first-two-pages", "v-first-two-pages", "h-listed-first-v-shown-first"]


def hv_cases():
    for i in range(len(HV_PAIRS)):
        for lay in HV_LAYOUTS:
            yield ("hv", i, lay)


def build_hv(i: int, lay: str):
    stem, codec, coll = HV_PAIRS[i]
    reg, order = coll.split("-")
    doc = Doc()
    fonts = {}
    strings = {}
    exps = {}
    for key, name, vert in (("FH", stem + "-H", False), ("FV", stem + "-V", True)):
        flat, _ = flat_codes(name)
        codes = []
        ex = []
        for ch in HV_SAMPLE:
            try:
                c = ch.encode(codec)
            except UnicodeEncodeError:
                continue
            if c in flat:
                codes.append(c)
                ex.append({"text": ch, "adv": Fraction(-FS if vert else FS), "vert": vert, "tag": "collection-" + ("V" if vert else "H"), "note": f"{name} code {c.hex()} cid {flat[c]}"})
        # the descendant carries a stray /Encoding of the other writing mode: it must lose against the Type0 font's own
        fonts[key] = type0_obj(doc, name, descendant_obj(doc, (reg, order, 2), stray={"Encoding": N("Identity-H" if vert else "Identity-V")}))
        strings[key] = b"".join(codes)
        exps[key] = ex
    first, second = ("FH", "FV") if lay.startswith("h-first") else ("FV", "FH")
    if lay.endswith("two-pages"):
        fpp = [{first: fonts[first]}, {second: fonts[second]}]
        spp = [[(first, strings[first])], [(second, strings[second])]]
        exp = [dict(e, page=0) for e in exps[first]] + [dict(e, page=1) for e in exps[second]]
    elif lay == "h-listed-first-v-shown-first":
        fpp = [{"FH": fonts["FH"], "FV": fonts["FV"]}]
        spp = [[("FV", strings["FV"]), ("FH", strings["FH"])]]
        exp = exps["FV"] + exps["FH"]
    else:
        fpp = [{first: fonts[first], second: fonts[second]}]
        spp = [[(first, strings[first]), (second, strings[second])]]
        exp = exps[first] + exps[second]
    return pages_doc(doc, fpp, spp), exp, False


def classify_hv(kind, e, got):
    if kind == "text":
        return "C07/collection-unicode-map-orientation-mixed-up"
    return None


# (b) two Type0 fonts that reference the *same* descendant CIDFont object: one carries a ToUnicode stream, the
#     other does not and must fall back to the character collection / the embedded TrueType cmap.
SHARED_KINDS = ["japan1", "ttf"]
SHARED_LAYOUTS = ["tou-first", "plain-tou-plain", "tou-first-two-pages", "plain-first-two-pages", "tou-listed-first-plain-shown-first"]
SHARED_PLAIN_ENC = ["Identity-H", "Identity-V"]


def shared_cases():
    for kind in SHARED_KINDS:
        for lay in SHARED_LAYOUTS:
            for enc in SHARED_PLAIN_ENC:
                yield ("shared", kind, lay, enc)


def build_shared(kind: str, lay: str, plain_enc: str):
    doc = Doc()
    if kind == "japan1":
        um = load_pickle("to-unicode-Adobe-Japan1")
        inv = {}
        for cid, ch in um["CID2UNICHR_H"].items():
            if ch in "あア亜A" and um["CID2UNICHR_V"].get(cid) == ch:
                inv.setdefault(ch, cid)
        cids = [inv[ch] for ch in "あア亜A"]
        desc = descendant_obj(doc, ("Adobe", "Japan1", 2))
        plain_text = {c: um["CID2UNICHR_V" if is_vertical_name(plain_enc) else "CID2UNICHR_H"][c] for c in cids}
        tag = "collection"
    else:
        ff2 = ttf_file([(3, 1, ttf_fmt4([(0x41, 0x44, "delta", 5)]))])
        cids = [5, 6, 7, 8]
        desc = descendant_obj(doc, ("Adobe", "Identity", 0), sub="CIDFontType2", ff2=ff2)
        plain_text = {5: "A", 6: "B", 7: "C", 8: "D"}
        tag = "truetype-cmap"
    codes = [c.to_bytes(2, "big") for c in cids]
    entries = [("char", c, t) for c, t in zip(codes, ["W", "X", "YY", "Z"])]
    tou = tou_stream(entries, "canonical")
    s = b"".join(codes)
    pv = is_vertical_name(plain_enc)
    e_tou = [{"text": t, "adv": Fraction(FS), "vert": False, "tag": "tounicode", "note": f"font with ToUnicode, cid {c}"} for c, t in zip(cids, ["W", "X", "YY", "Z"])]
    e_plain = [{"text": plain_text[c], "adv": Fraction(-FS if pv else FS), "vert": pv, "tag": tag, "note": f"font without ToUnicode sharing the descendant, cid {c}"} for c in cids]
    ft = type0_obj(doc, "Identity-H", desc, tou)
    fp = type0_obj(doc, plain_enc, desc)
    if lay == "tou-first":
        fpp, spp, exp = [{"FT": ft, "FP": fp}], [[("FT", s), ("FP", s)]], e_tou + e_plain
    elif lay == "plain-tou-plain":
        fp2 = type0_obj(doc, plain_enc, desc)  # a second, separate Type0 object without ToUnicode
        fpp, spp, exp = [{"FP": fp, "FT": ft, "FQ": fp2}], [[("FP", s), ("FT", s), ("FQ", s)]], e_plain + e_tou + e_plain
    elif lay == "tou-first-two-pages":
        fpp, spp = [{"FT": ft}, {"FP": fp}], [[("FT", s)], [("FP", s)]]
        exp = [dict(e, page=0) for e in e_tou] + [dict(e, page=1) for e in e_plain]
    elif lay == "plain-first-two-pages":
        fp2 = type0_obj(doc, plain_enc, desc)
        fpp, spp = [{"FP": fp}, {"FT": ft}, {"FQ": fp2}], [[("FP", s)], [("FT", s)], [("FQ", s)]]
        exp = [dict(e, page=0) for e in e_plain] + [dict(e, page=1) for e in e_tou] + [dict(e, page=2) for e in e_plain]
    else:
        fpp, spp, exp = [{"FT": ft, "FP": fp}], [[("FP", s), ("FT", s)]], e_plain + e_tou
    return pages_doc(doc, fpp, spp), exp, False


def classify_shared(kind, e, got):
    if kind == "text" and e is not None and e.get("tag") != "tounicode" and got in ("W", "X", "YY", "Z"):
        return "C07/shared-descendant-inherits-sibling-ToUnicode"
    if kind in ("adv", "pen") or (kind == "text" and e is not None and e.get("tag") == "tounicode"):
        return "C07/shared-descendant-inherits-sibling-Encoding-or-ToUnicode"
    return None


# ------------------------------------------------------------------ TJ arrays with composite fonts
TJ_FONTS = ["Identity-V", "UniJIS-UTF16-V", "90ms-RKSJ-V", "Identity-H", "90ms-RKSJ-H"]
TJ_CODEC = {"UniJIS-UTF16-V": "utf-16-be", "90ms-RKSJ-V": "cp932", "90ms-RKSJ-H": "cp932"}
TJ_ELEMS = ["S1", "S2", 250, -500]  # S1: two glyphs, S2: one glyph; a positive and a negative adjustment


def tj_cases(tier: str):
    n = BOUNDS[tier]["tj_elements"]
    for r in range(1, n + 1):
        for arr in itertools.product(range(len(TJ_ELEMS)), repeat=r):
            if r == n and all(isinstance(TJ_ELEMS[i], str) for i in arr):
                continue  # longest arrays without any number add nothing
            for f in range(len(TJ_FONTS)):
                for metrics in (0, 1):
                    if r > 3 and (metrics == 1) != (f % 2 == 1):
                        continue  # long arrays: alternate the metrics variant over the fonts
                    yield ("tj", tuple(arr), f, metrics)


def build_tj(arr, fi: int, metrics: int):
    enc = TJ_FONTS[fi]
    vertical = is_vertical_name(enc)
    if enc.startswith("Identity"):
        cids = [1, 2, 3]
        codes = [c.to_bytes(2, "big") for c in cids]
        ros = ("Adobe", "Identity", 0)
        text = {c: "(cid:%d)" % c for c in cids}
    else:
        codes = [ch.encode(TJ_CODEC[enc]) for ch in "あア亜"]
        cids = [ref_decode(enc, c)[0][0] for c in codes]
        ros = ("Adobe", "Japan1", 2)
        um = load_pickle("to-unicode-Adobe-Japan1")["CID2UNICHR_V" if vertical else "CID2UNICHR_H"]
        text = {c: um.get(c, "(cid:%d)" % c) for c in cids}
    extra: Dict[str, Any] = {}
    if vertical:
        w = {c: Fraction(-1000) for c in cids}
        if metrics:
            extra = {"W2": [cids[0], [-500, 250, 800]] + ([cids[1], cids[1], -700, 300, 900] if cids[1] != cids[0] else []), "DW2": [800, -900]}
            w = {cids[0]: Fraction(-500), cids[1]: Fraction(-700), cids[2]: Fraction(-900)}
            if cids[2] in (cids[0], cids[1]):
                raise AssertionError("sample CIDs must be distinct")
    else:
        w = {c: Fraction(1000) for c in cids}
        if metrics:
            extra = {"W": [cids[0], [500], cids[1], cids[1], 700], "DW": 400}
            w = {cids[0]: Fraction(500), cids[1]: Fraction(700), cids[2]: Fraction(400)}
    parts = {"S1": [0, 1], "S2": [2]}
    items = [TJ_ELEMS[i] for i in arr]
    exp = []
    pending = Fraction(0)
    ops = bytearray(b"[")
    for it in items:
        if isinstance(it, str):
            ops += ser(HexStr(b"".join(codes[k] for k in parts[it]))) + b" "
            for k in parts[it]:
                c = cids[k]
                exp.append({"text": text[c], "adv": w[c] * FS / 1000, "shift": pending, "vert": vertical, "tag": "collection" if ros[1] != "Identity" else "none",
                            "wtag": "TJ", "note": f"cid {c} after TJ adjustment {pending}"})
                pending = Fraction(0)
        else:
            ops += b"%d " % it
            pending += it
    ops += b"] TJ "
    # a following string makes a trailing adjustment observable
    ops += b"[" + ser(HexStr(codes[2])) + b"] TJ " + ser(HexStr(codes[0])) + b" Tj"
    exp.append({"text": text[cids[2]], "adv": w[cids[2]] * FS / 1000, "shift": pending, "vert": vertical, "wtag": "TJ", "note": f"first glyph of the next TJ, after trailing adjustment {pending}"})
    exp.append({"text": text[cids[0]], "adv": w[cids[0]] * FS / 1000, "shift": 0, "vert": vertical, "wtag": "TJ", "note": "Tj after the arrays"})
    pdf = type0_doc(enc, [], ros=ros, extra=extra, sub="CIDFontType0" if ros[1] != "Identity" else "CIDFontType2", show_ops=bytes(ops))
    return pdf, exp, vertical


# ------------------------------------------------------------------ ToUnicode that omits codes: fall back
# Precedence of the statement: the ToUnicode entry; for a code the map omits, the character collection or the
# embedded TrueType cmap; only then the placeholder.
FB_KINDS = ["japan1-H", "japan1-V", "ttf", "korea1-H"]
FB_COVER = ["none-of-the-shown", "first-two", "every-second", "all"]
FB_SPELL = ["bfchar", "bfrange"]


def fb_cases():
    for k in FB_KINDS:
        for c in FB_COVER:
            for sp in FB_SPELL:
                yield ("fb", k, c, sp)


def build_fb(kind: str, cover: str, spell: str):
    doc = Doc()
    vertical = kind.endswith("-V")
    if kind == "ttf":
        ff2 = ttf_file([(3, 1, ttf_fmt4([(0x41, 0x46, "delta", 5)]))])
        cids = [5, 6, 7, 8, 9, 10]
        base = {c: chr(0x41 + i) for i, c in enumerate(cids)}
        ros, sub, tag = ("Adobe", "Identity", 0), "CIDFontType2", "truetype-cmap"
    else:
        coll = "Adobe-Japan1" if kind.startswith("japan1") else "Adobe-Korea1"
        um = load_pickle("to-unicode-" + coll)["CID2UNICHR_V" if vertical else "CID2UNICHR_H"]
        sample = "あいうアイウ" if coll == "Adobe-Japan1" else "가각간갇갈갉"
        inv: Dict[str, int] = {}
        for cid in sorted(um):
            if um[cid] in sample:
                inv.setdefault(um[cid], cid)
        cids = sorted(inv[ch] for ch in sample)  # ascending, so that a bfrange can cover neighbours
        base = {c: um[c] for c in cids}
        ff2 = None
        ros, sub, tag = (coll.split("-")[0], coll.split("-")[1], 2), "CIDFontType0", "collection"
    if cover == "none-of-the-shown":
        covered = []
    elif cover == "first-two":
        covered = cids[:2]
    elif cover == "every-second":
        covered = cids[::2]
    else:
        covered = list(cids)
    tgt = {c: "T%d" % i for i, c in enumerate(covered)}
    entries = [("char", b"\xff\xf0", "never shown")]
    if spell == "bfchar":
        entries += [("char", c.to_bytes(2, "big"), tgt[c]) for c in covered]
    else:
        entries += [("array", c.to_bytes(2, "big"), c.to_bytes(2, "big"), [tgt[c]]) for c in covered]
    exp = []
    for c in cids:
        exp.append({"text": tgt.get(c, base[c]), "adv": Fraction(-FS if vertical else FS), "vert": vertical, "tag": "tounicode" if c in tgt else "fallback-" + tag, "note": f"cid {c}"})
    pdf = type0_doc("Identity-V" if vertical else "Identity-H", [b"".join(c.to_bytes(2, "big") for c in cids)], ros=ros, tou=tou_stream(entries, "canonical"), ff2=ff2, sub=sub, doc=doc)
    return pdf, exp, vertical


def classify_fb(kind, e, got):
    if kind == "text" and e is not None and e.get("tag", "").startswith("fallback-") and isinstance(got, str) and got.startswith("(cid:"):
        return "C07/tounicode-omitted-code-no-fallback-to-" + e["tag"][len("fallback-"):]
    return None


# ------------------------------------------------------------------ CIDToGIDMap with an embedded TrueType cmap
# CIDFontType2: the glyph of a CID is CIDToGIDMap[CID]; the TrueType cmap maps characters to glyphs, so the text of
# a CID is the character whose glyph index is CIDToGIDMap[CID].
C2G_MAPS = ["identity-name", "identity-stream", "shifted", "permuted", "flate-permuted", "many-to-one", "all-to-one"]
C2G_LAYOUTS = ["ms-unicode", "unicode-platform"]


def c2g_cases():
    for m in C2G_MAPS:
        for lay in C2G_LAYOUTS:
            yield ("c2g", m, lay)


def build_c2g(mapkind: str, lay: str):
    import zlib

    doc = Doc()
    segs = [(0x41, 0x46, "delta", 5), (0x3042, 0x3044, "delta", 20)]
    c2gid = seg_map(segs)  # char -> gid
    gid2char = {g: c for c, g in c2gid.items()}
    ff2 = ttf_file([((3, 1) if lay == "ms-unicode" else (0, 3)) + (ttf_fmt4(segs),)])
    ncid = 32
    if mapkind.startswith("identity"):
        table = list(range(ncid))
    elif mapkind == "shifted":
        table = [(c + 3) % ncid for c in range(ncid)]
    elif mapkind == "many-to-one":
        table = [5 + (c % 4) if c % 3 else 20 + (c % 2) for c in range(ncid)]  # every glyph is shared by several CIDs
    elif mapkind == "all-to-one":
        table = [6] * ncid
    else:
        table = [(c * 7 + 5) % ncid for c in range(ncid)]  # a permutation of 0..31
    extra: Dict[str, Any] = {}
    if mapkind == "identity-name":
        extra["CIDToGIDMap"] = N("Identity")
    else:
        data = b"".join(g.to_bytes(2, "big") for g in table)
        if mapkind == "flate-permuted":
            extra["CIDToGIDMap"] = doc.add(Stream({"Filter": N("FlateDecode")}, zlib.compress(data)))
        else:
            extra["CIDToGIDMap"] = doc.add(Stream({}, data))
    cids = [c for c in range(1, ncid) if table[c] != 0]  # glyph 0 is .notdef (the cmap's closing segment maps U+FFFF to it): not shown
    exp = []
    for c in cids:
        g = table[c]
        ch = gid2char.get(g)
        exp.append({"text": chr(ch) if ch is not None else "(cid:%d)" % c, "adv": Fraction(FS), "tag": "cidtogidmap" if ch is not None else "unmapped", "note": f"cid {c} -> gid {g}"})
    pdf = type0_doc("Identity-H", [b"".join(c.to_bytes(2, "big") for c in cids)], ff2=ff2, extra=extra, doc=doc)
    return pdf, exp, False


def make_classify_c2g(mapkind):
    def classify(kind, e, got):
        if kind == "text" and not mapkind.startswith("identity"):
            return "C07/CIDToGIDMap-ignored"
        return None

    return classify


# ------------------------------------------------------------------ word spacing with composite fonts
# ISO 32000-1 9.3.3: word spacing applies to every occurrence of the single-byte character code 32 in a string of a
# simple font or of a composite font that defines code 32 as a single-byte code; it does not apply to the byte value
# 32 inside multi-byte codes -- hence not to <0020> under Identity-H/V or a UTF-16 CMap, whatever CID that selects.
TW_FONTS = ["Identity-H", "Identity-V", "DLIdent-H", "UniJIS-UTF16-H", "UniJIS-UTF16-V", "UniGB-UCS2-H"]
TW_OPS = ["Tj", "TJ", "dquote", "TJ-split"]
TW_VALUES = [4, -2]


def tw_cases():
    for f in range(len(TW_FONTS)):
        for op in TW_OPS:
            for tw in TW_VALUES:
                yield ("tw", f, op, tw)


def build_tw(fi: int, op: str, tw: int):
    enc = TW_FONTS[fi]
    vertical = is_vertical_name(enc)
    if enc in IDENTITY2:
        seq = [31, 32, 33, 32, 32, 8224]  # 8224 = 0x2020: both bytes are 32
        codes = {c: c.to_bytes(2, "big") for c in seq}
        cid = {c: c for c in seq}
        ros, sub = ("Adobe", "Identity", 0), "CIDFontType2"
        text = {c: "(cid:%d)" % c for c in seq}
    else:
        chars = ["A", " ", "B", " ", " ", "†"]  # U+2020 dagger: both bytes 0x20 in UTF-16BE
        flat, _ = flat_codes(enc)
        seq = [ch for ch in chars if ch.encode("utf-16-be") in flat]
        codes = {ch: ch.encode("utf-16-be") for ch in seq}
        cid = {ch: flat[codes[ch]] for ch in seq}
        coll = "Adobe-Japan1" if "JIS" in enc else "Adobe-GB1"
        um = load_pickle("to-unicode-" + coll)["CID2UNICHR_V" if vertical else "CID2UNICHR_H"]
        text = {ch: um.get(cid[ch], "(cid:%d)" % cid[ch]) for ch in seq}
        ros, sub = (coll.split("-")[0], coll.split("-")[1], 2), "CIDFontType0"
    adv = Fraction(-FS if vertical else FS)
    s1, s2 = seq[:3], seq[3:]
    b1 = b"".join(codes[c] for c in s1)
    b2 = b"".join(codes[c] for c in s2)
    if op == "Tj":
        ops = b"%d Tw " % tw + ser(HexStr(b1)) + b" Tj " + ser(HexStr(b2)) + b" Tj"
    elif op == "TJ":
        ops = b"%d Tw [" % tw + ser(HexStr(b1)) + b" " + ser(HexStr(b2)) + b"] TJ"
    elif op == "TJ-split":
        ops = b"%d Tw [" % tw + b" ".join(ser(HexStr(codes[c])) for c in s1 + s2) + b"] TJ"
    else:
        ops = b"0 TL %d 0 " % tw + ser(HexStr(b1)) + b' " ' + ser(HexStr(b2)) + b" Tj"
    exp = [{"text": text[c], "adv": adv, "vert": vertical, "after": 0, "tag": "collection" if ros[1] != "Identity" else "none", "wtag": "Tw",
            "note": f"cid {cid[c]} code {codes[c].hex()} with Tw={tw}: no single-byte code 32"} for c in s1 + s2]
    pdf = type0_doc(enc, [], ros=ros, sub=sub, show_ops=ops)
    return pdf, exp, vertical


# composite fonts whose CMap defines 32 as a single-byte code: word spacing does apply after that code
TW1_FONTS = [("OneByteIdentityH", None), ("OneByteIdentityV", None), ("90ms-RKSJ-H", "cp932"), ("90ms-RKSJ-V", "cp932"), ("GBK-EUC-H", "gbk"), ("KSCms-UHC-H", "cp949")]


def tw1_cases():
    for f in range(len(TW1_FONTS)):
        for op in TW_OPS:
            for tw in TW_VALUES:
                yield ("tw1", f, op, tw)


def build_tw1(fi: int, op: str, tw: int):
    enc, codec = TW1_FONTS[fi]
    vertical = is_vertical_name(enc)
    if codec is None:
        seq = [b"\x41", b"\x20", b"\x42", b"\x20", b"\x20", b"\x43"]
        cid = {c: c[0] for c in seq}
        text = {c: "(cid:%d)" % c[0] for c in seq}
        ros, sub = ("Adobe", "Identity", 0), "CIDFontType2"
    else:
        two = {"cp932": "亜", "gbk": "啊", "cp949": "가"}[codec].encode(codec)
        seq = [b"\x41", b"\x20", two, b"\x20", b"\x20", b"\x42"]
        cid = {c: ref_decode(enc, c)[0][0] for c in seq}
        coll = {"cp932": "Adobe-Japan1", "gbk": "Adobe-GB1", "cp949": "Adobe-Korea1"}[codec]
        um = load_pickle("to-unicode-" + coll)["CID2UNICHR_V" if vertical else "CID2UNICHR_H"]
        text = {c: um.get(cid[c], "(cid:%d)" % cid[c]) for c in seq}
        ros, sub = (coll.split("-")[0], coll.split("-")[1], 2), "CIDFontType0"
    adv = Fraction(-FS if vertical else FS)
    s1, s2 = seq[:3], seq[3:]
    b1, b2 = b"".join(s1), b"".join(s2)
    if op == "Tj":
        ops = b"%d Tw " % tw + ser(HexStr(b1)) + b" Tj " + ser(HexStr(b2)) + b" Tj"
    elif op == "TJ":
        ops = b"%d Tw [" % tw + ser(HexStr(b1)) + b" " + ser(HexStr(b2)) + b"] TJ"
    elif op == "TJ-split":
        ops = b"%d Tw [" % tw + b" ".join(ser(HexStr(c)) for c in s1 + s2) + b"] TJ"
    else:
        ops = b"0 TL %d 0 " % tw + ser(HexStr(b1)) + b' " ' + ser(HexStr(b2)) + b" Tj"
    exp = [{"text": text[c], "adv": adv, "vert": vertical, "after": tw if c == b"\x20" else 0, "tag": "collection" if codec else "none", "wtag": "Tw",
            "note": f"cid {cid[c]} code {c.hex()} with Tw={tw}"} for c in s1 + s2]
    pdf = type0_doc(enc, [], ros=ros, sub=sub, show_ops=ops)
    return pdf, exp, vertical


def classify_tw1(kind, e, got):
    if kind == "pen":
        return "C07/word-spacing-not-applied-to-single-byte-code-32-of-composite-font"
    return None


def classify_tw(kind, e, got):
    if kind == "pen":
        return "C07/word-spacing-applied-to-multibyte-code"
    return None


# ------------------------------------------------------------------ /Font dictionary mixing references and direct dictionaries
MIXRES_LAYOUTS = [
    (("T", "ind"), ("J", "dir")),
    (("J", "dir"), ("T", "ind")),
    (("J", "ind"), ("T", "dir")),
    (("T", "ind"), ("S", "dir")),
    (("S", "ind"), ("T", "dir")),
    (("S", "ind"), ("J", "dir")),
    (("T", "ind"), ("J", "dir"), ("S", "dir")),
    (("J", "ind"), ("S", "dir"), ("T", "ind")),
    (("T", "ind"), ("T2", "dir")),
]


def mixres_cases():
    for li in range(len(MIXRES_LAYOUTS)):
        for show in ("listed-order", "reverse-order"):
            yield ("mixres", li, show)


def build_mixres(li: int, show: str):
    doc = Doc()
    lay = MIXRES_LAYOUTS[li]

    def font(kind: str):
        """-> (font dictionary (not yet an object), string, expected glyphs)"""
        if kind in ("T", "T2"):  # Identity-H, ToUnicode, W/DW
            cids = [1, 2, 3, 4]
            t = ["P", "Q", "R", "S"] if kind == "T" else ["p", "q", "r", "s"]
            wv = (500, 250) if kind == "T" else (700, 300)
            d = descendant_obj(doc, ("Adobe", "Identity", 0), sub="CIDFontType2")
            dd = doc.objs[d.num][1]
            dd["W"] = [1, [wv[0]], 2, 3, wv[1]]
            dd["DW"] = 125
            f = {"Type": N("Font"), "Subtype": N("Type0"), "BaseFont": N("ABCDEF+Foo"), "Encoding": N("Identity-H"), "DescendantFonts": [d],
                 "ToUnicode": doc.add(Stream({}, tou_stream([("char", c.to_bytes(2, "big"), x) for c, x in zip(cids, t)], "canonical")))}
            w = {1: wv[0], 2: wv[1], 3: wv[1], 4: 125}
            exp = [{"text": x, "adv": Fraction(w[c]) * FS / 1000, "tag": "tounicode", "wtag": "W", "note": f"font {kind} cid {c}"} for c, x in zip(cids, t)]
            return f, b"".join(c.to_bytes(2, "big") for c in cids), exp
        if kind == "J":  # predefined CMap + collection, DW only
            d = descendant_obj(doc, ("Adobe", "Japan1", 2))
            doc.objs[d.num][1]["DW"] = 750
            f = {"Type": N("Font"), "Subtype": N("Type0"), "BaseFont": N("ABCDEF+Foo"), "Encoding": N("90ms-RKSJ-H"), "DescendantFonts": [d]}
            sv = "あA亜".encode("cp932")
            exp = [{"text": ch, "adv": Fraction(750) * FS / 1000, "tag": "collection", "wtag": "DW", "note": f"font J {ch}"} for ch in "あA亜"]
            return f, sv, exp
        # simple font
        f = {"Type": N("Font"), "Subtype": N("Type1"), "BaseFont": N("ABCDEF+Bar"), "Encoding": N("WinAnsiEncoding"), "FirstChar": 65, "LastChar": 67, "Widths": [600, 610, 620],
             "FontDescriptor": {"Type": N("FontDescriptor"), "FontName": N("ABCDEF+Bar"), "Flags": 32, "FontBBox": [0, -200, 1000, 800], "Ascent": 800, "Descent": -200,
                                "ItalicAngle": 0, "CapHeight": 700, "StemV": 80, "MissingWidth": 333}}
        exp = [{"text": ch, "adv": Fraction(w) * FS / 1000, "tag": "simple", "wtag": "Widths", "note": f"font S {ch}"} for ch, w in zip("ABCD", (600, 610, 620, 333))]
        return f, b"ABCD", exp

    res: Dict[str, Any] = {}
    shows = {}
    exps = {}
    for n, (kind, how) in enumerate(lay):
        f, sv, exp = font(kind)
        name = "F%d" % (n + 1)
        res[name] = doc.add(f) if how == "ind" else f
        shows[name] = sv
        after_ind = how == "dir" and any(h == "ind" for _, h in lay[:n])
        exps[name] = [dict(e, mixed="direct-after-reference" if after_ind else how) for e in exp]
    names = list(res)
    if show == "reverse-order":
        names.reverse()
    pdf = pages_doc(doc, [res], [[(k, shows[k]) for k in names]])
    return pdf, [e for k in names for e in exps[k]], False


def classify_mixres(kind, e, got):
    if e is not None and e.get("mixed") == "direct-after-reference":
        return "C07/direct-font-dict-answered-with-another-font"
    return None


# ------------------------------------------------------------------ a derived CMap must not change the predefined one
USECMAP_NAMES = ["90ms-RKSJ-H", "GBK-EUC-H", "UniJIS-UTF16-H", "KSCms-UHC-V"]


def check_usecmap(name: str):
    """Public API: a FileCMap that does `/<name> usecmap` and then defines codes of its own (redefining mapped codes,
    defining unmapped ones under an existing lead byte, adding a new lead byte).  The process-wide predefined CMap
    must afterwards decode exactly as before.  -> [(sig, expected, observed, what)], outcome"""
    from io import BytesIO

    from pdfminer.cmapdb import CMapDB, CMapParser, FileCMap

    flat, maxlen = flat_codes(name)
    two = sorted(c for c in flat if len(c) == 2)
    picks = [two[0], two[len(two) // 2], two[-1]]
    lead = picks[1][0]
    unmapped = next(bytes((lead, t)) for t in range(1, 256) if bytes((lead, t)) not in flat)
    sample = b"".join(two[:: max(1, len(two) // 64)]) + b"".join(picks) + b"A"
    want, _ = ref_decode(name, sample)
    derived = FileCMap(CMapName="Derived")
    bad = []
    try:
        CMapParser(derived, BytesIO(b"begincmap /%s usecmap endcmap" % name.encode())).run()
        if list(derived.decode(sample)) != want:
            bad.append(("C07/usecmap-does-not-import-codes", want[:8], list(derived.decode(sample))[:8], f"derived CMap after /{name} usecmap"))
        for k, c in enumerate(picks + [unmapped]):
            derived.add_code2cid(c.decode("latin-1"), 7 + k)
        got_d = list(derived.decode(b"".join(picks + [unmapped])))
        if got_d != [7, 8, 9, 10]:
            bad.append(("C07/derived-cmap-own-codes", [7, 8, 9, 10], got_d, "codes defined by the derived CMap itself"))
        got = list(CMapDB.get_cmap(name).decode(sample))
        got_u = list(CMapDB.get_cmap(name).decode(unmapped + b"A"))
    except Exception as e:  # noqa
        return [("C07/usecmap-exception:" + exc_sig(e), "no exception", f"{type(e).__name__}: {e}", "derived CMap raised")], ("exc",)
    if got != want:
        bad.append(("C07/derived-cmap-changes-cached-predefined-cmap", want[-6:], got[-6:], f"{name} after a derived CMap redefined codes {[c.hex() for c in picks]}"))
    want_u, _ = ref_decode(name, unmapped + b"A")
    if got_u != want_u:
        bad.append(("C07/derived-cmap-changes-cached-predefined-cmap", want_u, got_u, f"{name} after a derived CMap defined the unmapped code {unmapped.hex()}"))
    if name in CMapDB._cmap_cache and _cmap_fingerprint(name)[0] != len(flat):
        CMapDB._cmap_cache.pop(name, None)
    return bad, (name, tuple(got[-4:]))


# ------------------------------------------------------------------ the same code defined twice in a ToUnicode CMap
# The later entry wins -- except the library's documented guard: a code already mapped to SPACE is not re-mapped to
# NO-BREAK SPACE by a later entry.
TOUDUP_ENTRIES = [
    ("range", b"\x00\x41", b"\x00\x43", "a"),
    ("char", b"\x00\x42", "\u00a0"),  # bfrange, then bfchar: nbsp replaces "b"
    ("char", b"\x00\x44", " "),
    ("range", b"\x00\x44", b"\x00\x45", "\u00a0"),  # space stays (guard); 0045 becomes U+00A1
    ("char", b"\x00\x46", "X"),
    ("range", b"\x00\x46", b"\x00\x46", "\u00a0"),  # bfchar, then bfrange: nbsp replaces "X"
    ("char", b"\x00\x47", "\u00a0"),
    ("char", b"\x00\x47", "Y"),  # nbsp, then "Y"
    ("array", b"\x00\x48", b"\x00\x49", ["P", "Q"]),
    ("array", b"\x00\x48", b"\x00\x49", ["\u00a0", " "]),  # array form: nbsp replaces "P", space replaces "Q"
    ("char", b"\x00\x49", "\u00a0"),  # ... and that space stays
]
TOUDUP_MODEL = {0x41: "a", 0x42: "\u00a0", 0x43: "c", 0x44: " ", 0x45: "\u00a1", 0x46: "\u00a0", 0x47: "Y", 0x48: "\u00a0", 0x49: " "}


def toudup_cases():
    for enc in ("Identity-H", "Identity-V"):
        for sp in ("canonical", "section-per-entry", "lowercase-hex"):
            yield ("toudup", enc, sp)


def build_toudup(enc: str, sp: str):
    vertical = is_vertical_name(enc)
    cids = sorted(TOUDUP_MODEL) + [0x4A]
    exp = [{"text": TOUDUP_MODEL.get(c, "(cid:%d)" % c), "adv": Fraction(-FS if vertical else FS), "vert": vertical, "tag": "tounicode-redefined", "note": f"code {c:04x}"} for c in cids]
    pdf = type0_doc(enc, [b"".join(c.to_bytes(2, "big") for c in cids)], tou=tou_stream(TOUDUP_ENTRIES, sp))
    return pdf, exp, vertical


def odd_cases():
    for enc in ("Identity-H", "Identity-V", "DLIdent-H"):
        for s in (b"\x00\x41\x00", b"\x00", b"\x00\x41\x00\x42\x43"):
            yield ("odd", enc, s)


def build_odd(enc, s):
    vertical = is_vertical_name(enc)
    n = len(s) // 2
    exp = [{"text": "(cid:%d)" % int.from_bytes(s[2 * i : 2 * i + 2], "big"), "adv": Fraction(-FS if vertical else FS), "tag": "odd", "note": "complete two-byte code"} for i in range(n)]
    # a following even string must still be shown
    exp.append({"text": "(cid:66)", "adv": Fraction(-FS if vertical else FS), "tag": "after-odd", "note": "next string"})
    pdf = type0_doc(enc, [s, b"\x00\x42"])
    return pdf, exp, vertical


# ------------------------------------------------------------------ dispatch of document cases
def doc_case(c):
    """-> (pdf, expected, vertical, sigbase, desc, classify)"""
    kind = c[0]
    if kind == "tou":
        pdf, exp, v = build_tou(c[1], c[2], tuple(c[3]))
        return pdf, exp, v, "C07/tounicode", {"entries": list(c[1]), "spelling": c[2], "encoding": list(c[3])}, None
    if kind == "toupre":
        pdf, exp, v = build_tou_predef(c[1])
        return pdf, exp, v, "C07/tounicode-predefined", {"cmap": TOU_PREDEF[c[1]][0]}, classify_tou_predef
    if kind == "h":
        pdf, exp, v = build_w(c[1], c[2], c[3])
        return pdf, exp, v, "C07/widths", {"items": list(c[1]), "DW": c[2], "encoding": W_ENCODINGS[c[3]][0]}, None
    if kind == "v":
        pdf, exp, v = build_w2(c[1], c[2], c[3])
        return pdf, exp, v, "C07/widths2", {"items": list(c[1]), "DW2": DW2S[c[2]], "encoding": V_ENCODINGS[c[3]]}, make_classify_w2(c[1])
    if kind == "ttf":
        pdf, exp, v, _ = build_ttf(c[1], c[2])
        return pdf, exp, v, "C07/truetype-cmap", {"segments": list(c[1]), "layout": c[2]}, make_classify_ttf(c[1], c[2])
    if kind == "coll":
        pdf, exp, v = build_coll(c[1], c[2], c[3])
        return pdf, exp, v, "C07/collection", {"cmap": c[1], "codec": c[2], "collection": c[3]}, None
    if kind == "tw":
        pdf, exp, v = build_tw(c[1], c[2], c[3])
        return pdf, exp, v, "C07/word-spacing", {"encoding": TW_FONTS[c[1]], "operator": c[2], "Tw": c[3]}, classify_tw
    if kind == "toudup":
        pdf, exp, v = build_toudup(c[1], c[2])
        return pdf, exp, v, "C07/tounicode-redefinition", {"encoding": c[1], "spelling": c[2]}, None
    if kind == "wbound":
        pdf, exp, v = build_wbound(c[1], c[2], c[3])
        return pdf, exp, v, "C07/widths-boundary", {"cid": c[1], "form": c[2], "vertical": c[3]}, None
    if kind == "mixres":
        pdf, exp, v = build_mixres(c[1], c[2])
        return pdf, exp, v, "C07/mixed-font-resources", {"layout": [list(x) for x in MIXRES_LAYOUTS[c[1]]], "show": c[2]}, classify_mixres
    if kind == "tw1":
        pdf, exp, v = build_tw1(c[1], c[2], c[3])
        return pdf, exp, v, "C07/word-spacing", {"encoding": TW1_FONTS[c[1]][0], "operator": c[2], "Tw": c[3]}, classify_tw1
    if kind == "fb":
        pdf, exp, v = build_fb(c[1], c[2], c[3])
        return pdf, exp, v, "C07/tounicode-fallback", {"font": c[1], "covered": c[2], "spelling": c[3]}, classify_fb
    if kind == "c2g":
        pdf, exp, v = build_c2g(c[1], c[2])
        return pdf, exp, v, "C07/cidtogidmap", {"map": c[1], "layout": c[2]}, make_classify_c2g(c[1])
    if kind == "tj":
        pdf, exp, v = build_tj(c[1], c[2], c[3])
        return pdf, exp, v, "C07/TJ-" + ("vertical" if v else "horizontal"), {"array": [TJ_ELEMS[i] for i in c[1]], "encoding": TJ_FONTS[c[2]], "metrics": c[3]}, None
    if kind == "onebyte":
        pdf, exp, v = build_onebyte(c[1], c[2], c[3])
        return pdf, exp, v, "C07/onebyte-identity", {"encoding": c[1], "tounicode": c[2], "widths": c[3]}, None
    if kind == "hv":
        pdf, exp, v = build_hv(c[1], c[2])
        return pdf, exp, v, "C07/hv-pair", {"pair": list(HV_PAIRS[c[1]]), "layout": c[2]}, classify_hv
    if kind == "shared":
        pdf, exp, v = build_shared(c[1], c[2], c[3])
        return pdf, exp, v, "C07/shared-descendant", {"descendant": c[1], "layout": c[2], "plain_encoding": c[3]}, classify_shared
    if kind == "odd":
        pdf, exp, v = build_odd(c[1], c[2])
        return pdf, exp, v, "C07/odd-length", {"encoding": c[1], "string": c[2]}, None
    raise ValueError(c)


def all_doc_cases(tier: str) -> List[tuple]:
    out: List[tuple] = []
    out += [("tou", sub, sp, enc) for sub, sp, enc in tou_cases(tier)]
    out += [("toupre", i) for i in range(len(TOU_PREDEF))]
    out += list(w_cases(tier))
    out += list(w2_cases(tier))
    out += list(ttf_cases())
    out += list(coll_cases())
    out += list(odd_cases())
    out += list(onebyte_cases())
    out += list(tj_cases(tier))
    out += list(toudup_cases())
    out += list(wbound_cases())
    out += list(mixres_cases())
    out += list(tw_cases())
    out += list(tw1_cases())
    out += list(fb_cases())
    out += list(c2g_cases())
    return out


# ------------------------------------------------------------------ shards
def shards(tier):
    names = list(IDENTITY2[:2]) + list(IDENTITY1) + all_cmap_names()
    per = 3 if tier == "quick" else 2
    out = [("seg", tuple(names[i : i + per])) for i in range(0, len(names), per)]
    pairs = [p[:3] for p in CODEC_PAIRS]
    if BOUNDS[tier]["vertical_codec"]:
        for cm, codec, coll, _ in CODEC_PAIRS:
            v = cm[:-2] + "-V"
            if os.path.exists(os.path.join(cmap_dir(), v + ".pickle.gz")):
                pairs.append((v, codec, coll))
    out += [("codec", cm, codec, coll) for cm, codec, coll in pairs]
    _DOC_CACHE[tier] = all_doc_cases(tier)  # inherited by the forked one-shot workers
    n = len(_DOC_CACHE[tier])
    size = 120 if tier == "quick" else 250
    out += [("doc", i, min(i + size, n)) for i in range(0, n, size)]
    # several-fonts-in-one-document cases exercise process-wide / document-wide caches: each is its own shard (the
    # runner gives every shard a fresh process), so the case's call history is exactly the case
    out += [("one",) + c for c in hv_cases()] + [("one",) + c for c in shared_cases()]
    out += [("usecmap", n) for n in USECMAP_NAMES]
    return out


_DOC_CACHE: Dict[str, list] = {}


def run_shard(shard, tier, st):
    fam = shard[0]
    if fam == "seg":
        run_seg(shard[1], tier, st)
        st.sample({"family": "seg", "cmaps": list(shard[1]), "strings": f"all over {BOUNDS[tier]['seg_alphabet']} bytes up to length {BOUNDS[tier]['seg_len']}"})
    elif fam == "codec":
        run_codec(shard[1], shard[2], shard[3], st)
        st.sample({"family": "codec", "cmap": shard[1], "codec": shard[2], "collection": shard[3]})
    elif fam == "usecmap":
        bad, outcome = check_usecmap(shard[1])
        st.states += 1
        st.transitions += 1
        st.traces += 1
        st.case(("usecmap", shard[1]), nontrivial=True, outcome=outcome)
        for sig, e, g, what in bad:
            st.violation(sig, {"family": "usecmap", "cmap": shard[1]}, e, g, what)
    elif fam == "one":
        c = tuple(shard[1:])
        pdf, exp, vertical, sigbase, desc, classify = doc_case(c)
        st.states += 1 + len(exp)
        st.transitions += len(exp)
        record_doc(st, c[0], c[1:], pdf, exp, vertical, sigbase, {"kind": c[0], **desc}, classify)
        if c[2] in ("h-first", "tou-first") and c[1] in (0, "japan1"):
            st.sample({"family": c[0], "desc": desc, "pdf_bytes": len(pdf), "expected": [(e["text"], float(e["adv"])) for e in exp[:8]]})
    elif fam == "doc":
        if tier not in _DOC_CACHE:
            _DOC_CACHE[tier] = all_doc_cases(tier)
        cases = _DOC_CACHE[tier][shard[1] : shard[2]]
        for i, c in enumerate(cases):
            pdf, exp, vertical, sigbase, desc, classify = doc_case(c)
            st.states += 1 + len(exp)
            st.transitions += len(exp)
            record_doc(st, c[0], c[1:], pdf, exp, vertical, sigbase, {"kind": c[0], **desc}, classify)
            check_shared_state(st, pdf, c)
            if i == 0 and shard[1] % 600 == 0:
                st.sample({"family": c[0], "desc": desc, "pdf_bytes": len(pdf), "expected": [(e["text"], float(e["adv"])) for e in exp[:6]]})
    else:
        raise ValueError(shard)


# ------------------------------------------------------------------ process-wide CMap state
_SNAP: Dict[str, Any] = {}


def _cmap_fingerprint(name: str) -> Tuple[int, int]:
    from pdfminer.cmapdb import CMapDB

    c = CMapDB._cmap_cache.get(name)
    if c is None:
        return (-1, -1)
    n = 0
    stack = [c.code2cid]
    while stack:
        d = stack.pop()
        for v in d.values():
            if isinstance(v, dict):
                stack.append(v)
            else:
                n += 1
    return (n, len(c.code2cid))


def check_shared_state(st, pdf: bytes, c) -> None:
    """Predefined CMaps are cached process-wide: a document must not change the cached code tables."""
    from pdfminer.cmapdb import CMapDB

    for name in list(CMapDB._cmap_cache):
        if name in IDENTITY2 or name in IDENTITY1:
            continue
        try:
            ref = len(flat_codes(name)[0])
        except FileNotFoundError:
            continue
        got = _cmap_fingerprint(name)
        if got[0] != ref:
            st.violation("C07/cached-cmap-mutated", {"family": "cache", "pdf": pdf, "cmap": name}, ref, got[0], f"number of codes in the cached {name} after a document")
            del CMapDB._cmap_cache[name]


# ------------------------------------------------------------------ replay
def replay(case):
    fam = case["family"]
    out = []
    if fam == "seg":
        bad, _, _, _ = check_seg(case["cmap"], case["string"])
        for sig, e, g, what in bad:
            out.append({"signature": sig, "expected": repr(e), "observed": repr(g)})
    elif fam in ("codec", "codec-coverage"):
        from mc.core import Stats

        st = Stats()
        st.MAX_VIOL_PER_SIG = 10**6
        run_codec(case["cmap"], case["codec"], case["coll"], st)
        for v in st.violations:
            if fam == "codec-coverage" and v["case"]["family"] == "codec-coverage":
                out.append({"signature": v["signature"], "expected": repr(v["expected"]), "observed": repr(v["observed"])})
            elif fam == "codec" and v["case"].get("cp") == case["cp"]:
                out.append({"signature": v["signature"], "expected": repr(v["expected"]), "observed": repr(v["observed"])})
    elif fam == "doc":
        exp = []
        for row in case["expected"]:
            a, b, c, d, e, f = row[:6]
            ent = {"text": a, "adv": b, "vx": c, "tag": d, "wtag": e, "note": f}
            if len(row) > 6:
                if row[6] is not None:
                    ent["vert"] = row[6]
                ent["page"] = row[7]
            if len(row) > 8 and row[8]:
                ent["shift"] = row[8]
            if len(row) > 9 and row[9]:
                ent["after"] = row[9]
            if len(row) > 10 and row[10]:
                ent["mixed"] = row[10]
            exp.append(ent)
        d = case["desc"]
        classify = None
        if d["kind"] == "toupre":
            classify = classify_tou_predef
        elif d["kind"] == "ttf":
            classify = make_classify_ttf(tuple(d["segments"]), d["layout"])
        elif d["kind"] == "v":
            classify = make_classify_w2(tuple(d["items"]))
        elif d["kind"] == "tw":
            classify = classify_tw
        elif d["kind"] == "mixres":
            classify = classify_mixres
        elif d["kind"] == "tw1":
            classify = classify_tw1
        elif d["kind"] == "fb":
            classify = classify_fb
        elif d["kind"] == "c2g":
            classify = make_classify_c2g(d["map"])
        elif d["kind"] == "hv":
            classify = classify_hv
        elif d["kind"] == "shared":
            classify = classify_shared
        viol, _ = compare_doc(case["pdf"], exp, case["vertical"], case["sigbase"], classify)
        if case["index"] == -2:
            viol = compare_tag(case["pdf"], exp)
        for sig, i, e, g, what in viol:
            if i == case["index"]:
                out.append({"signature": sig, "expected": repr(e), "observed": repr(g)})
    elif fam == "usecmap":
        bad, _ = check_usecmap(case["cmap"])
        for sig, e, g, what in bad:
            out.append({"signature": sig, "expected": repr(e), "observed": repr(g)})
    elif fam == "cache":
        from pdfminer.cmapdb import CMapDB

        R.glyphs(case["pdf"])
        ref = len(flat_codes(case["cmap"])[0])
        got = _cmap_fingerprint(case["cmap"])
        if got[0] != ref:
            out.append({"signature": "C07/cached-cmap-mutated", "expected": repr(ref), "observed": repr(got[0])})
    return out
