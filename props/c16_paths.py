"""C16 -- painted paths become shapes with the right points, class and graphics state.

Two exhaustive families on the real ``PDFPageInterpreter.process_page``:

* ``gs``   explicit-state search over graphics-state operator histories (w d g G rg RG k K cs CS sc scn SC SCN
           q Q cm + ill-formed instances); after every transition a fixed probe (a rectangle painted with B and a
           line painted with S) is painted and every attribute of the resulting shapes is compared;
* ``path`` every path object (m l c v y h re with pairwise distinct points) up to a length bound, closed by every
           painting operator, under every CTM of a pool; objects are executed back to back in one content stream
           so that every object is also followed by another one (no residue).

Reference model: ISO 32000-1 8.4 (graphics state, q/Q, colour spaces), 8.5.2-8.5.3 (path construction and painting)
in ``fractions.Fraction``; classification by the property statement.
"""
from __future__ import annotations

import itertools
from fractions import Fraction as Fr
from typing import Any, Dict, Iterator, List, Optional, Tuple

from mc import pdfgen as G
from mc.core import h64
from mc.refs import gfx

ID = "C16"
LEVEL = "model_checking"

UNSET = "unset"
SPACES = {"DeviceGray": 1, "DeviceRGB": 3, "DeviceCMYK": 4, "CS0": 3, "Pattern": None}
SPACE_NAME = {"DeviceGray": "DeviceGray", "DeviceRGB": "DeviceRGB", "DeviceCMYK": "DeviceCMYK", "CS0": "ICCBased", "Pattern": "Pattern"}


def make_doc(streams):
    d = G.Doc()
    icc = d.add(G.Stream({"N": 3, "Alternate": G.N("DeviceRGB")}, b"\x00" * 16))
    pat = d.add(G.Stream({"Type": G.N("Pattern"), "PatternType": 1, "PaintType": 1, "TilingType": 1, "BBox": [0, 0, 4, 4],
                          "XStep": 4, "YStep": 4, "Resources": {}}, b"0 0 2 2 re f"))
    return G.page_doc(
        [bytes(s) for s in streams] if len(streams) != 1 else bytes(streams[0]),
        resources_extra={"ColorSpace": {"CS0": [G.N("ICCBased"), icc]}, "Pattern": {"P0": pat}},
        doc=d,
    )


# ------------------------------------------------------------------ reference model
SIG = {
    "q": "", "Q": "", "cm": "nnnnnn", "w": "n", "d": "an", "g": "n", "G": "n", "rg": "nnn", "RG": "nnn", "k": "nnnn", "K": "nnnn",
    "cs": "N", "CS": "N", "m": "nn", "l": "nn", "c": "nnnnnn", "v": "nnnn", "y": "nnnn", "h": "", "re": "nnnn",
    "S": "", "s": "", "f": "", "f*": "", "B": "", "B*": "", "b": "", "b*": "", "n": "", "Do": "N",
}
PAINT = {  # operator -> (close, stroke, fill, evenodd)   ISO 32000-1 Table 60
    "S": (False, True, False, False), "s": (True, True, False, False), "f": (False, False, True, False),
    "f*": (False, False, True, True), "B": (False, True, True, False), "B*": (False, True, True, True),
    "b": (True, True, True, False), "b*": (True, True, True, True),
}
END_OPS = list(PAINT) + ["n"]

GS0 = {"ctm": gfx.IDENT, "lw": 1, "dash": ((), 0), "dash_set": False, "lw_set": False,
       "scs": "DeviceGray", "ncs": "DeviceGray", "sc": UNSET, "nc": UNSET}

D_LW0 = "initial-line-width-0-not-1"
D_QCS = "Q-does-not-restore-colour-space"
D_HH = "close-and-paint-of-closed-subpath-not-a-rectangle"
DEVIATIONS = [D_LW0, D_QCS, D_HH]


class Crash(Exception):
    pass


class GM:
    __slots__ = ("gs", "stack", "path", "out", "dev", "gscs", "gncs", "crashed", "illformed_sc", "res")

    def __init__(self, dev=frozenset()):
        self.gs = dict(GS0)
        if D_LW0 in dev:
            self.gs["lw"] = 0
        self.stack: Tuple = ()
        self.path: Tuple = ()  # tuple of subpaths; subpath = tuple of segments ("m",p) ("l",p) ("c",p1,p2,p3) ... ("h",)
        self.out: Tuple = ()
        self.dev = dev
        self.gscs = self.gncs = "DeviceGray"  # colour spaces as interpreter globals (only under D_QCS)
        self.crashed = False
        self.illformed_sc = False
        self.res: Dict[str, str] = {}  # XObject resource name -> key of FORMS (family forms)

    def copy(self) -> "GM":
        o = GM.__new__(GM)
        o.gs = dict(self.gs)
        o.stack, o.path, o.out, o.dev = self.stack, self.path, self.out, self.dev
        o.gscs, o.gncs, o.crashed, o.illformed_sc = self.gscs, self.gncs, self.crashed, self.illformed_sc
        o.res = self.res
        return o

    def key(self):
        ks = ("ctm", "lw", "dash", "scs", "ncs", "sc", "nc")
        return (tuple(self.gs[k] for k in ks), tuple(tuple(s[k] for k in ks) for s in self.stack), self.path)

    def apply(self, ev) -> "GM":
        m = self.copy()
        m._do(ev)
        return m

    def ncomp(self, stroking: bool) -> Optional[int]:
        if D_QCS in self.dev:
            return SPACES[self.gscs if stroking else self.gncs]
        return SPACES[self.gs["scs" if stroking else "ncs"]]

    def _do(self, ev):
        if self.crashed:
            return
        op, a = ev[0], ev[1:]
        g = self.gs
        if op in ("sc", "scn", "SC", "SCN"):
            self._setcolour(op, a)
            return
        if not gfx.well_typed(ev, SIG[op]):
            return  # an operator with missing / ill-typed operands has no effect
        if op == "q":
            self.stack = self.stack + (dict(g),)
        elif op == "Q":
            if self.stack:
                self.gs = dict(self.stack[-1])
                self.stack = self.stack[:-1]
        elif op == "cm":
            g["ctm"] = gfx.mat_mul(gfx.mat(*a), g["ctm"])
        elif op == "w":
            g["lw"] = gfx.num(a[0])
            g["lw_set"] = True
        elif op == "d":
            g["dash"] = (tuple(gfx.num(x) for x in a[0]), gfx.num(a[1]))
            g["dash_set"] = True
        elif op in ("g", "G", "rg", "RG", "k", "K"):
            space = {"g": "DeviceGray", "rg": "DeviceRGB", "k": "DeviceCMYK"}[op.lower()]
            val = gfx.num(a[0]) if len(a) == 1 else tuple(gfx.num(x) for x in a)
            if op.isupper():
                g["scs"], g["sc"] = space, val
                self.gscs = space
            else:
                g["ncs"], g["nc"] = space, val
                self.gncs = space
        elif op in ("cs", "CS"):
            name = a[0][1:]
            if name not in SPACES:
                return
            # ISO: the colour becomes the space's initial value; pdfminer keeps the old one -- not judged (UNSET)
            if op == "CS":
                g["scs"], g["sc"] = name, UNSET
                self.gscs = name
            else:
                g["ncs"], g["nc"] = name, UNSET
                self.gncs = name
        elif op == "m":
            if self.path and len(self.path[-1]) == 1 and self.path[-1][0][0] == "m":
                # ISO 32000-1 8.5.2.1: an m directly after an m overrides it; no vestige of the earlier one remains
                self.path = self.path[:-1]
            self.path = self.path + ((("m", (gfx.num(a[0]), gfx.num(a[1]))),),)
        elif op in ("l", "c", "v", "y"):
            if not self.path:
                return
            pts = tuple((gfx.num(a[i]), gfx.num(a[i + 1])) for i in range(0, len(a), 2))
            self.path = self.path[:-1] + (self.path[-1] + ((op,) + pts,),)
        elif op == "h":
            self._close()
        elif op == "re":
            x, y, w, h = (gfx.num(v) for v in a)
            self.path = self.path + ((("m", (x, y)), ("l", (x + w, y)), ("l", (x + w, y + h)), ("l", (x, y + h)), ("h",)),)
        elif op in PAINT:
            close, stroke, fill, evenodd = PAINT[op]
            if close:
                self._close()
            self._paint(stroke, fill, evenodd)
            self.path = ()
        elif op == "n":
            self.path = ()
        elif op == "Do":
            self._form(a[0][1:])
        else:
            raise KeyError(op)

    def _form(self, name):
        """ISO 32000-1 8.10.1: save the graphics state, concatenate the form's Matrix with the CTM (as cm would:
        CTM' = Matrix x CTM), paint the content with the graphics state in force, restore the graphics state."""
        key = self.res.get(name)
        if key is None:
            return
        f = FORMS[key]
        inner = self.copy()
        inner.stack = ()
        inner.path = ()
        inner.res = f["xobjects"]
        inner.gs["ctm"] = gfx.mat_mul(gfx.mat(*f["matrix"]), self.gs["ctm"])
        for ev in f["events"]:
            inner._do(ev)
        self.out = inner.out

    def _close(self):
        if not self.path:
            return
        last = self.path[-1]
        if last[-1] == ("h",) and D_HH not in self.dev:
            return  # ISO 8.5.2.1: closing a closed subpath does nothing
        self.path = self.path[:-1] + (last + (("h",),),)

    def _setcolour(self, op, a):
        stroking = op.isupper()
        n = self.ncomp(stroking)
        true_n = SPACES[self.gs["scs" if stroking else "ncs"]]
        # well-formedness is judged against the *true* current space
        if true_n is None:
            ok = len(a) == 1 and isinstance(a[0], str) and op.lower() == "scn"
        else:
            ok = len(a) == true_n and all(gfx.is_num(x) for x in a)
        if not ok:
            self.illformed_sc = True
        if D_QCS in self.dev:
            # what an interpreter does whose notion of the current space is a global that Q never restores
            if n is None:
                n = 1
            if len(a) < n:
                return  # too few operands for the space it believes to be current: ignored
            a = a[len(a) - n:]
            if not all(gfx.is_num(x) for x in a):
                return
            val = gfx.num(a[0]) if n == 1 else tuple(gfx.num(x) for x in a)
        else:
            if not ok:
                return
            val = UNSET if true_n is None else (gfx.num(a[0]) if true_n == 1 else tuple(gfx.num(x) for x in a))
        self.gs["sc" if stroking else "nc"] = val

    def _paint(self, stroke, fill, evenodd):
        g = self.gs
        ctm = g["ctm"]
        out = list(self.out)
        for sp in self.path:
            kinds = "".join(s[0] for s in sp)
            if len(sp) < 2:
                continue  # a lone m: the statement is silent (never generated)
            # every operand point transformed by the CTM in force; a shape's points are the end points of its
            # segments in order (the subpath's start first; h ends where the subpath started)
            opath = [(s[0],) + tuple(gfx.mat_pt(ctm, p) for p in s[1:]) for s in sp]
            start = opath[0][1]
            pts = [start]
            for s in opath[1:]:
                pts.append(start if s[0] == "h" else s[-1])
            if kinds in ("ml", "mlh"):
                cls, pts = "line", pts[:2]
            elif kinds == "mlllh" and _axis_aligned(pts[:4]):
                cls, pts = "rect", pts[:4]  # reported as its four corners
            else:
                cls = "curve"
            out.append({
                "cls": cls, "pts": gfx.fl(tuple(pts)), "bbox": gfx.fl(gfx.bound(pts)), "path": gfx.fl(tuple(opath)), "stroke": stroke,
                "fill": fill, "evenodd": evenodd, "lw": float(g["lw"]), "dash": gfx.fl(g["dash"]) if g["dash_set"] else None,
                "sc": gfx.fl(g["sc"]), "nc": gfx.fl(g["nc"]),
            })
        self.out = tuple(out)


def _axis_aligned(p) -> bool:
    """four corners, consecutive edges alternately horizontal and vertical, non-degenerate"""
    (x0, y0), (x1, y1), (x2, y2), (x3, y3) = p
    a = x0 == x1 and y1 == y2 and x2 == x3 and y3 == y0
    b = y0 == y1 and x1 == x2 and y2 == y3 and x3 == x0
    return (a or b) and len({(x0, y0), (x1, y1), (x2, y2), (x3, y3)}) == 4


# ------------------------------------------------------------------ observation / comparison
def observe(lt) -> List[Dict[str, Any]]:
    from pdfminer.layout import LTCurve, LTLine, LTRect

    out = []
    for s in gfx.flatten(lt, LTCurve):
        cls = "line" if isinstance(s, LTLine) else "rect" if isinstance(s, LTRect) else "curve"
        out.append({
            "cls": cls, "pts": tuple(tuple(p) for p in s.pts), "bbox": tuple(s.bbox),
            "path": tuple((seg[0],) + tuple(tuple(p) for p in seg[1:]) for seg in (s.original_path or ())),
            "stroke": s.stroke, "fill": s.fill, "evenodd": s.evenodd, "lw": s.linewidth, "dash": s.dashing_style,
            "sc": s.stroking_color, "nc": s.non_stroking_color,
        })
    return out


def shape_diff(e, o) -> List[str]:
    bad = []
    if e["cls"] != o["cls"]:
        bad.append("class")
    if e["cls"] == "rect" and o["cls"] == "rect":
        ep = sorted((float(x), float(y)) for x, y in e["pts"])
        op = sorted((float(x), float(y)) for x, y in o["pts"])
        if not gfx.close_seq(ep, op):
            bad.append("pts")
        # order: the four corners start at the subpath's (transformed) start point and reach the opposite corner third,
        # whichever corner the rectangle was begun at and whatever the CTM flips (the direction of travel is not judged)
        elif len(o["pts"]) != 4 or not gfx.close_seq(tuple(e["pts"][0]), tuple(o["pts"][0])) \
                or not gfx.close_seq(tuple(e["pts"][2]), tuple(o["pts"][2])):
            bad.append("pts-order")
    elif not gfx.close_seq(e["pts"], o["pts"]):
        bad.append("pts")
    if not gfx.close_seq(tuple(e["bbox"]), tuple(o["bbox"])):
        bad.append("bbox")
    if not gfx.close_seq(e["path"], o["path"]):
        bad.append("original_path")
    for k in ("stroke", "fill", "evenodd"):
        if bool(e[k]) != bool(o[k]) or not isinstance(o[k], bool):
            bad.append(k)
    if not gfx.close(e["lw"], o["lw"]):
        bad.append("linewidth")
    if e["dash"] is None:
        # never set: ISO says solid ([] 0); None is accepted as "default" as well
        if o["dash"] is not None and not gfx.close_seq(((), 0), o["dash"]):
            bad.append("dash")
    elif o["dash"] is None or not gfx.close_seq(e["dash"], o["dash"]):
        bad.append("dash")
    for k, name in (("sc", "stroking_color"), ("nc", "non_stroking_color")):
        if e[k] != UNSET and not gfx.close_seq(e[k], o[k]):
            bad.append(name)
    return bad


def diff(exp, obs) -> List[str]:
    if len(exp) != len(obs):
        return [f"count:{len(exp)}!={len(obs)}"]
    bad: List[str] = []
    for e, o in zip(exp, obs):
        for b in shape_diff(e, o):
            if b not in bad:
                bad.append(b)
    return bad


def run_model(events, dev=frozenset()) -> GM:
    m = GM(dev)
    for ev in events:
        m._do(ev)
    return m


def classify(events, obs, exc) -> List[str]:
    if exc is not None:
        es = gfx.exc_sig(exc)
        alt = run_model(events, frozenset([D_QCS]))
        true = run_model(events)
        if alt.crashed and not true.illformed_sc:
            return ["C16/" + D_QCS]
        if true.illformed_sc:
            return ["C16/colour-operator-with-missing-operands-raises"]
        return [f"C16/exception:{es}"]
    for k in range(1, len(DEVIATIONS) + 1):
        for devs in itertools.combinations(DEVIATIONS, k):
            alt = run_model(events, frozenset(devs))
            if not alt.crashed and not diff(list(alt.out), obs):
                return ["C16/" + d for d in devs]
    exp = list(run_model(events).out)
    last = events[-1][0] if events else ""
    return ["C16/unclassified:" + ",".join(sorted(diff(exp, obs))) + "@" + last]


# ------------------------------------------------------------------ alphabet: graphics state search
def colour_events(m: GM) -> List[Tuple]:
    ev = []
    for op, stroking in (("sc", False), ("scn", False), ("SC", True), ("SCN", True)):
        n = SPACES[m.gs["scs" if stroking else "ncs"]]
        if n is None:
            if op.lower() == "scn":
                ev.append((op, "/P0"))
            continue
        vals = {1: (Fr(3, 4),), 3: (Fr(1, 2), Fr(1, 4), 1), 4: (Fr(1, 4), Fr(1, 2), Fr(3, 4), 0)}[n]
        ev.append((op,) + vals)
    return ev


GS_EVENTS = (
    [("w", 2), ("w", 0), ("d", (3, 1), 0), ("d", (), 0)]
    + [("g", Fr(1, 2)), ("G", Fr(1, 4)), ("rg", 1, 0, Fr(1, 2)), ("RG", 0, Fr(1, 2), 1), ("k", 0, Fr(1, 4), Fr(1, 2), 1), ("K", 1, Fr(1, 2), Fr(1, 4), 0)]
    + [(o, "/" + s) for o in ("cs", "CS") for s in ("DeviceRGB", "DeviceCMYK", "DeviceGray", "CS0", "Pattern")]
)
GS_STRUCT = [("q",), ("cm", 1, 0, 0, 1, 16, 24), ("cm", 0, 1, -1, 0, 96, 0)]
GS_ILL = [("w",), ("w", b"x"), ("rg", 1, 0), ("d", (3, 1)), ("cm", 1, 0, 0, 1, 5)]
# full operand count, one operand of the wrong type: neither the colour nor the colour *space* may change
GS_ILL_COLOUR = [("cs", "/Undefined"), ("CS", "/Undefined"), ("g", b"x"), ("G", "/N"), ("rg", 1, 0, b"x"), ("RG", "/N", 0, 1), ("k", 0, 0, (1,), 1), ("K", 1, 0, b"x", 0)]


def colour_ill_events(m: "GM") -> List[Tuple]:
    ev = []
    for op, stroking in (("sc", False), ("SCN", True)):
        n = SPACES[m.gs["scs" if stroking else "ncs"]]
        if n is None:
            continue
        ev.append((op,) + {1: (b"x",), 3: (1, "/N", 0), 4: (0, 0, b"x", 1)}[n])
    return ev



def gs_enabled(m: GM) -> List[Tuple]:
    ev = list(GS_EVENTS) + colour_events(m) + list(GS_STRUCT)
    if m.stack:
        ev.append(("Q",))
    ev += GS_ILL + GS_ILL_COLOUR + colour_ill_events(m)
    # a colour operator with fewer operands than the current space has components
    if SPACES[m.gs["ncs"]] not in (None, 1):
        ev.append(("sc", Fr(1, 2)))
    if SPACES[m.gs["scs"]] not in (None,):
        ev.append(("SCN",))
    return ev


def gs_enabled_small(m: GM) -> List[Tuple]:
    """colour-space / save-restore core of the alphabet, searched one level deeper"""
    ev = [("q",)]
    if m.stack:
        ev.append(("Q",))
    ev += [("cs", "/DeviceRGB"), ("cs", "/DeviceCMYK"), ("cs", "/DeviceGray"), ("CS", "/DeviceRGB"), ("CS", "/CS0"),
           ("g", Fr(1, 2)), ("RG", 0, Fr(1, 2), 1), ("w", 2), ("d", (3, 1), 0), ("cm", 1, 0, 0, 1, 16, 24)]
    ev += [e for e in colour_events(m) if e[0] in ("sc", "SC")]
    return ev


GS_FAMILIES = {"all": gs_enabled, "core": gs_enabled_small}

PROBE = (("re", 8, 16, 16, 32), ("B",), ("m", 40, 16), ("l", 56, 24), ("S",))

# ------------------------------------------------------------------ alphabet: path objects
PTS = [(8, 16), (24, 16), (24, 48), (8, 48), (40, 56), (8, 32)]
C1, C2 = (10, 30), (20, 40)
RECTS = [(8, 16, 16, 32), (30, 10, -12, 20)]
CTMS = [
    None,
    ("cm", 1, 0, 0, 1, 16, 24),       # translate
    ("cm", 2, 0, 0, Fr(1, 2), 0, 0),  # anisotropic scale
    ("cm", 0, 1, -1, 0, 96, 0),       # rotate 90: rectangles stay rectangles
    ("cm", 1, 1, -1, 1, 64, 0),       # rotate 45 (x sqrt 2): rectangles become general quadrilaterals
    ("cm", 1, 0, Fr(1, 2), 1, 0, 0),  # shear
    ("cm", -1, 0, 0, 1, 128, 0),      # mirror
]


def gen_paths(maxlen: int, curves: bool) -> Iterator[Tuple[Tuple, ...]]:
    """every path object of 2..maxlen construction operators: begins with m or re, every m is followed by a segment
    or (once per path) by another m that overrides it,
    h only after a segment, nothing but m/re after h or re, end points pairwise distinct"""

    doubled = [False]

    def rec(ops, used, state, n):
        # state: "start" (nothing yet), "m" (just moved), "seg" (open subpath with >=1 segment), "closed"
        if state in ("seg", "closed") and n >= 2:
            yield tuple(ops)
        if n >= maxlen:
            return
        free = [i for i in range(len(PTS)) if i not in used]
        if state in ("start", "seg", "closed"):
            for i in free:
                if n + 2 <= maxlen:  # an m needs a following segment
                    yield from rec(ops + [("m",) + PTS[i]], used | {i}, "m", n + 1)
            for r in RECTS:
                yield from rec(ops + [("re",) + r], used, "closed", n + 1)
        if state == "m" and not doubled[0] and free and n + 2 <= maxlen:
            # one m directly after another (at most once per path): the later one overrides the earlier
            doubled[0] = True
            yield from rec(ops + [("m",) + PTS[free[0]]], used | {free[0]}, "m", n + 1)
            doubled[0] = False
        if state in ("m", "seg"):
            for i in free:
                yield from rec(ops + [("l",) + PTS[i]], used | {i}, "seg", n + 1)
            if curves and free:
                i = free[0]
                yield from rec(ops + [("c",) + C1 + C2 + PTS[i]], used | {i}, "seg", n + 1)
                yield from rec(ops + [("v",) + C2 + PTS[i]], used | {i}, "seg", n + 1)
                yield from rec(ops + [("y",) + C1 + PTS[i]], used | {i}, "seg", n + 1)
        if state == "seg":
            yield from rec(ops + [("h",)], used, "closed", n + 1)

    # single-operator objects: a lone rectangle
    for r in RECTS:
        yield (("re",) + r,)
    yield from rec([], frozenset(), "start", 0)


PAGES_SHARDS = 4
PATH_ILL = [("l", 8), ("l", b"x", 16), ("re", 8, 16, 16), ("c", 1, 2, 3, 4, 5), ("v", "/N", 2, 3, 4)]

BOUNDS = {
    "quick": {"gs_depth": {"all": 3, "core": 4}, "gs_shard_depth": {"all": 1, "core": 2}, "path_len_curves": 4, "path_len_lines": 5,
              "ill_len": 3, "pages_len": 4, "batch": 24, "lines_ends": list(PAINT) + ["n"], "lines_ctm_ends": ["S", "b*"]},
    "thorough": {"gs_depth": {"all": 4, "core": 5}, "gs_shard_depth": {"all": 2, "core": 2}, "path_len_curves": 5, "path_len_lines": 6,
                 "ill_len": 3, "pages_len": 4, "batch": 24, "lines_ends": list(PAINT) + ["n"], "lines_ctm_ends": ["S", "b*"]},
}

META = {
    "rule": (
        "family gs: breadth-first search over graphics-state operator histories ('all': w x2, d x2, g G rg RG k K, cs/CS x5 spaces incl. ICCBased N=3 and "
        "Pattern, sc scn SC SCN with the operand count of the current space, q Q, cm x2, 7 ill-formed instances with missing operands, ill-typed full-count g G rg RG k K sc SCN, cs/CS naming an undefined space (no effect); 'core': q Q cs x3 CS x2 sc SC g RG w d cm, "
        "one level deeper) to gs_depth; state = (canonical real "
        "interpreter state, model state), deduplicated; after every transition the probe 're B m l S' is painted and both shapes are compared in every "
        "attribute (class, pts, bbox, original_path, stroke/fill/evenodd, linewidth, dashing_style, stroking/non-stroking colour). "
        "family path: every path object over m l c v y h re (6 end points, pairwise distinct; 2 rectangles; curves to the next free point) of at most "
        "path_len_curves operators x every end operator (S s f f* B B* b b* n) under the identity CTM and x {S, b*} under 6 further CTMs (translate, "
        "scale, rot90, rot45, shear, mirror), and over m l h re only of at most path_len_lines x lines_ends / lines_ctm_ends; objects run back to back (batch) so each is also "
        "followed by another object; family ill: path objects up to ill_len with one ill-formed construction operator inserted at every position "
        "after the first segment; family pages: for every path object of at most pages_len construction operators a 15-page document processed by one "
        "interpreter and one device in which pages end with that object neither painted nor ended by n (alone, or after a painted object), each followed by "
        "a page painting one of 3 fixed programs, plus pages that invoke a form XObject ending the same way before painting; family forms: every caller CTM of the 7-matrix pool x "
        "every form XObject /Matrix of a 5-matrix pool (translation, scale(2,3), rot90, shear, identity) with three painted paths inside, and x every pair "
        "of matrices for a form that invokes a second form under q cm Q and then paints its own path; a closed path painted after Do checks the caller's CTM; 40 further forms "
        "that set w / d / g G rg RG k K / cs+sc / CS+SC (10 setters, with and without q..Q inside the form, directly and through a second form) invoked from a page with known "
        "line width, dash and colours under 2 CTMs, followed outside any q/Q by 're B', a one-operand sc and SC, and a closed path painted with B*: "
        "every attribute and the caller's colour spaces must be what they were before Do; "
        "family illpos (same shard as leak): g G rg RG k K and sc scn SC SCN in 1/3/4-component "
        "spaces with a name or a string at every operand position, one at a time, after a known colour was set; pages with /Rotate 0/90/180/270 and MediaBox "
        "[30 50 230 350] with and without a cm; family leak: "
        "a page (or form, or earlier document in the same process) defining ICCBased N=3 / N=4 colour spaces by name, then pages that do not define the name and "
        "execute 'cs|CS /Name' followed by a one-operand sc|SC and the probe (3 definitions x 4 arrangements x 4 users). A case = one path object x end operator x CTM, or one gs history + probe; non-trivial = at least one shape expected. "
        "states = gs states + nodes of the path-construction tree, transitions = operator applications, traces = programs compared with the model."
    ),
    "bound": {k: str(v) for k, v in BOUNDS.items()},
    "assumptions": [
        "operand values outside the alphabet are not explored; all coordinates and matrices dyadic so the comparison is exact (1e-9 relative otherwise)",
        "not generated (statement silent or ISO non-conformant): a subpath consisting of a lone m, coincident points, a segment appended after h/re without m, "
        "operators other than path construction between the first construction operator and the painting operator, F, W/W*",
        "colours are not judged before a colour has been set in the current colour space (ISO initial values vs pdfminer None), nor in a Pattern space",
        "dashing_style None is accepted for 'never set'",
        "LTRect.pts: corner set, first corner = start point and third = opposite corner are judged; the direction of travel is not",
        "form XObjects appear only in the families forms/pages/leak (fixed contents); inline images and shading are outside this property's quantifier",
    ],
}
DEADLINE = {"quick": 1500, "thorough": 4 * 3600}


# ------------------------------------------------------------------ execution
class Checker:
    def __init__(self, st):
        self.st = st
        self.bench = gfx.Bench(make_doc)
        self.unexplained = 0

    def run_events(self, events):
        lt, it, dev, exc = self.bench.run([gfx.program(events)])
        obs = observe(lt) if exc is None else []
        return obs, it, dev, exc

    def report(self, events, exp, obs, exc, bad, what):
        if self.unexplained <= 40:
            sigs = classify(events, obs, exc)
            if "unclassified" in sigs[0]:
                self.unexplained += 1
        else:
            sigs = ["C16/unclassified-bulk(more than 40 unexplained failing cases in one shard)"]
        for sig in sigs:
            self.st.violation(
                sig, {"events": list(events), "stream": gfx.program(events),
                      "pdf": make_doc([gfx.program(events)]) if self.st.viol_counts[sig] < self.st.MAX_VIOL_PER_SIG else b""},
                gfx.fl(exp), obs if exc is None else gfx.exc_sig(exc),
                f"{what}: differs in {','.join(bad)}" + (f" (explained by {len(sigs)} causes together)" if len(sigs) > 1 else ""),
            )

    def judge(self, events, model: GM, what: str, count: bool = True):
        obs, it, dev, exc = self.run_events(events)
        exp = list(model.out)
        bad = diff(exp, obs) if exc is None else ["exception"]
        if count:
            self.st.traces += 1
            self.st.case(gfx.program(events), nontrivial=bool(exp),
                         outcome=h64([(o["cls"], o["pts"], o["stroke"], o["fill"], o["evenodd"], o["lw"], repr(o["dash"]), repr(o["sc"]), repr(o["nc"])) for o in obs])
                         if exc is None else gfx.exc_sig(exc))
        if bad:
            self.report(events, exp, obs, exc, bad, what)
        return (gfx.canon_interp(it, dev) if exc is None else ("exc", gfx.exc_sig(exc))), bad


def gs_search(st, tier, fam, prefix=(), max_depth=None, collect=False):
    b = BOUNDS[tier]
    ck = Checker(st)
    model = run_model(prefix)

    def step(node, ev):
        m2 = node.model.apply(ev)
        mp = m2
        for p in PROBE:
            mp = mp.apply(p)
        real, _ = ck.judge(node.hist + (ev,) + PROBE, mp, "history+probe")
        return m2, (real, m2.key())

    mp = model
    for p in PROBE:
        mp = mp.apply(p)
    real0, _ = ck.judge(tuple(prefix) + PROBE, mp, "root+probe")
    res = gfx.explore(tuple(prefix), model, GS_FAMILIES[fam], step, b["gs_depth"][fam] if max_depth is None else max_depth, None,
                      start_depth=len(prefix), collect_frontier=collect, root_key=(real0, model.key()))
    return res, ck


def path_jobs(tier) -> List[Tuple]:
    """(family, ctm index, end operator) -- one shard each"""
    b = BOUNDS[tier]
    jobs = []
    for fam in ("curves", "lines"):
        for e in (END_OPS if fam == "curves" else b["lines_ends"]):
            jobs.append(("path", fam, 0, e))
        for c in range(1, len(CTMS)):
            for e in (("S", "b*") if fam == "curves" else b["lines_ctm_ends"]):
                jobs.append(("path", fam, c, e))
    return jobs


def paths_of(tier, fam):
    b = BOUNDS[tier]
    if fam == "curves":
        return gen_paths(b["path_len_curves"], True)
    # lines-only objects longer than what the curves family already covers
    return (p for p in gen_paths(b["path_len_lines"], False) if len(p) > b["path_len_curves"])


def run_batch(ck: Checker, pre: Tuple, objs: List[Tuple], st, what="path"):
    """objs: list of event tuples (construction + end operator). Compare the whole batch, localise on mismatch."""
    events = pre + tuple(e for o in objs for e in o)
    # by the model every end operator leaves an empty path and an unchanged graphics state, so the batch's
    # expectation is the concatenation of the objects' own expectations
    exp: List[Dict[str, Any]] = []
    counts = []
    for o in objs:
        mo = run_model(pre + o)
        assert not mo.path
        counts.append(len(mo.out))
        exp += list(mo.out)
    obs, it, dev, exc = ck.run_events(events)
    ok = exc is None and not diff(exp, obs)
    st.traces += 1
    if ok:
        i = 0
        for o, c in zip(objs, counts):
            st.case(None, nontrivial=c > 0, outcome=h64([(s["cls"], len(s["pts"]), s["stroke"], s["fill"], s["evenodd"]) for s in obs[i:i + c]] + [o[-1][0]]))
            i += c
        return
    # localise: singles first, then adjacent pairs (residue)
    found = False
    for o in objs:
        ev1 = pre + o
        m1 = run_model(ev1)
        o1, _, _, x1 = ck.run_events(ev1)
        bad = diff(list(m1.out), o1) if x1 is None else ["exception"]
        st.case(None, nontrivial=bool(m1.out), outcome=("bad", tuple(bad)) if bad else h64([(s["cls"], len(s["pts"])) for s in o1]))
        if bad:
            found = True
            ck.report(ev1, list(m1.out), o1, x1, bad, what)
    if not found:
        for o, o2 in zip(objs, objs[1:]):
            ev2 = pre + o + o2
            m2 = run_model(ev2)
            ob2, _, _, x2 = ck.run_events(ev2)
            bad = diff(list(m2.out), ob2) if x2 is None else ["exception"]
            if bad:
                found = True
                ck.report(ev2, list(m2.out), ob2, x2, bad, what + " (two consecutive objects)")
        if not found:
            ck.report(events, exp, obs, exc, diff(exp, obs) if exc is None else ["exception"], what + " (whole batch only)")


# ------------------------------------------------------------------ family: no residue across pages / forms
PAGE2 = [
    (("re", 8, 16, 16, 32), ("B",)),
    (("m", 40, 16), ("l", 56, 24), ("S",)),
    (("w", 2), ("m", 8, 16), ("l", 24, 16), ("l", 24, 48), ("h",), ("f*",), ("re", 30, 10, -12, 20), ("s",)),
]
PAGE1_HEAD = [(), (("re", 30, 10, -12, 20), ("f",))]  # page 1 paints nothing / one object before the abandoned path


def pages_check(ck, tail, st):
    """page 1 ends with the construction operators ``tail`` that are never painted nor ended with n; page 2 (same
    interpreter, same device) and a page that first invokes a form XObject ending the same way must not show them"""
    from pdfminer.layout import LTCurve  # noqa

    d = G.Doc()
    form = d.add(G.Stream({"Type": G.N("XObject"), "Subtype": G.N("Form"), "BBox": [0, 0, 200, 200]}, gfx.program(tail)))
    pages = []
    exps = []
    for head in PAGE1_HEAD:
        for p2 in PAGE2:
            pages += [(gfx.program(head + tail), {}), (gfx.program(p2), {})]
            exps += [list(run_model(head + tail).out), list(run_model(p2).out)]
    for p2 in PAGE2:
        pages.append((b"/Fm0 Do " + gfx.program(p2), {"XObject": {"Fm0": form}}))
        exps.append(list(run_model(p2).out))
    data = gfx.pages_doc(pages, doc=d)
    res = gfx.run_pages(data)
    st.traces += 1
    bad = []
    obss = []
    for exp, (lt, exc) in zip(exps, res):
        obs = observe(lt) if exc is None else gfx.exc_sig(exc)
        obss.append(obs)
        b = diff(exp, obs) if exc is None else ["exception"]
        bad += [x for x in b if x not in bad]
    if len(res) != len(pages):
        bad.append("pages")
    st.case(None, nontrivial=True, outcome=h64(repr([[o["cls"] for o in ob] if isinstance(ob, list) else ob for ob in obss])), n=len(pages))
    if bad:
        sig = "C16/residue-across-pages-or-forms:" + ",".join(sorted(bad))
        st.violation(sig, {"family": "pages", "tail": list(tail), "pdf": data if st.viol_counts[sig] < st.MAX_VIOL_PER_SIG else b""},
                     [gfx.fl(e) for e in exps], obss, "path abandoned at the end of a page / form shows up later: " + ",".join(sorted(bad)))


# ------------------------------------------------------------------ family: paths inside form XObjects
FORM_MATS = [
    (1, 0, 0, 1, 100, 50),        # translation
    (2, 0, 0, 3, 0, 0),           # anisotropic scale
    (0, 1, -1, 0, 96, 0),         # rotation by 90
    (1, 0, Fr(1, 2), 1, 0, 0),    # shear
    (1, 0, 0, 1, 0, 0),           # identity
]
FORM_BODY = (("re", 8, 16, 16, 32), ("B",), ("m", 40, 16), ("l", 56, 24), ("S",), ("m", 8, 16), ("c", 10, 30, 20, 40, 24, 48), ("f*",))
# a form that invokes another form and then paints itself: its own path must again use its own CTM
NEST_BODY = (("q",), ("cm", 1, 0, 0, 1, 4, 8), ("Do", "/In"), ("Q",), ("m", 40, 56), ("l", 8, 32), ("S",))
AFTER_FORM = (("m", 24, 48), ("l", 40, 56), ("l", 8, 32), ("h",), ("S",))
FORMS: Dict[str, Dict[str, Any]] = {}
for _i, _m in enumerate(FORM_MATS):
    FORMS[f"Fm{_i}"] = {"matrix": _m, "events": FORM_BODY, "xobjects": {}}
for _i, _m in enumerate(FORM_MATS):
    for _j in range(len(FORM_MATS)):
        FORMS[f"Nf{_i}x{_j}"] = {"matrix": _m, "events": NEST_BODY, "xobjects": {"In": f"Fm{_j}"}}


# forms that change the graphics state: with and without q/Q of their own, directly and through another form.
# Invoking a form is q, Matrix cm, paint, Q (ISO 8.10.1): afterwards the caller's state is what it was before.
STATE_SETTERS = [
    (("w", 5),), (("d", (2, 2), 1),), (("g", Fr(1, 4)),), (("G", Fr(3, 4)),), (("rg", 0, 1, Fr(1, 4)),), (("RG", 1, Fr(1, 4), 0),),
    (("k", 1, 0, Fr(1, 4), 0),), (("K", 0, 1, 0, Fr(1, 4)),), (("cs", "/DeviceRGB"), ("sc", Fr(1, 2), Fr(1, 4), 1)),
    (("CS", "/DeviceCMYK"), ("SC", Fr(1, 4), Fr(1, 2), Fr(3, 4), 0)),
]
STATE_FORMS: List[str] = []
for _i, _set in enumerate(STATE_SETTERS):
    for _w in (0, 1):
        _body = _set + (("re", 30, 10, -12, 20), ("B",))
        FORMS[f"St{_i}w{_w}"] = {"matrix": FORM_MATS[0], "events": ((("q",),) + _body + (("Q",),)) if _w else _body, "xobjects": {}}
        FORMS[f"Sn{_i}w{_w}"] = {"matrix": FORM_MATS[1], "events": (("Do", "/In"), ("m", 40, 56), ("l", 8, 32), ("S",)),
                                 "xobjects": {"In": f"St{_i}w{_w}"}}
        STATE_FORMS += [f"St{_i}w{_w}", f"Sn{_i}w{_w}"]
CALLER_STATE = (("w", 2), ("d", (3, 1), 0), ("g", Fr(1, 2)), ("G", Fr(1, 4)))
# painted after Do, outside any q/Q: every graphics-state attribute is observed, then a one-operand sc/SC (valid only if
# the caller's colour spaces are still DeviceGray) and another path
AFTER_STATE = (("re", 8, 16, 16, 32), ("B",), ("sc", Fr(3, 4)), ("SC", Fr(1, 8)), ("m", 24, 48), ("l", 40, 56), ("l", 8, 32), ("h",), ("B*",))


def forms_check(st):
    """every caller CTM of the pool x every form Matrix (and every Matrix pair for form-in-form): most pairs do not commute"""
    d = G.Doc()
    refs: Dict[str, Any] = {}
    for key in sorted(FORMS, key=lambda k: (bool(FORMS[k]["xobjects"]), k)):  # leaf forms first
        f = FORMS[key]
        res: Dict[str, Any] = {}
        if f["xobjects"]:
            res["XObject"] = {n: refs[k] for n, k in f["xobjects"].items()}
        refs[key] = d.add(G.Stream({"Type": G.N("XObject"), "Subtype": G.N("Form"), "BBox": [0, 0, 400, 400],
                                    "Matrix": list(f["matrix"]), "Resources": res}, gfx.program(f["events"])))
    page_res = {"XObject": dict(refs)}
    pages, progs = [], []
    for cm in CTMS:
        for key in sorted(FORMS):
            if key in STATE_FORMS:
                continue
            evs = (("w", 2),) + ((cm,) if cm else ()) + (("Do", "/" + key),) + AFTER_FORM
            progs.append(evs)
            pages.append((gfx.program(evs), page_res))
    for cm in (None, CTMS[2]):
        for key in STATE_FORMS:
            evs = CALLER_STATE + ((cm,) if cm else ()) + (("Do", "/" + key),) + AFTER_STATE
            progs.append(evs)
            pages.append((gfx.program(evs), page_res))
    data = gfx.pages_doc(pages, doc=d)
    out = gfx.run_pages(data)
    st.traces += 1
    if len(out) != len(pages):
        st.violation("C16/forms:pages", {"family": "forms"}, len(pages), len(out), "page count")
    for evs, (lt, exc) in zip(progs, out):
        m = GM()
        m.res = {k: k for k in FORMS}
        for ev in evs:
            m._do(ev)
        exp = list(m.out)
        obs = observe(lt) if exc is None else gfx.exc_sig(exc)
        bad = diff(exp, obs) if exc is None else ["exception"]
        st.case(None, nontrivial=True, outcome=h64(repr([(o["cls"], o["pts"], o["lw"], repr(o["dash"]), o["sc"], o["nc"]) for o in obs]) if exc is None else obs))
        if bad:
            sig = "C16/path-in-form-xobject:" + ",".join(sorted(bad))
            st.violation(sig, {"family": "forms", "events": list(evs), "pdf": data if st.viol_counts[sig] < 1 else b""},
                         gfx.fl(exp), obs, "shapes painted inside / after a form XObject with a Matrix: " + ",".join(sorted(bad)))
    st.states += len(pages) + 1
    st.transitions += len(pages)
    st.add("form_pages", len(pages))


# ------------------------------------------------------------------ family: ill-typed operand at every position; rotated pages
def _ill_variants(vals):
    for pos in range(len(vals)):
        for bad in ("/X", b"s"):
            yield tuple(vals[:pos]) + (bad,) + tuple(vals[pos + 1:])


def illpos_check(st):
    """(a) every colour operator with one operand of the wrong type at every position, after a known colour was set:
    nothing changes; (b) pages with /Rotate 0/90/180/270 and a MediaBox whose lower-left corner has x0 != y0: the
    visible page's lower-left corner is the origin of the reported coordinates"""
    pages, models = [], []
    q4 = (Fr(1, 4), Fr(1, 2), Fr(3, 4), 0)
    direct = [("g", (Fr(1, 8),), ("rg", 1, 0, Fr(1, 2))), ("G", (Fr(1, 8),), ("RG", 0, Fr(1, 2), 1)),
              ("rg", (0, 1, Fr(1, 4)), ("g", Fr(1, 2))), ("RG", (1, Fr(1, 4), 0), ("G", Fr(1, 4))),
              ("k", q4, ("rg", 1, 0, Fr(1, 2))), ("K", q4, ("RG", 0, Fr(1, 2), 1))]
    for op, vals, setup in direct:
        for ill in _ill_variants(vals):
            evs = (("w", 2), setup, (op,) + ill) + PROBE
            pages.append((gfx.program(evs), {}))
            models.append((evs, gfx.IDENT))
    good = {1: (Fr(3, 4),), 3: (Fr(1, 2), Fr(1, 4), 1), 4: (0, Fr(1, 4), Fr(1, 2), 1)}
    other = {1: (Fr(1, 8),), 3: (0, 1, Fr(1, 4)), 4: q4}
    for space, n in (("DeviceGray", 1), ("DeviceRGB", 3), ("DeviceCMYK", 4)):
        for op in ("sc", "scn", "SC", "SCN"):
            for ill in _ill_variants(other[n]):
                evs = (("w", 2), ("CS" if op.isupper() else "cs", "/" + space), (op,) + good[n], (op,) + ill) + PROBE
                pages.append((gfx.program(evs), {}))
                models.append((evs, gfx.IDENT))
    x0, y0, x1, y1 = 30, 50, 230, 350
    # device space = the page as displayed, its lower-left corner at the origin (Rotate is clockwise, ISO table 30)
    rot = {0: (1, 0, 0, 1, -x0, -y0), 90: (0, -1, 1, 0, -y0, x1), 180: (-1, 0, 0, -1, x1, y1), 270: (0, 1, -1, 0, y1, -x0)}
    for r, m0 in rot.items():
        for cm in (None, CTMS[2]):
            evs = (("w", 2),) + ((cm,) if cm else ()) + PROBE + (("m", 8, 16), ("l", 8, 48), ("l", 24, 48), ("l", 24, 16), ("h",), ("f",))
            pages.append((gfx.program(evs), {}, {"MediaBox": [x0, y0, x1, y1], "Rotate": r}))
            models.append((evs, m0))
    data = gfx.pages_doc(pages)
    out = gfx.run_pages(data)
    st.traces += 1
    for (evs, m0), (lt, exc) in zip(models, out):
        m = GM()
        m.gs["ctm"] = m0
        for ev in evs:
            m._do(ev)
        exp = list(m.out)
        obs = observe(lt) if exc is None else gfx.exc_sig(exc)
        bad = diff(exp, obs) if exc is None else ["exception"]
        st.case(None, nontrivial=True, outcome=h64(repr([(o["pts"], o["sc"], o["nc"]) for o in obs]) if exc is None else obs))
        if bad:
            sig = ("C16/rotated-page-initial-ctm:" if m0 is not gfx.IDENT else "C16/ill-typed-colour-operand:") + ",".join(sorted(bad))
            st.violation(sig, {"family": "illpos", "events": list(evs), "pdf": data if st.viol_counts[sig] < 1 else b""},
                         gfx.fl(exp), obs, "ill-typed colour operand / rotated page: " + ",".join(sorted(bad)))
    if len(out) != len(pages):
        st.violation("C16/illpos:pages", {"family": "illpos"}, len(pages), len(out), "page count")
    st.states += len(pages)
    st.transitions += len(pages)
    st.add("illpos_pages", len(pages))


# ------------------------------------------------------------------ family: named colour spaces do not leak
def leak_check(st):
    """A page's /ColorSpace names exist for that page only.  Later pages, forms' callers and later documents that do
    not define a name must treat 'cs /Name' as undefined (no effect), so a following sc in the true current space works."""
    n_docs = 0
    users = []
    for name in ("CS0", "CS4"):
        for op, col in (("cs", "sc"), ("CS", "SC")):
            users.append(((op, "/" + name), (col, Fr(3, 4))) + PROBE)
    for defines in (("CS0",), ("CS4",), ("CS0", "CS4")):
        for arrangement in ("next-page", "page-between", "form", "next-document"):
            d = G.Doc()
            icc3 = d.add(G.Stream({"N": 3}, b"\x00" * 8))
            icc4 = d.add(G.Stream({"N": 4}, b"\x00" * 8))
            spaces = {"CS0": [G.N("ICCBased"), icc3], "CS4": [G.N("ICCBased"), icc4]}
            res1 = {"ColorSpace": {k: spaces[k] for k in defines}}
            first = tuple(e for k in defines for e in (("cs", "/" + k), ("CS", "/" + k))) + (("re", 30, 10, -12, 20), ("f",))
            form = d.add(G.Stream({"Type": G.N("XObject"), "Subtype": G.N("Form"), "BBox": [0, 0, 200, 200], "Resources": res1}, gfx.program(first)))
            docs = []
            if arrangement == "next-page":
                docs.append([(first, res1, None)] + [(u, {}, u) for u in users])
            elif arrangement == "page-between":
                docs.append([(first, res1, None), (PROBE, {}, PROBE)] + [(u, {}, u) for u in users])
            elif arrangement == "form":
                docs.append([((("Do", "/Fm0"),) + u, {"XObject": {"Fm0": form}}, None) for u in users])
            else:
                docs.append([(first, res1, None)])
                docs.append([(u, {}, u) for u in users])
            for k, pages in enumerate(docs):
                dd = d if k == 0 else G.Doc()
                data = gfx.pages_doc([(gfx.program(evs), res) for evs, res, _ in pages], doc=dd)
                out = gfx.run_pages(data)
                n_docs += 1
                st.traces += 1
                for (evs, res, judged), (lt, exc) in zip(pages, out):
                    if arrangement == "form":
                        # the form paints its own rectangle first, then the page's probe shapes follow
                        # colour-space selections inside the form do not survive it (q/Q around a form, ISO 8.10.1)
                        exp = list(run_model(first).out) + list(run_model(tuple(e for e in evs if e[0] != "Do")).out)
                    elif judged is None:
                        continue
                    else:
                        exp = list(run_model(judged).out)
                    obs = observe(lt) if exc is None else gfx.exc_sig(exc)
                    bad = diff(exp, obs) if exc is None else ["exception"]
                    st.case(None, nontrivial=True, outcome=h64(repr([(o["sc"], o["nc"]) for o in obs]) if exc is None else obs))
                    if bad:
                        sig = "C16/named-colour-space-leaks:" + ",".join(sorted(bad))
                        st.violation(sig, {"family": "leak", "defines": list(defines), "arrangement": arrangement, "page": gfx.program(evs),
                                           "pdf": data if st.viol_counts[sig] < st.MAX_VIOL_PER_SIG else b""},
                                     gfx.fl(exp), obs, f"colour space name defined elsewhere ({arrangement}) is selectable: " + ",".join(sorted(bad)))
    st.states += n_docs + 1
    st.transitions += n_docs
    st.add("leak_documents", n_docs)


def tree_size(paths) -> Tuple[int, int]:
    """nodes / edges of the prefix tree of the enumerated construction sequences"""
    seen = set()
    for p in paths:
        for i in range(1, len(p) + 1):
            seen.add(p[:i])
    return len(seen) + 1, len(seen)


def shards(tier):
    from mc.core import Stats

    b = BOUNDS[tier]
    out: List[Tuple] = []
    for fam in GS_FAMILIES:
        out.append(("gs-pre", fam))
        res, _ = gs_search(Stats(), tier, fam, max_depth=b["gs_shard_depth"][fam], collect=True)
        for node in res["frontier"]:
            out.append(("gs-sub", fam, node.hist))
    out += path_jobs(tier)
    out.append(("ill",))
    out += [("pages", i) for i in range(PAGES_SHARDS)]
    out.append(("leak",))
    out.append(("forms",))
    return out


def run_shard(shard, tier, st):
    b = BOUNDS[tier]
    kind = shard[0]
    if kind == "gs-pre":
        res, ck = gs_search(st, tier, shard[1], max_depth=b["gs_shard_depth"][shard[1]], collect=True)
        st.states += res["states"] + 1
        st.transitions += res["transitions"]
        st.sample({"family": "gs-" + shard[1], "program": gfx.program((("q",), ("cs", "/DeviceRGB"), ("Q",), ("sc", Fr(3, 4))) + PROBE)})
    elif kind == "gs-sub":
        prefix = tuple(gfx.ev_from_json(e) for e in shard[2])
        res, ck = gs_search(st, tier, shard[1], prefix=prefix)
        st.states += res["states"]
        st.transitions += res["transitions"]
    elif kind == "path":
        _, fam, ci, endop = shard
        ck = Checker(st)
        # the line width is set explicitly here; the never-set case belongs to the gs family
        pre = (("w", 2),) + ((CTMS[ci],) if CTMS[ci] else ())
        batch: List[Tuple] = []
        n = 0
        first = None
        all_paths = list(paths_of(tier, fam))
        if ci == 0 and endop == "S":
            nodes, edges = tree_size(all_paths)
            st.states += nodes
            st.transitions += edges
        for p in all_paths:
            obj = tuple(p) + ((endop,),)
            first = first or obj
            batch.append(obj)
            n += 1
            if len(batch) == b["batch"]:
                run_batch(ck, pre, batch, st)
                batch = []
        if batch:
            run_batch(ck, pre, batch, st)
        st.add("path_objects_painted", n)
        if first is not None and endop in ("S", "b*") and fam == "curves":
            st.sample({"family": "path", "ctm": CTMS[ci], "end": endop, "first_object": gfx.program(pre + first), "objects": n})
    elif kind == "ill":
        ck = Checker(st)
        batch = []
        n = 0
        for p in gen_paths(b["ill_len"], True):
            # positions after the first segment of the first subpath, never between m and its first segment
            for pos in range(1, len(p) + 1):
                if p[pos - 1][0] == "m":
                    continue
                for ill in PATH_ILL:
                    for endop in ("S", "b"):
                        obj = p[:pos] + (ill,) + p[pos:] + ((endop,),)
                        batch.append(obj)
                        n += 1
                        if len(batch) == b["batch"]:
                            run_batch(ck, (("w", 2),), batch, st, "ill-formed construction operator")
                            batch = []
        if batch:
            run_batch(ck, (("w", 2),), batch, st, "ill-formed construction operator")
        st.add("illformed_path_objects", n)
    elif kind == "forms":
        ck = Checker(st)
        forms_check(st)
        st.sample({"family": "forms", "page": gfx.program((("w", 2), CTMS[2], ("Do", "/Nf0x2")) + AFTER_FORM), "Nf0x2": gfx.program(NEST_BODY),
                   "matrices": [list(map(float, m)) for m in FORM_MATS]})
    elif kind == "leak":
        ck = Checker(st)
        leak_check(st)
        illpos_check(st)
        st.sample({"family": "leak", "page1_defines": "CS0 [/ICCBased N=3]", "page2": gfx.program((("cs", "/CS0"), ("sc", Fr(3, 4))) + PROBE)})
    elif kind == "pages":
        ck = Checker(st)
        tails = [p for i, p in enumerate(gen_paths(b["pages_len"], True)) if i % PAGES_SHARDS == shard[1]]
        for t in tails:
            pages_check(ck, tuple(t), st)
        st.states += len(tails) + 1
        st.transitions += len(tails)
        st.add("multi_page_documents", len(tails))
        if shard[1] == 0 and tails:
            st.sample({"family": "pages", "page1_ends_with": gfx.program(tails[-1]), "page2": [gfx.program(p) for p in PAGE2]})
    else:
        raise ValueError(shard)
    st.add("real_runs", ck.bench.runs)


def replay(case):
    if case.get("family") == "illpos":
        from mc.core import Stats

        st = Stats()
        illpos_check(st)
        return [{"signature": v["signature"], "expected": repr(v["expected"]), "observed": repr(v["observed"])} for v in st.violations][:1]
    if case.get("family") == "forms":
        from mc.core import Stats

        st = Stats()
        forms_check(st)
        return [{"signature": v["signature"], "expected": repr(v["expected"]), "observed": repr(v["observed"])}
                for v in st.violations][:1]
    if case.get("family") == "leak":
        from mc.core import Stats

        st = Stats()
        leak_check(st)
        return [{"signature": v["signature"], "expected": repr(v["expected"]), "observed": repr(v["observed"])}
                for v in st.violations if v["signature"].startswith("C16/named-colour-space-leaks")][:1]
    if case.get("family") == "pages":
        from mc.core import Stats

        st = Stats()
        pages_check(Checker(st), tuple(gfx.ev_from_json(e) for e in case["tail"]), st)
        return [{"signature": v["signature"], "expected": repr(v["expected"]), "observed": repr(v["observed"])} for v in st.violations]
    events = tuple(gfx.ev_from_json(e) for e in case["events"])
    ck = Checker(None)
    obs, it, dev, exc = ck.run_events(events)
    model = run_model(events)
    exp = list(model.out)
    bad = diff(exp, obs) if exc is None else ["exception"]
    if not bad:
        return []
    return [{"signature": s, "expected": repr(gfx.fl(exp)), "observed": repr(obs if exc is None else gfx.exc_sig(exc))}
            for s in classify(events, obs, exc)]
