"""C04 -- page tree: order, inheritance, rotation/box normalisation, page selection.

Shape B: every ordered rooted tree of /Pages and /Page nodes up to a size bound, with every placement of one
inheritable attribute (absent / value1 / value2 per node; all four attributes jointly on the two-node tree; at most
two deviations from "root only" on the largest trees), direct and indirect spellings; every tree with one extra Kids
entry pointing at any node (cycles, repeated nodes); every Rotate x MediaBox x placement x spelling for the page
coordinate system; every page_numbers subset x maxpages through the three entry points.  Documents are written by
``mc/refs/pagetree.py`` and read by the real ``PDFPage`` / interpreter / high-level functions.
"""
from __future__ import annotations

import io
import itertools
import traceback
from typing import Any, Dict, List, Optional, Sequence, Tuple

from mc.core import h64
from mc.explore import ChoiceExplorer, ordered_trees
from mc.refs import pagetree as pt

ID = "C04"
LEVEL = "model_checking"
DEADLINE = {"quick": 900, "thorough": 3 * 3600}

POOL = {
    "Resources": ("A", "B"),
    "MediaBox": ((0, 0, 200, 100), (10, 20, 210, 120)),
    "CropBox": ((5, 5, 50, 50), (20, 30, 100, 90)),
    "Rotate": (90, 0),  # an explicit 0 on a child must win over an inherited 90
}
ROOT_DEFAULT = {"Resources": "A", "MediaBox": (0, 0, 200, 100), "CropBox": None, "Rotate": None}
ROTATE_POOL = (None, 0, 90, 180, 270, 360, 450, -90, -270, -180, 720, 630, -450)
MEDIABOX_POOL = ((0, 0, 200, 100), (10, 20, 210, 120), (-10, -20, 90, 80))
# the same boxes given by other pairs of diagonally opposite corners (ISO 32000-1 7.9.5)
MEDIABOX_REVERSED = ((200, 100, 0, 0), (210, 20, 10, 120), (10, 120, 210, 20))

BOUNDS = {
    "quick": {"resources_max_nodes": 3, "single_attr_max_nodes": 4, "joint4_nodes": 2, "pair_max_nodes": 0, "dev_nodes": (5,), "dev_bound": 2, "cycle_max_nodes": 5},
    "thorough": {"resources_max_nodes": 4, "single_attr_max_nodes": 5, "joint4_nodes": 2, "pair_max_nodes": 3, "dev_nodes": (5, 6), "dev_bound": 2, "cycle_max_nodes": 6},
}

META = {
    "rule": (
        "tree part: all ordered rooted trees (root /Pages, other leaves /Page or empty /Pages) with <= single_attr_max_nodes "
        "nodes x each of Resources/MediaBox/CropBox/Rotate placed {absent, v1, v2}^nodes (other attributes at the root only) "
        "x {all values direct, all values indirect}; all four attributes jointly {absent,v1,v2}^(4*2) on the 2-node tree; "
        "(thorough) every attribute pair on trees <= pair_max_nodes nodes; trees of dev_nodes nodes (leaf types included as "
        "choices) with <= dev_bound deviations from 'root only', enumerated by the choice explorer. cycle part: every tree "
        "<= cycle_max_nodes nodes x every /Pages node x every Kids position x every target node for one extra Kids entry. "
        "resources part: every tree <= resources_max_nodes nodes x Resources {absent, A, B, explicit << >>}^nodes x {direct, indirect}, all pages using the "
        "same font resource name, rendered through one interpreter (low level and extract_pages): a page with empty/absent effective Resources must not be "
        "drawn with another page's font. deep-tree part (both tiers): chains of 50/400/1100/2500 nested /Pages nodes with one page at the bottom or one page on every level "
        "(both Kids orders), attributes on the root only or on every 100th level, and a variant whose deepest Kids point back at the root and the middle node; judged "
        "through create_pages (order, attributes, getobj budget), get_pages with 8 page_numbers/maxpages pairs and extract_text (distinct label per page); the reference is iterative. "
        "geometry part: 13 Rotate values x 6 MediaBoxes (3 of them given by reversed corners) x {on page, on parent} x CropBox {absent, present} x 3 spellings, "
        "through PDFPageAggregator(laparams=None) and extract_pages; the rotation= argument of extract_text_to_fp over {0,90,180,270,360,-90,450} x the 13 page Rotate values x 6 MediaBoxes, observed through the XML output parsed back (page box, a filled rectangle, the glyph) against (Rotate + rotation) mod 360; the same over 6 three-page documents with different own/inherited Rotate per page (every page turned by its own sum). "
        "empty-page part: 3 four-page trees x an empty page (no Contents / empty Contents array / non-painting content) first, second or last x 6 selections, through extract_pages (one layout per page) and extract_text (one form feed per page). "
        "carry-over part: two pages with different page matrices through one interpreter (process_page and extract_pages), page 1 ending with one of 6 unbalanced "
        "constructs (q, q..cm, an open text object, an unpainted path), page 2 starting with one of 7 prefixes (stray Q's, f, ET): page 2 must sit in its own coordinate system and show only its own glyph. "
        "selection part: 25 further page_numbers containers (lists with repeated/unsorted/negative/out-of-range entries, tuples, ranges, dict keys, frozensets) x maxpages {0,2,3,5}; 3 four-page trees x 64 page_numbers sets "
        "(all subsets of {0..4}, with and without an out-of-range 7) x maxpages 0..5 x {get_pages, extract_text, extract_pages}. "
        "A case is one document (or one selection call); non-trivial = at least one page takes at least one attribute from an "
        "ancestor, or Rotate != 0 / MediaBox origin != 0, or a non-empty selection. states/transitions = choice-tree nodes/edges "
        "(product families: one node per document plus one per attribute decision), traces = documents (calls) compared."
    ),
    "bound": {k: str(v) for k, v in BOUNDS.items()},
    "assumptions": [
        "Rotate values are multiples of 90; a MediaBox is always defined for a page that is rendered; reversed-corner boxes only in the geometry part",
        "inheritable keys in the catalog, Kids entries that are direct dictionaries, nodes without /Type are not generated",
        "a node first reached through a Kids entry of a node that is not its /Parent is only judged for termination and for being produced exactly once",
        "an empty page_numbers container is modelled as 'no selection' (documented truthiness); CropBox absent is modelled as MediaBox (ISO default)",
        "termination is judged by a budget of getobj calls (40 per node + 200), not by time",
        "trees larger than the bound and attribute values outside the pools are not explored; deep trees are chains only (depths 50, 400, 1100, 2500); the interpreter's recursion limit is left at its default",
    ],
}


class Livelock(Exception):
    pass


# ------------------------------------------------------------------- observation
def exc_sig(e: BaseException) -> str:
    tb = traceback.extract_tb(e.__traceback__)
    return f"{type(e).__name__}@{tb[-1].name}"


def open_doc(data: bytes, budget: int):
    from pdfminer.pdfdocument import PDFDocument
    from pdfminer.pdfparser import PDFParser

    doc = PDFDocument(PDFParser(io.BytesIO(data)))
    real = doc.getobj
    cnt = [0]

    def counted(objid):
        cnt[0] += 1
        if cnt[0] > budget:
            raise Livelock(f"more than {budget} getobj calls")
        return real(objid)

    doc.getobj = counted  # type: ignore[method-assign]
    return doc


def font_of(resources: Any) -> Any:
    from pdfminer.pdftypes import resolve1

    try:
        res = resolve1(resources)
        if not res:
            return None
        f = resolve1(resolve1(res["Font"])["F1"])
        name = f["BaseFont"]
        return getattr(name, "name", repr(name))
    except Exception as e:  # noqa
        return ("EXC", type(e).__name__)


def observe_pages(data: bytes, nnodes: int, render: bool = True) -> Dict[str, Any]:
    from pdfminer.converter import PDFPageAggregator
    from pdfminer.layout import LTChar
    from pdfminer.pdfinterp import PDFPageInterpreter, PDFResourceManager
    from pdfminer.pdfpage import PDFPage

    obs: Dict[str, Any] = {}
    try:
        doc = open_doc(data, 40 * nnodes + 200)
        pages = []
        rendered = []
        rsrc = PDFResourceManager()
        dev = PDFPageAggregator(rsrc, laparams=None)
        interp = PDFPageInterpreter(rsrc, dev)
        for p in PDFPage.create_pages(doc):
            pages.append((p.pageid, font_of(p.resources), tuple(p.mediabox), tuple(p.cropbox), p.rotate))
            if len(pages) > 4 * nnodes + 8:
                raise Livelock("more pages than nodes")
            if render:
                interp.process_page(p)
                lay = dev.get_result()
                chars = [(c.get_text(), c.fontname, tuple(c.matrix)) for c in lay if isinstance(c, LTChar)]
                rendered.append((tuple(lay.bbox), chars))
        obs["pages"] = pages
        obs["rendered"] = rendered
    except RecursionError:
        obs["exc"] = "RecursionError"
    except Livelock as e:
        obs["exc"] = "Livelock"
    except Exception as e:  # noqa
        obs["exc"] = exc_sig(e)
    return obs


def num_eq(a: Sequence[Any], b: Sequence[Any]) -> bool:
    return len(a) == len(b) and all(float(x) == float(y) for x, y in zip(a, b))


def expected_pages(nodes, attrs, variant="spec"):
    pages, full = pt.walk(nodes, attrs, variant)
    out = []
    for k, (i, eff) in enumerate(pages):
        mb = eff["MediaBox"]
        cb = eff["CropBox"] if eff["CropBox"] is not None else mb
        out.append({
            "node": i, "pageid": pt.NODE_BASE + i, "font": pt.FONT_NAMES.get(eff["Resources"]), "mediabox": mb, "cropbox": cb,
            "rotate": pt.reduce_rotate(eff["Rotate"]), "letter": pt.page_letter(k), "point": pt.page_point(k),
        })
    return out, full


FIELDS = (("font", 1, "Resources"), ("mediabox", 2, "MediaBox"), ("cropbox", 3, "CropBox"), ("rotate", 4, "Rotate"))


def field_eq(name: str, e: Any, o: Any) -> bool:
    if name in ("mediabox", "cropbox"):
        if e is None:
            return True  # no MediaBox anywhere on the path: not judged
        norm = (min(e[0], e[2]), min(e[1], e[3]), max(e[0], e[2]), max(e[1], e[3]))
        return num_eq(e, o) or num_eq(norm, o)
    return e == o


def judge_tree(case: Dict[str, Any], obs: Optional[Dict[str, Any]] = None) -> List[Tuple[str, Any, Any, str]]:
    nodes, attrs = case["nodes"], case["attrs"]
    if obs is None:
        obs = observe_pages(case["data"], len(nodes), case.get("render", True))
    exp, full = expected_pages(nodes, attrs)
    out: List[Tuple[str, Any, Any, str]] = []
    cyc = "cycle:" if case.get("extra") else ""
    if "exc" in obs:
        return [(f"C04/{cyc}exception:{obs['exc']}", [e["pageid"] for e in exp], obs["exc"], "walking the page tree raised / did not terminate")]
    oids = [p[0] for p in obs["pages"]]
    eids = [e["pageid"] for e in exp]
    if sorted(oids) != sorted(eids):
        dup = len(set(oids)) != len(oids)
        sig = f"C04/{cyc}page-repeated" if dup else f"C04/{cyc}pages-set"
        return [(sig, eids, oids, "the pages produced are not exactly the /Page nodes of the tree, each once")]
    if not full:
        return out  # only termination and each-page-once are judged
    if oids != eids:
        return [(f"C04/{cyc}pages-order", eids, oids, "pages are not produced in depth-first Kids order")]
    for e, o, r in zip(exp, obs["pages"], obs["rendered"] or [None] * len(exp)):
        for name, idx, key in FIELDS:
            if not field_eq(name, e[name], o[idx]):
                # diagnose by comparing with known mis-readings
                diag = "other"
                for variant in ("root", "parent-wins", "own-only"):
                    alt, _ = expected_pages(nodes, attrs, variant)
                    a = [x for x in alt if x["pageid"] == e["pageid"]]
                    if a and a[0][name] is not None and field_eq(name, a[0][name], o[idx]) and not field_eq(name, a[0][name], e[name]):
                        diag = variant
                        break
                if name == "rotate" and isinstance(o[idx], int) and not (0 <= o[idx] < 360) and o[idx] % 360 == e[name]:
                    diag = "not-reduced"
                out.append((f"C04/{cyc}inherit:{key}:{diag}", {"page": e["pageid"], key: e[name]}, {"page": o[0], key: o[idx]},
                            f"{key} of page object {e['pageid']} is not the page's own value / its nearest defining ancestor's"))
                return out
        if r is not None and e["mediabox"] is not None:
            out += judge_render(e, r, cyc)
            if out:
                return out
    return out


def judge_render(e: Dict[str, Any], r: Any, cyc: str = "") -> List[Tuple[str, Any, Any, str]]:
    bbox, chars = r
    ebbox, emat = pt.page_geometry(e["mediabox"], e["rotate"], e["point"])
    rot = e["rotate"]
    if not num_eq(ebbox, bbox):
        return [(f"C04/{cyc}ltpage-bbox:rotate={rot}", ebbox, bbox, "LTPage.bbox is not the MediaBox moved to the origin and turned by Rotate")]
    if len(chars) != 1 or chars[0][0] != e["letter"]:
        return [(f"C04/{cyc}page-content", e["letter"], [c[0] for c in chars], "the page does not show its own glyph")]
    if e["font"] is None and chars[0][1] in pt.FONT_NAMES.values():
        return [(f"C04/{cyc}render-resources-leak", "no font of any Resources dictionary (the page's effective Resources are empty)", chars[0][1],
                 "a page whose effective Resources are empty/absent is drawn with a font from another page's Resources")]
    if e["font"] is not None and chars[0][1] != e["font"]:
        return [(f"C04/{cyc}render-resources", e["font"], chars[0][1], "the glyph is not drawn with the font of the effective Resources")]
    if not num_eq(emat, chars[0][2]):
        x0, y0, x1, y1 = e["mediabox"]
        if (x0 > x1 or y0 > y1) and num_eq(pt.page_geometry(e["mediabox"], rot, e["point"], normalise=False)[1], chars[0][2]):
            return [(f"C04/{cyc}mediabox-corners-not-normalised", emat, chars[0][2],
                     "a MediaBox given by its upper-right/lower-left (or other opposite) corners is not normalised: the page content lands outside the LTPage box")]
        return [(f"C04/{cyc}glyph-matrix:rotate={rot}", emat, chars[0][2], "glyph matrix/origin is not the clockwise rotation of (x-x0, y-y0)")]
    return []


# -------------------------------------------------------------------- selection
def selection_model(n: int, S: Optional[Sequence[int]], m: int) -> List[int]:
    return [i for i in range(n) if (not S or i in S) and (not m or i < m)]


def observe_selection(data: bytes, entry: str, S: Any, m: int) -> Any:
    from pdfminer.high_level import extract_pages, extract_text
    from pdfminer.layout import LTChar, LTContainer
    from pdfminer.pdfpage import PDFPage

    try:
        if entry == "get_pages":
            return [p.pageid - pt.NODE_BASE for p in PDFPage.get_pages(io.BytesIO(data), S, maxpages=m)]
        if entry == "extract_text":
            t = extract_text(io.BytesIO(data), page_numbers=S, maxpages=m)
            return [c for c in t if c.isalpha()]
        if entry == "extract_pages":
            out = []

            def chars(o):
                if isinstance(o, LTChar):
                    yield o.get_text()
                elif isinstance(o, LTContainer):
                    for x in o:
                        yield from chars(x)

            for lay in extract_pages(io.BytesIO(data), page_numbers=S, maxpages=m):
                out.append("".join(chars(lay)))
            return out
    except Exception as e:  # noqa
        return ("EXC", exc_sig(e))
    raise ValueError(entry)


def make_container(kind: str, S: Any) -> Any:
    """the page_numbers argument: any Container[int]"""
    if S is None:
        return None
    if kind == "set":
        return set(S)
    if kind == "frozenset":
        return frozenset(S)
    if kind == "list":
        return list(S)
    if kind == "tuple":
        return tuple(S)
    if kind == "dictkeys":
        return {i: str(i) for i in S}.keys()
    if kind == "range":
        a, b, c = S  # here S holds the range arguments
        return range(a, b, c)
    raise ValueError(kind)


def judge_selection(case: Dict[str, Any]) -> List[Tuple[str, Any, Any, str]]:
    S = case["S"]
    Sarg: Any = make_container(case["container"], S)
    if case["container"] == "range":
        S = tuple(Sarg)
    m = case["m"]
    idx = selection_model(case["npages"], S, m)
    obs = observe_selection(case["data"], case["entry"], Sarg, m)
    if case["entry"] == "get_pages":
        exp: Any = [case["page_nodes"][i] for i in idx]
    else:
        exp = [pt.page_letter(i) for i in idx]
    if obs == exp:
        return []
    if isinstance(obs, tuple):
        return [(f"C04/selection:exception:{obs[1]}", exp, obs, "selection raised")]
    # diagnose
    pos = {v: i for i, v in enumerate(case["page_nodes"])} if case["entry"] == "get_pages" else {pt.page_letter(i): i for i in range(case["npages"])}
    oidx = [pos.get(v, -1) for v in obs]
    extra = [i for i in oidx if i not in idx]
    missing = [i for i in idx if i not in oidx]
    if extra and not missing and m and all(i >= m and S and i in S for i in extra):
        sig = "C04/selection:page_numbers-beyond-maxpages"
    elif oidx != sorted(oidx):
        sig = "C04/selection:order"
    elif missing and not extra:
        sig = "C04/selection:pages-missing"
    else:
        sig = "C04/selection:other"
    return [(sig, idx, oidx, f"{case['entry']}(page_numbers={S}, maxpages={m}) does not yield exactly the selected indices below the limit")]


# -------------------------------------------------------------------- families
def spell_all(mode: int):
    return lambda i, k: mode


def run_tree_case(st, nodes, attrs, spelling: int, extra=None, sample=False, render=True, count_state=True) -> None:
    data = pt.build(nodes, attrs, spell_all(spelling))
    case = {"part": "tree", "nodes": nodes, "attrs": attrs, "spelling": spelling, "extra": extra, "data": data, "render": render}
    obs = observe_pages(data, len(nodes), render)
    res = judge_tree(case, obs)
    for sig, e, o, what in res:
        st.violation(sig, case, e, o, what)
    exp, full = expected_pages(nodes, attrs)
    inherited = any(
        (attrs[e["node"]] or {}).get(k) is None and v is not None
        for e in exp for k, v in (("Resources", e["font"]), ("MediaBox", e["mediabox"]), ("Rotate", e["rotate"] or None))
    ) or any((attrs[e["node"]] or {}).get("CropBox") is None and e["cropbox"] != e["mediabox"] for e in exp)
    st.case(None, nontrivial=bool(exp) and (inherited or bool(extra)), outcome=h64(tuple(obs.get("pages", [obs.get("exc")]))))
    st.traces += 1
    if not full:
        st.add("cases_judged_for_termination_and_uniqueness_only", 1)
    st.add("pages_compared", len(exp))
    if sample:
        st.sample({"nodes": [(n["kind"], n["parent"], n["kids"]) for n in nodes], "attrs": attrs, "spelling": spelling, "extra": extra,
                   "expected_pages": [(e["pageid"], e["font"], e["mediabox"], e["rotate"]) for e in exp], "bytes": len(data)})


def base_attrs(n: int) -> List[Dict[str, Any]]:
    return [dict(ROOT_DEFAULT) if i == 0 else {} for i in range(n)]


def fam_pairs(st, tier, n, a1, a2):
    for nodes in pt.typed_trees(n):
        for c1 in itertools.product((None,) + POOL[a1], repeat=n):
            for c2 in itertools.product((None,) + POOL[a2], repeat=n):
                attrs = base_attrs(n)
                for i in range(n):
                    attrs[i][a1], attrs[i][a2] = c1[i], c2[i]
                run_tree_case(st, nodes, attrs, 1 if (sum(x is not None for x in c1) % 2) else 0)
                st.states += 1 + 2 * n
                st.transitions += 1 + 2 * n


def fam_dev(st, tier, n, shape_index):
    """one tree shape with n nodes; choices: leaf types, per node x attribute in {default, alt1, alt2}; <= dev_bound deviations"""
    shape = list(ordered_trees(n))[shape_index]
    base = pt.shape_nodes(shape)
    leaves = [i for i, nd in enumerate(base) if not nd["kids"] and i != 0]

    def program(x):
        nodes = [dict(nd, kids=list(nd["kids"])) for nd in base]
        for i in leaves:
            nodes[i]["kind"] = "Pages" if x.choose(2, f"leaf{i}") else "Page"
        attrs = base_attrs(n)
        for i in range(n):
            for k in pt.INHERITABLE:
                default = attrs[i].get(k)
                alts = [v for v in (None,) + POOL[k] if v != default]
                c = x.choose(3, f"{k}@{i}")
                if c:
                    attrs[i][k] = alts[c - 1]
        spelling = x.choose(2, "spelling")
        return nodes, attrs, spelling

    ex = ChoiceExplorer(program, mode="dev", bound=BOUNDS[tier]["dev_bound"])
    first = True
    for (nodes, attrs, spelling), x in ex.run():
        run_tree_case(st, nodes, attrs, spelling, sample=first and shape_index == 3)
        first = False
    st.states += ex.states
    st.transitions += ex.transitions


def fam_cycle(st, tier, n, tree_index):
    trees = list(pt.typed_trees(n))
    nodes0 = trees[tree_index]
    first = True
    for P, nd in enumerate(nodes0):
        if nd["kind"] != "Pages":
            continue
        for pos in range(len(nd["kids"]) + 1):
            for target in range(n):
                nodes = [dict(x, kids=list(x["kids"])) for x in nodes0]
                nodes[P]["kids"].insert(pos, target)
                attrs = base_attrs(n)
                for i, x in enumerate(nodes):
                    if x["kind"] == "Pages" and i and pt.depth(nodes, i) % 2 == 1:
                        attrs[i]["Rotate"] = 90
                    if x["kind"] == "Pages" and i and pt.depth(nodes, i) % 2 == 0:
                        attrs[i]["MediaBox"] = (10, 20, 210, 120)
                run_tree_case(st, nodes, attrs, 0, extra=(P, pos, target), sample=first and tree_index == 2)
                first = False
                st.states += 1
                st.transitions += 1


RES_POOL = (None, "A", "B", "E")  # absent, two font dictionaries, an explicit empty dictionary


def fam_resources(st, tier, n, lo, hi):
    """every tree with n nodes x Resources in {absent, A, B, << >>}^n; every page shows text with the same resource name
    /F1; pages are rendered one after the other through one interpreter (low level and extract_pages), so a page with
    empty/absent effective Resources follows and precedes pages with fonts in both orders"""
    first = True
    for nodes in list(pt.typed_trees(n))[lo:hi]:
        for combo in itertools.product(RES_POOL, repeat=n):
            attrs: List[Dict[str, Any]] = [{"MediaBox": (0, 0, 200, 100)} if i == 0 else {} for i in range(n)]
            for i, v in enumerate(combo):
                attrs[i]["Resources"] = v
            for spelling in (0, 1):
                data = pt.build(nodes, attrs, spell_all(spelling))
                case = {"part": "geometry", "nodes": nodes, "attrs": attrs, "spelling": spelling, "data": data}
                res = judge_geometry(case)
                for sig, e, o, what in res:
                    st.violation(sig, case, e, o, what)
                exp, _ = expected_pages(nodes, attrs)
                fonts = tuple(e["font"] for e in exp)
                st.case(None, nontrivial=len(set(fonts)) > 1, outcome=("res", fonts, bool(res)))
                st.states += 1
                st.transitions += 2
                st.traces += 1
                if first and len(set(fonts)) > 1:
                    st.sample({"resources_family": True, "nodes": [(x["kind"], x["parent"]) for x in nodes], "Resources": combo, "fonts": fonts})
                    first = False
            st.states += n
            st.transitions += n


GEOM_SPELL = (0, 1, 2)


ROTATION_ARGS = (0, 90, 180, 270, 360, -90, 450)


def judge_rotation(case: Dict[str, Any]) -> List[Tuple[str, Any, Any, str]]:
    """extract_text_to_fp(rotation=R): every page is turned by (its Rotate + R) reduced to 0-359.  Observed through the
    XML output parsed back: <page bbox>, the filled rectangle's <rect bbox> and the glyph's <text>."""
    import xml.etree.ElementTree as ET

    from pdfminer.high_level import extract_text_to_fp

    exp, _ = expected_pages(case["nodes"], case["attrs"])
    R = case["rotation"]
    out = io.BytesIO()
    try:
        extract_text_to_fp(io.BytesIO(case["data"]), out, output_type="xml", codec="utf-8", laparams=None, rotation=R)
        root = ET.fromstring(out.getvalue())
    except Exception as e:  # noqa
        return [(f"C04/rotation-arg:exception:{exc_sig(e)}", "xml output", exc_sig(e), "extract_text_to_fp(rotation=) raised / wrote malformed XML")]
    pages = root.findall("page")
    if len(pages) != len(exp):
        return [("C04/rotation-arg:page-count", len(exp), len(pages), "extract_text_to_fp yields a different number of pages")]

    def box(el):
        return tuple(float(x) for x in el.get("bbox").split(","))

    for e, pg in zip(exp, pages):
        r = (e["rotate"] + R) % 360
        ebbox, emat = pt.page_geometry(e["mediabox"], r, e["point"])
        tag = f"page Rotate {e['rotate']} + rotation {R}"
        if not num_eq(ebbox, box(pg)):
            sig = f"C04/rotation-arg:page-bbox:effective={r}"
            if not (0 <= e["rotate"] + R < 360) and num_eq(pt.page_geometry(e["mediabox"], 0, e["point"])[0], box(pg)):
                sig = "C04/rotation-arg:sum-not-reduced-treated-as-0"
            return [(sig, ebbox, box(pg), f"{tag}: page box is not the MediaBox turned by (Rotate + rotation) mod 360")]
        rects = [box(x) for x in pg.iter("rect")]
        erect = pt.rect_bbox(emat)
        if len(rects) != 1 or not num_eq(erect, rects[0]):
            unreduced = e["rotate"] + R
            sig = f"C04/rotation-arg:rect-position:effective={r}"
            if not (0 <= unreduced < 360) and rects and num_eq(pt.rect_bbox(pt.page_geometry(e["mediabox"], 0, e["point"])[1]), rects[0]):
                sig = "C04/rotation-arg:sum-not-reduced-treated-as-0"
            return [(sig, erect, rects, f"{tag}: the rectangle is not where a clockwise turn by (Rotate + rotation) mod 360 puts it")]
        texts = [(x.text, x.get("font")) for x in pg.iter("text")]
        if [t for t, _ in texts] != [e["letter"]]:
            return [("C04/rotation-arg:page-content", e["letter"], texts, f"{tag}: the page does not show its glyph")]
    return []


def fam_rotation(st, tier, mi):
    mb = (MEDIABOX_POOL + MEDIABOX_REVERSED)[mi]
    nodes = next(pt.typed_trees(2))
    first = True
    for rot in ROTATE_POOL:
        for R in ROTATION_ARGS:
            attrs: List[Dict[str, Any]] = [{"Resources": "A", "MediaBox": mb}, {"Rotate": rot}]
            data = pt.build(nodes, attrs, rect=True)
            case = {"part": "rotation", "nodes": nodes, "attrs": attrs, "rotation": R, "data": data}
            res = judge_rotation(case)
            for sig, e, o, what in res:
                st.violation(sig, case, e, o, what)
            r = (pt.reduce_rotate(rot) + R) % 360
            st.case(None, nontrivial=bool(R) or bool(r), outcome=("rotarg", r, mb, bool(res)))
            st.states += 1
            st.transitions += 1
            st.traces += 1
            if first:
                st.sample({"rotation_argument": True, "Rotate": rot, "rotation": R, "mediabox": mb})
                first = False


ROTATE_TRIPLES = ((90, 0, 0), (0, 90, 180), (270, None, 90), (180, 180, 0), (None, 270, 270), (450, -90, None))


def fam_rotation_multi(st, tier, ti):
    """extract_text_to_fp(rotation=R) over three pages with different own /Rotate: every page is turned by its own
    (Rotate + R) mod 360, whatever the pages before it were turned by"""
    nodes = selection_trees()[0][:4]
    nodes = [dict(nodes[0], kids=[1, 2, 3])] + [dict(n) for n in nodes[1:4]]
    rots = ROTATE_TRIPLES[ti]
    first = True
    for mb in (MEDIABOX_POOL[0], MEDIABOX_POOL[1]):
        for inherit in (False, True):
            for R in ROTATION_ARGS:
                attrs: List[Dict[str, Any]] = [{"Resources": "A", "MediaBox": mb}] + [{"Rotate": r} for r in rots]
                if inherit:
                    # the first page's Rotate comes from the root, the others define their own
                    attrs[0]["Rotate"] = rots[0]
                    attrs[1] = {}
                    attrs[2]["Rotate"] = rots[1] if rots[1] is not None else 0
                    attrs[3]["Rotate"] = rots[2] if rots[2] is not None else 0
                data = pt.build(nodes, attrs, rect=True)
                case = {"part": "rotation", "nodes": nodes, "attrs": attrs, "rotation": R, "data": data}
                res = judge_rotation(case)
                for sig, e, o, what in res:
                    st.violation(sig, case, e, o, what)
                st.case(None, nontrivial=True, outcome=("rotmulti", rots, R, inherit, bool(res)))
                st.states += 1
                st.transitions += 3
                st.traces += 1
                if first:
                    st.sample({"rotation_argument_multi_page": True, "Rotates": rots, "rotation": R, "mediabox": mb})
                    first = False


EMPTY_KINDS = ("nocontents", "emptyarray", "nonpainting")


def judge_empty(case: Dict[str, Any]) -> List[Tuple[str, Any, Any, str]]:
    """A page that paints nothing is still a page: extract_pages yields a layout for it, extract_text a form feed."""
    from pdfminer.high_level import extract_pages, extract_text
    from pdfminer.layout import LTChar, LTContainer

    S, m = case["S"], case["m"]
    Sarg = None if S is None else set(S)
    idx = selection_model(case["npages"], S, m)
    exp = ["" if i == case["empty_index"] else pt.page_letter(i) for i in idx]

    def chars(o):
        if isinstance(o, LTChar):
            yield o.get_text()
        elif isinstance(o, LTContainer):
            for x in o:
                yield from chars(x)

    out = []
    try:
        got = ["".join(chars(lay)) for lay in extract_pages(io.BytesIO(case["data"]), page_numbers=Sarg, maxpages=m)]
    except Exception as e:  # noqa
        got = ("EXC", exc_sig(e))
    if got != exp:
        sig = "C04/empty-page:dropped-by-extract_pages" if isinstance(got, list) and got == [x for x in exp if x] else "C04/empty-page:extract_pages"
        out.append((sig, exp, got, f"extract_pages(page_numbers={S}, maxpages={m}) with an empty page ({case['kind']}) at index {case['empty_index']}"))
    try:
        text = extract_text(io.BytesIO(case["data"]), page_numbers=Sarg, maxpages=m)
        got2: Any = ["".join(c for c in chunk if c.isalpha()) for chunk in text.split("\x0c")[:-1]]
    except Exception as e:  # noqa
        got2 = ("EXC", exc_sig(e))
    if got2 != exp:
        out.append(("C04/empty-page:extract_text", exp, got2, f"extract_text(page_numbers={S}, maxpages={m}): one form feed per selected page, the empty one ({case['kind']}) included"))
    return out


def fam_empty(st, tier, ti):
    nodes = selection_trees()[ti]
    attrs = base_attrs(len(nodes))
    pages, _ = pt.walk(nodes, attrs)
    page_nodes = [i for i, _ in pages]
    first = True
    for pos in (0, 1, 3):
        for kind in EMPTY_KINDS:
            data = pt.build(nodes, attrs, empty={page_nodes[pos]: kind})
            for S, m in ((None, 0), ((pos,), 0), ((0, 3), 0), ((0, 1, 2, 3), 3), (None, 2), ((pos, (pos + 1) % 4), 0)):
                case = {"part": "empty", "data": data, "S": S, "m": m, "npages": 4, "empty_index": pos, "kind": kind}
                res = judge_empty(case)
                for sig, e, o, what in res:
                    st.violation(sig, case, e, o, what)
                st.case(None, nontrivial=True, outcome=("empty", pos, kind, S, m, bool(res)))
                st.states += 1
                st.transitions += 2
                st.traces += 1
                if first:
                    st.sample({"empty_page": True, "tree": ti, "index": pos, "kind": kind, "page_numbers": S, "maxpages": m})
                    first = False


def fam_geometry(st, tier, mi):
    from pdfminer.high_level import extract_pages
    from pdfminer.layout import LTChar, LTContainer

    mb = (MEDIABOX_POOL + MEDIABOX_REVERSED)[mi]
    nodes = next(pt.typed_trees(2))
    first = True
    for rot in ROTATE_POOL:
        for place in (1, 0):
            for crop in (None, (mb[0] + 5, mb[1] + 5, mb[2] - 50, mb[3] - 20)):
                for spelling in GEOM_SPELL:
                    attrs: List[Dict[str, Any]] = [{"Resources": "B"}, {}]
                    attrs[place]["Rotate"] = rot
                    attrs[1 - place]["MediaBox"] = mb  # the box comes from the other node than Rotate
                    attrs[place]["CropBox"] = crop
                    data = pt.build(nodes, attrs, spell_all(spelling))
                    case = {"part": "geometry", "nodes": nodes, "attrs": attrs, "spelling": spelling, "data": data}
                    res = judge_geometry(case)
                    for sig, e, o, what in res:
                        st.violation(sig, case, e, o, what)
                    r = pt.reduce_rotate(rot)
                    st.case(None, nontrivial=bool(r) or mb[0] != 0, outcome=("geom", r, mb, crop is None, bool(res)))
                    st.states += 1
                    st.transitions += 2
                    st.traces += 1
                    if first:
                        st.sample({"geometry": True, "rotate": rot, "mediabox": mb, "data_head": data[:200]})
                        first = False


def judge_geometry(case: Dict[str, Any]) -> List[Tuple[str, Any, Any, str]]:
    from pdfminer.high_level import extract_pages
    from pdfminer.layout import LTChar, LTContainer

    res = judge_tree({**case, "render": True})
    if res:
        return res
    exp, _ = expected_pages(case["nodes"], case["attrs"])
    try:
        lays = list(extract_pages(io.BytesIO(case["data"])))
    except Exception as e:  # noqa
        return [(f"C04/extract_pages:exception:{exc_sig(e)}", "pages", exc_sig(e), "extract_pages raised")]

    def chars(o):
        if isinstance(o, LTChar):
            yield (o.get_text(), o.fontname, tuple(o.matrix))
        elif isinstance(o, LTContainer):
            for x in o:
                yield from chars(x)

    if len(lays) != len(exp):
        return [("C04/extract_pages:page-count", len(exp), len(lays), "extract_pages yields a different number of pages")]
    for e, lay in zip(exp, lays):
        r = judge_render(e, (tuple(lay.bbox), list(chars(lay))), "extract_pages:")
        if r:
            return r
    return []


# ------------------------------------------------------------------- deep trees
DEEP_DEPTHS = (50, 400, 1100, 2500)


def deep_params():
    out = []
    for d in DEEP_DEPTHS:
        for attrmode in ("root", "every100"):
            out.append((d, "bottom", "page-first", attrmode, False))
            out.append((d, "every", "page-first", attrmode, False))
            out.append((d, "every", "deep-first", attrmode, False))
        out.append((d, "bottom", "page-first", "every100", True))
        out.append((d, "every", "page-first", "every100", True))
        out.append((d, "every", "deep-first", "root", True))
    return out


def recursion_site(e: BaseException) -> str:
    """The pdfminer function that recurses: the most frequent one among the innermost pdfminer frames (so the answer
    does not depend on where exactly the limit was hit)."""
    import collections

    names = [f.name for f in traceback.extract_tb(e.__traceback__) if "/pdfminer/" in f.filename.replace("\\", "/")]
    if not names:
        return "?"
    return collections.Counter(names[-80:]).most_common(1)[0][0]


def deep_exc(e: BaseException) -> str:
    if isinstance(e, RecursionError):
        return f"RecursionError@{recursion_site(e)}"
    if isinstance(e, Livelock):
        return "Livelock"
    return "exception:" + exc_sig(e)


def deep_selections(n: int):
    """a few (page_numbers, maxpages) pairs for an n-page document"""
    mid = n // 2
    return [(None, 0), (None, 1), (None, mid + 1), ((0,), 0), ((n - 1,), 0), ((0, mid, n - 1), mid + 1), ((mid, n + 5), 0), ((n - 1,), n - 1)]


def judge_deep(case: Dict[str, Any]) -> List[Tuple[str, Any, Any, str]]:
    from pdfminer.high_level import extract_text
    from pdfminer.pdfpage import PDFPage

    d, variant, order, attrmode, cycle = case["params"]
    nodes, attrs = pt.deep_chain(d, variant, order, attrmode, cycle)
    pages, full = pt.walk_iter(nodes, attrs)
    assert full
    data = case["data"]
    n = len(pages)
    out: List[Tuple[str, Any, Any, str]] = []
    tag = f"depth {d}, {'a page on every level' if variant == 'every' else 'one page at the bottom'} ({order}), attributes {attrmode}" + (", cycle" if cycle else "")
    eids = [pt.NODE_BASE + i for i, _ in pages]
    stats = case.setdefault("_stats", {})

    # ---- 1. PDFPage.create_pages: order and inherited attributes (getobj budget: termination)
    obs: Any = None
    try:
        doc = open_doc(data, 40 * len(nodes) + 200)
        obs = []
        for p in PDFPage.create_pages(doc):
            obs.append((p.pageid, font_of(p.resources), tuple(p.mediabox), tuple(p.cropbox), p.rotate))
            if len(obs) > n + 8:
                raise Livelock("more pages than /Page nodes")
    except Exception as e:  # noqa  (RecursionError and Livelock included; the shard must survive)
        out.append((f"C04/deep-tree:{deep_exc(e)}", f"{n} pages", deep_exc(e), f"PDFPage.create_pages on a page tree of {tag} raised / did not terminate"))
        obs = None
    stats["create_pages"] = "ok" if obs is not None else out[-1][0]
    if obs is not None:
        oids = [o[0] for o in obs]
        if sorted(oids) != sorted(eids):
            sig = "C04/deep-tree:page-repeated" if len(set(oids)) != len(oids) else "C04/deep-tree:pages-set"
            out.append((sig, {"pages": n, "first": eids[:5]}, {"pages": len(oids), "first": oids[:5]}, f"{tag}: the pages produced are not the /Page nodes, each once"))
        elif oids != eids:
            k = next(i for i in range(n) if oids[i] != eids[i])
            out.append(("C04/deep-tree:pages-order", {"index": k, "page": eids[k]}, {"index": k, "page": oids[k]}, f"{tag}: pages are not in depth-first Kids order"))
        else:
            for k, ((i, eff), o) in enumerate(zip(pages, obs)):
                mb = eff["MediaBox"]
                e = {"font": pt.FONT_NAMES.get(eff["Resources"]), "mediabox": mb, "cropbox": eff["CropBox"] if eff["CropBox"] is not None else mb,
                     "rotate": pt.reduce_rotate(eff["Rotate"])}
                bad = [(name, idx, key) for name, idx, key in FIELDS if not field_eq(name, e[name], o[idx])]
                if bad:
                    name, idx, key = bad[0]
                    out.append((f"C04/deep-tree:inherit:{key}", {"page index": k, key: e[name]}, {"page index": k, key: o[idx]},
                                f"{tag}: {key} of page {k} is not its nearest defining ancestor's"))
                    break
    if any(sig.endswith("Livelock") for sig, *_ in out):
        return out  # the other entry points have no budget: do not call them on a walk that does not terminate

    # ---- 2. PDFPage.get_pages with page_numbers / maxpages
    for S, m in deep_selections(n):
        idx = selection_model(n, S, m)
        try:
            got: Any = [p.pageid for p in PDFPage.get_pages(io.BytesIO(data), set(S) if S is not None else None, maxpages=m)]
        except Exception as e:  # noqa
            sig = f"C04/deep-tree:{deep_exc(e)}"
            if not any(x[0] == sig for x in out):
                out.append((sig, f"{len(idx)} pages", deep_exc(e), f"PDFPage.get_pages(page_numbers={S}, maxpages={m}) on {tag} raised"))
            stats["get_pages"] = sig
            break
        exp = [eids[i] for i in idx]
        if got != exp:
            out.append(("C04/deep-tree:selection", {"page_numbers": S, "maxpages": m, "count": len(exp), "first": exp[:5]},
                        {"count": len(got), "first": got[:5]}, f"{tag}: get_pages does not yield exactly the selected indices below the limit"))
            stats["get_pages"] = "C04/deep-tree:selection"
            break
    else:
        stats["get_pages"] = "ok"

    # ---- 3. extract_text: every page shows its own label, so the order is observable
    for S, m in ((None, 0), ((0, n // 2, n - 1), 0)):
        idx = selection_model(n, S, m)
        try:
            text = extract_text(io.BytesIO(data), page_numbers=set(S) if S is not None else None, maxpages=m)
        except Exception as e:  # noqa
            sig = f"C04/deep-tree:{deep_exc(e)}"
            if not any(x[0] == sig for x in out):
                out.append((sig, f"{len(idx)} pages", deep_exc(e), f"extract_text(page_numbers={S}) on {tag} raised"))
            stats["extract_text"] = sig
            break
        labels = [pt.canon_label("".join(c for c in chunk if c.isalpha())) for chunk in text.split("\x0c")[:-1]]
        exp = [pt.deep_label(i) for i in idx]
        if labels != exp:
            k = next((i for i in range(min(len(labels), len(exp))) if labels[i] != exp[i]), min(len(labels), len(exp)))
            out.append(("C04/deep-tree:text-order", {"pages": len(exp), "index": k, "label": exp[k] if k < len(exp) else None},
                        {"pages": len(labels), "index": k, "label": labels[k] if k < len(labels) else None},
                        f"{tag}: extract_text does not show the pages' labels in depth-first Kids order"))
            stats["extract_text"] = "C04/deep-tree:text-order"
            break
    else:
        stats["extract_text"] = "ok"
    return out


def fam_deep(st, tier, pi):
    params = deep_params()[pi]
    d, variant, order, attrmode, cycle = params
    nodes, attrs = pt.deep_chain(*params)
    data = pt.build_deep(nodes, attrs)
    case = {"part": "deep", "params": params, "data": data}
    res = judge_deep(case)
    stats = case.pop("_stats", {})
    for sig, e, o, what in res:
        st.violation(sig, case, e, o, what)
    npages = d if variant == "every" else 1
    st.case(None, nontrivial=True, outcome=("deep", d, variant, order, attrmode, cycle, tuple(sorted(stats.items()))))
    st.states += len(nodes)
    st.transitions += len(nodes) + (2 if cycle else 0)
    st.traces += 1
    st.add("deep_tree_pages_expected", npages)
    if pi in (1, 14):
        st.sample({"deep_tree": True, "depth": d, "variant": variant, "kids_order": order, "attributes": attrmode, "cycle": cycle,
                   "objects": len(nodes), "bytes": len(data), "entry_points": stats})


def selection_trees():
    """three trees with exactly four pages"""
    P, G = "Page", "Pages"

    def mk(spec):
        nodes = []

        def rec(s, parent):
            idx = len(nodes)
            nodes.append({"kind": G if isinstance(s, list) else P, "parent": parent, "kids": []})
            if isinstance(s, list):
                for c in s:
                    nodes[idx]["kids"].append(rec(c, idx))
            return idx

        rec(spec, None)
        return nodes

    return [mk([P, P, P, P]), mk([[P, P], [P, P]]), mk([P, [P, [P]], [], P])]


def selection_sets():
    out: List[Optional[Tuple[int, ...]]] = [None]
    for k in range(0, 6):
        for c in itertools.combinations(range(5), k):
            out.append(c)
            out.append(c + (7,))
    return out


def fam_selection(st, tier, ti, entry):
    nodes = selection_trees()[ti]
    attrs = base_attrs(len(nodes))
    data = pt.build(nodes, attrs)
    pages, _ = pt.walk(nodes, attrs)
    page_nodes = [i for i, _ in pages]
    assert len(page_nodes) == 4
    first = True
    for S in selection_sets():
        for m in range(0, 6):
            for container in ("set", "list") if (S is not None and entry == "get_pages") else ("set",):
                case = {"part": "selection", "data": data, "entry": entry, "S": S, "m": m, "container": container, "npages": 4, "page_nodes": page_nodes}
                res = judge_selection(case)
                for sig, e, o, what in res:
                    st.violation(sig, case, e, o, what)
                idx = selection_model(4, S, m)
                st.case(None, nontrivial=bool(S) or bool(m), outcome=("sel", tuple(idx), bool(res)))
                st.states += 1
                st.transitions += 1
                st.traces += 1
                if first:
                    st.sample({"selection": True, "entry": entry, "tree": ti, "S": S, "maxpages": m, "expected": idx})
                    first = False


CONTAINERS = (
    ("list", (0, 1, 2, 2, 3)), ("list", (1, 1, 3)), ("list", (2, 2, 2)), ("list", (3, 1, 0)), ("list", (2, 0, 3, 1)),
    ("list", (-1, 0, 2)), ("list", (7, 1)), ("list", (1, 9, 2)), ("list", (-3, 3)), ("list", ()),
    ("tuple", (2, 0)), ("tuple", (0, 0, 3)), ("tuple", (1, 2, 5)),
    ("range", (1, 3, 1)), ("range", (0, 4, 2)), ("range", (3, -1, -1)), ("range", (2, 9, 1)), ("range", (0, 0, 1)),
    ("dictkeys", (1, 3)), ("dictkeys", (3, 0)), ("dictkeys", ()),
    ("frozenset", (0, 2)), ("frozenset", (1, 8)), ("set", (3, 1)), ("set", (-1, 2)),
)


def fam_containers(st, tier, ti, entry):
    """page_numbers given as lists with repeated / unsorted / negative / out-of-range entries, tuples, ranges, dict
    keys, (frozen)sets: selection means ``index in page_numbers`` whatever the container"""
    nodes = selection_trees()[ti]
    attrs = base_attrs(len(nodes))
    data = pt.build(nodes, attrs)
    pages, _ = pt.walk(nodes, attrs)
    page_nodes = [i for i, _ in pages]
    first = True
    for kind, S in CONTAINERS:
        for m in (0, 2, 3, 5):
            case = {"part": "selection", "data": data, "entry": entry, "S": S, "m": m, "container": kind, "npages": 4, "page_nodes": page_nodes}
            res = judge_selection(case)
            for sig, e, o, what in res:
                st.violation(sig, case, e, o, what)
            members = tuple(make_container(kind, S))
            idx = selection_model(4, members, m)
            st.case(None, nontrivial=True, outcome=("selc", kind, tuple(idx), bool(res)))
            st.states += 1
            st.transitions += 1
            st.traces += 1
            if first:
                st.sample({"selection": True, "entry": entry, "tree": ti, "container": kind, "page_numbers": S, "maxpages": m, "expected": idx})
                first = False


CARRY_SUFFIXES = (b"q", b"q q 2 0 0 2 5 5 cm", b"q 1 0 0 1 7 9 cm q", b"BT /F1 8 Tf 50 50 Td 3 Tc", b"10 10 m 50 50 l 50 10 l", b"q 0 1 -1 0 3 4 cm BT 12 TL")
CARRY_PREFIXES = (b"", b"Q", b"Q Q", b"Q Q Q", b"f", b"Q f", b"ET")
CARRY_PAGES = (
    (((0, 0, 200, 100), 0), ((10, 20, 210, 120), 90)),
    (((10, 20, 210, 120), 180), ((0, 0, 200, 100), 0)),
    (((-10, -20, 90, 80), 270), ((10, 20, 210, 120), 0)),
    (((10, 20, 210, 120), 90), ((-10, -20, 90, 80), 90)),
)


def judge_carry(case: Dict[str, Any]) -> List[Tuple[str, Any, Any, str]]:
    """Two pages through one interpreter: whatever page 1 leaves open (saved graphics states, a text object, an
    unpainted path), page 2 is drawn in its own page coordinate system and shows only its own content."""
    from pdfminer.converter import PDFPageAggregator
    from pdfminer.high_level import extract_pages
    from pdfminer.layout import LTChar, LTContainer, LTCurve, LTImage
    from pdfminer.pdfinterp import PDFPageInterpreter, PDFResourceManager
    from pdfminer.pdfpage import PDFPage

    exp, _ = expected_pages(case["nodes"], case["attrs"])

    def flat(o):
        if isinstance(o, LTChar):
            yield o
        elif isinstance(o, LTContainer):
            for x in o:
                yield from flat(x)
        else:
            yield o

    runs = []
    try:
        rsrc = PDFResourceManager()
        dev = PDFPageAggregator(rsrc, laparams=None)
        interp = PDFPageInterpreter(rsrc, dev)
        low = []
        for p in PDFPage.get_pages(io.BytesIO(case["data"])):
            interp.process_page(p)
            low.append(dev.get_result())
        runs.append(("process_page", low))
        runs.append(("extract_pages", list(extract_pages(io.BytesIO(case["data"])))))
    except Exception as e:  # noqa
        return [(f"C04/carry-over:exception:{exc_sig(e)}", "two pages", exc_sig(e), "rendering two pages through one interpreter raised")]
    for name, lays in runs:
        if len(lays) != len(exp):
            return [(f"C04/carry-over:page-count", len(exp), len(lays), f"{name}: wrong number of pages")]
        for k, (e, lay) in enumerate(zip(exp, lays)):
            items = list(flat(lay))
            chars = [(c.get_text(), c.fontname, tuple(c.matrix)) for c in items if isinstance(c, LTChar)]
            r = judge_render(e, (tuple(lay.bbox), chars), "carry-over:")
            if r:
                sig, a, b, what = r[0]
                return [(sig, a, b, f"{name}, page {k + 1} after a page that ends with {case['suffix']!r}, own prefix {case['prefix']!r}: {what}")]
            other = [type(x).__name__ for x in items if isinstance(x, (LTCurve, LTImage))]
            if k == 1 and other:
                return [("C04/carry-over:foreign-content", [], other, f"{name}: page 2 shows a path that page 1 constructed but did not paint")]
    return []


def fam_carry(st, tier, pi):
    nodes = selection_trees()[0][:3]
    nodes = [dict(nodes[0], kids=[1, 2]), dict(nodes[1]), dict(nodes[2])]
    (mb1, r1), (mb2, r2) = CARRY_PAGES[pi]
    first = True
    for suffix in CARRY_SUFFIXES:
        for prefix in CARRY_PREFIXES:
            attrs: List[Dict[str, Any]] = [{"Resources": "A"}, {"MediaBox": mb1, "Rotate": r1}, {"MediaBox": mb2, "Rotate": r2}]
            data = pt.build(nodes, attrs, extra={1: (b"", suffix), 2: (prefix, b"")})
            case = {"part": "carry", "nodes": nodes, "attrs": attrs, "suffix": suffix, "prefix": prefix, "data": data}
            res = judge_carry(case)
            for sig, e, o, what in res:
                st.violation(sig, case, e, o, what)
            st.case(None, nontrivial=bool(prefix), outcome=("carry", pi, suffix, prefix, bool(res)))
            st.states += 1
            st.transitions += 2
            st.traces += 1
            if first:
                st.sample({"carry_over": True, "page1": (mb1, r1, suffix), "page2": (mb2, r2, prefix)})
                first = False


# ----------------------------------------------------------------------- shards
def shards(tier):
    b = BOUNDS[tier]
    out: List[Any] = []
    for n in range(1, b["single_attr_max_nodes"] + 1):
        for a in pt.INHERITABLE:
            if n >= 4:
                ntrees = sum(1 for _ in pt.typed_trees(n))
                step = 4 if n == 4 else 3
                out += [("single", n, a, lo, min(lo + step, ntrees)) for lo in range(0, ntrees, step)]
            else:
                out.append(("single", n, a, 0, None))
    for v in (None,) + POOL["MediaBox"]:
        for v2 in (None,) + POOL["Rotate"]:
            out.append(("joint", v, v2))
    for n in range(2, b["pair_max_nodes"] + 1):
        for a1, a2 in itertools.combinations(pt.INHERITABLE, 2):
            out.append(("pairs", n, a1, a2))
    for n in b["dev_nodes"]:
        out += [("dev", n, si) for si in range(sum(1 for _ in ordered_trees(n)))]
    for n in range(1, b["cycle_max_nodes"] + 1):
        nt = sum(1 for _ in pt.typed_trees(n))
        step = 1 if n >= 6 else 4
        out += [("cycle", n, lo, min(lo + step, nt)) for lo in range(0, nt, step)]
    out += [("geom", mi) for mi in range(len(MEDIABOX_POOL) + len(MEDIABOX_REVERSED))]
    for n in range(2, b["resources_max_nodes"] + 1):
        nt = sum(1 for _ in pt.typed_trees(n))
        step = nt if n < 4 else 2
        out += [("res", n, lo, min(lo + step, nt)) for lo in range(0, nt, step)]
    out += [("rotarg", mi) for mi in range(len(MEDIABOX_POOL) + len(MEDIABOX_REVERSED))]
    out += [("deep", pi) for pi in range(len(deep_params()))]
    out += [("carry", pi) for pi in range(len(CARRY_PAGES))]
    out += [("rotmulti", ti) for ti in range(len(ROTATE_TRIPLES))]
    out += [("empty", ti) for ti in range(3)]
    out += [("selc", ti, entry) for ti in range(3) for entry in ("get_pages", "extract_text", "extract_pages")]
    out += [("sel", ti, entry) for ti in range(3) for entry in ("get_pages", "extract_text", "extract_pages")]
    return out


def run_shard(shard, tier, st):
    fam = shard[0]
    if fam == "single":
        _, n, attr, lo, hi = shard
        trees = list(pt.typed_trees(n))[lo:hi]
        first = True
        for nodes in trees:
            for combo in itertools.product((None,) + POOL[attr], repeat=n):
                for spelling in (0, 1):
                    attrs = base_attrs(n)
                    for i, v in enumerate(combo):
                        attrs[i][attr] = v
                    run_tree_case(st, nodes, attrs, spelling, sample=first and attr == "Rotate" and n == 3)
                    first = False
                st.states += n + 2
                st.transitions += n + 2
    elif fam == "joint":
        nodes = next(pt.typed_trees(2))
        keys = list(pt.INHERITABLE)
        opts = {k: (None,) + POOL[k] for k in keys}
        for rb, pb in itertools.product(opts["Resources"], repeat=2):
            for mpage in opts["MediaBox"]:
                for cr, cp in itertools.product(opts["CropBox"], repeat=2):
                    for rpage in opts["Rotate"]:
                        attrs = [
                            {"Resources": rb, "MediaBox": shard[1], "CropBox": cr, "Rotate": shard[2]},
                            {"Resources": pb, "MediaBox": mpage, "CropBox": cp, "Rotate": rpage},
                        ]
                        run_tree_case(st, nodes, attrs, 0)
                        st.states += 7
                        st.transitions += 7
    elif fam == "pairs":
        fam_pairs(st, tier, shard[1], shard[2], shard[3])
    elif fam == "dev":
        fam_dev(st, tier, shard[1], shard[2])
    elif fam == "cycle":
        _, n, lo, hi = shard
        for ti in range(lo, hi):
            fam_cycle(st, tier, n, ti)
    elif fam == "rotarg":
        fam_rotation(st, tier, shard[1])
    elif fam == "rotmulti":
        fam_rotation_multi(st, tier, shard[1])
    elif fam == "empty":
        fam_empty(st, tier, shard[1])
    elif fam == "carry":
        fam_carry(st, tier, shard[1])
    elif fam == "selc":
        fam_containers(st, tier, shard[1], shard[2])
    elif fam == "deep":
        fam_deep(st, tier, shard[1])
    elif fam == "res":
        fam_resources(st, tier, shard[1], shard[2], shard[3])
    elif fam == "geom":
        fam_geometry(st, tier, shard[1])
    elif fam == "sel":
        fam_selection(st, tier, shard[1], shard[2])
    else:
        raise ValueError(shard)


def _fix_case(case):
    """undo JSON artefacts: tuples for boxes, list nodes"""
    if "nodes" in case:
        case["nodes"] = [dict(n) for n in case["nodes"]]
        case["attrs"] = [
            {k: (tuple(v) if isinstance(v, list) else v) for k, v in (a or {}).items()} for a in case["attrs"]
        ]
    return case


def replay(case):
    case = _fix_case(case)
    part = case.get("part")
    if part == "selection":
        if case["S"] is not None:
            case["S"] = tuple(case["S"])
        res = judge_selection(case)
    elif part == "carry":
        res = judge_carry(case)
    elif part == "empty":
        if case["S"] is not None:
            case["S"] = tuple(case["S"])
        res = judge_empty(case)
    elif part == "geometry":
        res = judge_geometry(case)
    elif part == "rotation":
        res = judge_rotation(case)
    elif part == "deep":
        case["params"] = tuple(case["params"])
        res = judge_deep(case)
    else:
        res = judge_tree(case)
    return [{"signature": s, "expected": repr(e)[:1500], "observed": repr(o)[:1500]} for s, e, o, _ in res]


# --------------------------------------------------------------------------------------------------------------------
# Family "hl" (main session, after seeded defects C04_17 / C04_18 were missed): the page loop of the high-level functions.
# Every 3-page document over {page with text, page without /Contents, page whose content paints nothing} x Rotate {0, 90}
# per page (plus two spellings with an empty /Contents array):
#   (a) extract_pages yields exactly one LTPage per page, in order (an empty page is still a page);
#   (b) extract_text_to_fp (text and xml, rotation argument 0 and 90): the output for the whole document is, page by page,
#       the output of that page processed alone (nothing of an earlier page - e.g. its rotation - is carried into a later one).
_HL_KINDS = ("text", "nocontents", "nopaint")
_HL_ROT = (0, 90)


def _hl_doc(pages):
    from mc.pdfgen import Doc, N, Stream

    d = Doc()
    f1 = d.add({"Type": N("Font"), "Subtype": N("Type1"), "BaseFont": N("Helvetica")})
    cat, root = d.reserve(), d.reserve()
    kids = []
    for i, (kind, rot) in enumerate(pages):
        o = {"Type": N("Page"), "Parent": root, "MediaBox": [0, 0, 200 + 10 * i, 300], "Resources": {"Font": {"F1": f1}}, "Rotate": rot}
        if kind == "text":
            o["Contents"] = d.add(Stream({}, b"BT /F1 12 Tf 20 %d Td (P%d) Tj ET" % (100 + 10 * i, i)))
        elif kind == "nopaint":
            o["Contents"] = d.add(Stream({}, b"q 1 0 0 1 5 5 cm Q"))
        elif kind == "emptyarr":
            o["Contents"] = []
        kids.append(d.add(o))
    d.set(cat, {"Type": N("Catalog"), "Pages": root})
    d.set(root, {"Type": N("Pages"), "Kids": kids, "Count": len(kids)})
    return d.write(cat)


def _hl_pages_of(out, otype):
    import re

    if otype == "text":
        return out.split("\x0c")[:-1]
    return [re.sub(r'<page id="[^"]*"', '<page id="X"', m) for m in re.findall(r"<page .*?</page>", out, flags=re.S)]


def judge_hl(case):
    from pdfminer.high_level import extract_pages, extract_text_to_fp
    from pdfminer.layout import LAParams, LTTextContainer

    pages = [tuple(p) for p in case["pages"]]
    data = _hl_doc(pages)
    res = []
    try:
        got = []
        for lt in extract_pages(io.BytesIO(data)):
            got.append((lt.pageid, "".join("".join(o.get_text() for o in lt if isinstance(o, LTTextContainer)).split())))  # a rotated page stacks the glyphs: white space is not judged here
        exp = [(i + 1, "P%d" % i if k == "text" else "") for i, (k, r) in enumerate(pages)]
        if got != exp:
            res.append(("C04/high-level:extract_pages-page-sequence", exp, got, "extract_pages must yield one LTPage per page, in order"))
    except Exception as e:  # noqa
        res.append((f"C04/high-level:exception:{type(e).__name__}", "pages", repr(e), "extract_pages raised"))
    for otype in ("text", "xml"):
        for rotation in (0, 90):
            def run(sel):
                out = io.StringIO()
                extract_text_to_fp(io.BytesIO(data), out, output_type=otype, laparams=LAParams(), codec=None, rotation=rotation, page_numbers=sel)
                return out.getvalue()
            try:
                whole = _hl_pages_of(run(None), otype)
                alone = [(_hl_pages_of(run([i]), otype) or ["<nothing>"])[0] for i in range(len(pages))]
            except Exception as e:  # noqa
                res.append((f"C04/high-level:exception:{type(e).__name__}", "output", repr(e), f"extract_text_to_fp({otype}) raised"))
                continue
            if whole != alone:
                bad = [i for i in range(max(len(whole), len(alone))) if i >= len(whole) or i >= len(alone) or whole[i] != alone[i]]
                res.append((f"C04/high-level:page-output-depends-on-earlier-pages:{otype}", alone, whole, f"pages {bad} differ from the page processed alone (rotation={rotation})"))
    return res


def _hl_cases():
    out = [list(p) for p in itertools.product(itertools.product(_HL_KINDS, _HL_ROT), repeat=3)]
    out += [[("text", 90), ("emptyarr", 0), ("text", 0)], [("emptyarr", 90), ("text", 0), ("emptyarr", 0)]]
    return out


_shards_before_hl, _run_shard_before_hl, _replay_before_hl = shards, run_shard, replay


def shards(tier):  # noqa: F811
    n = len(_hl_cases())
    return _shards_before_hl(tier) + [("hl", lo, min(lo + 20, n)) for lo in range(0, n, 20)]


def run_shard(shard, tier, st):  # noqa: F811
    if shard[0] != "hl":
        return _run_shard_before_hl(shard, tier, st)
    for pages in _hl_cases()[shard[1]:shard[2]]:
        case = {"part": "hl", "pages": [list(p) for p in pages]}
        st.states += len(pages) + 1
        st.transitions += 9 * len(pages)
        st.traces += 1
        res = judge_hl(case)
        st.case(("hl", tuple(map(tuple, pages))), nontrivial=any(k != "text" or r for k, r in pages), outcome=("hl", tuple(sorted(s for s, _, _, _ in res))))
        for sig, exp, obs, what in res:
            st.violation(sig, case, exp, obs, what)
    if shard[1] == 0:
        st.sample({"family": "hl", "pages": [["text", 90], ["nocontents", 0], ["text", 0]], "checks": ["extract_pages page sequence", "extract_text_to_fp text/xml x rotation 0/90: whole == page by page"]})


def replay(case):  # noqa: F811
    if case.get("part") == "hl":
        return [{"signature": s, "expected": repr(e)[:1500], "observed": repr(o)[:1500]} for s, e, o, _ in judge_hl(case)]
    return _replay_before_hl(case)

META["rule"] += (" hl: every 3-page document over {text page, page without /Contents, page whose content paints nothing} x Rotate {0,90} per page (plus empty /Contents arrays): "
                 "extract_pages yields one LTPage per page in order, and extract_text_to_fp (text, xml; rotation argument 0 and 90) gives for the whole document, page by page, the output of "
                 "that page processed alone.")
