"""C10 -- decryption: either password opens the document to exactly the original content.

Shape B.  A plaintext document (strings at top level / in arrays / in dictionaries / in a stream dictionary,
raw and Flate streams of the block-boundary lengths, a Metadata stream, Info strings, /ID, big object numbers
and non-zero generations, an object stream) is encrypted by the reference security handler
(``mc/refs/security.py``) under every handler configuration x password pair of the grid; inside every such
shard the remaining dimensions (P, P spelling, /ID, xref layout, direct/indirect /Encrypt, string spelling,
plaintext variant) are enumerated deviation-bounded by ``ChoiceExplorer``.  The real ``PDFDocument`` is opened
with the user password, the owner password, their spec-equivalent spellings, and wrong passwords.
"""
from __future__ import annotations

import io
import os
import traceback
import zlib
from typing import Any, Dict, List, Optional, Tuple

from mc.core import REPO, h64
from mc.explore import ChoiceExplorer
from mc.pdfgen import HexStr, Name, Raw, Ref, Stream
from mc.refs import security as S

ID = "C10"
LEVEL = "model_checking"
N = Name

# ------------------------------------------------------------------ the grid
P33 = "abcdefghijklmnopqrstuvwxyzABCDEF" + "g"  # 33 characters: R<=4 uses the first 32
P33_ALT = P33[:32] + "Z"  # same first 32 characters
P130 = ("0123456789" * 13)  # 130 characters: R>=5 uses the first 127 UTF-8 bytes
P130_TAIL = P130[:127] + "zzz"  # differs only after byte 127
P130_127 = P130[:126] + "z" + P130[127:]  # differs in byte 127 (index 126)
P130_MB = "a" * 126 + "\u00e9" + "xyz"  # a two-byte character straddling the 127-byte cut

POOL_COMMON = ["", "user", "owner", P33, P130, "p\u00e4ssw\u00f6rd"]
POOL_R234 = POOL_COMMON + ["\u20acuro"]  # Euro sign: in PDFDocEncoding (0xA0), not in Latin-1
POOL_R5 = POOL_COMMON + ["\u03c0ass"]
POOL_R6 = POOL_COMMON + ["\u03c0ass", "\u2168", "x\u00a0y", P130_MB]  # U+2168 preps to "IX", NBSP to SPACE

# every password tried against every default-dimension document (expected result computed by the model)
CANDIDATES = POOL_COMMON + [
    "\u20acuro", "\u03c0ass", "IX", "I\u00adX", "\u2168", "\u0007", "\u0627\u0031", "\u00ad", "x y", "x\u00a0y",
    # characters Python calls white space but SASLprep prohibits (RFC 4013 2.3: C.2.1, C.2.2) instead of mapping to SPACE: not "x y"
    "x\ty", "x\u2028y", "x\u0085y", "x\x1fy",
    "user ", "User", "use", P33_ALT, P33[:32], P130_TAIL, P130_127, P130[:127], P130_MB, "\u00aa", "a",
]
# the few tried against the non-default documents as well
CANDIDATES_SHORT = ["", "user ", "\u03c0ass"]

CFGS_QUICK = [
    (1, 2, 40, "RC4", True), (2, 3, 40, "RC4", True), (2, 3, 40, "RC4", False), (2, 3, 56, "RC4", True), (2, 3, 128, "RC4", True),
    (4, 4, 128, "V2", True), (4, 4, 128, "AESV2", True), (4, 4, 128, "Identity", True), (5, 5, 256, "AESV3", True), (5, 6, 256, "AESV3", True),
    # V4 without the optional top-level /Length (its default is 40): the key length comes from the crypt filter (16 bytes)
    (4, 4, 128, "V2", False), (4, 4, 128, "AESV2", False),
    # V4 with a stale top-level /Length (40, 64): it does not apply to V4, the key stays 16 bytes
    (4, 4, 128, "V2", 40), (4, 4, 128, "AESV2", 64),
]
CFGS_EXTRA = [(2, 3, 64, "RC4", True), (2, 3, 80, "RC4", True), (2, 3, 96, "RC4", True), (2, 3, 104, "RC4", True), (2, 3, 120, "RC4", True)]

EMPTY_STYLES = ["full", "bare", "iv-only"]
WRONG_PW = "nope"
P_POOL = [-44, -4, -3904, -3900, -3896, -3888, -1]
ID_POOL = [bytes(range(0x30, 0x40)), None]

BOUNDS = {"quick": {"dev": 1, "cfgs": "14 x EncryptMetadata", "pairs": "quick", "two-document histories": "6x6 cipher pairs x 66 histories (depth 4 over open/wrong-password/read events)"},
          "thorough": {"dev": 2, "cfgs": "17 x EncryptMetadata", "pairs": "all", "two-document histories": "8x8 cipher pairs x 560 histories (depth 5; depth 4 with extract_text events)"}}

META = {
    "rule": (
        "shard = (handler configuration (V,R,bits,CFM,explicit Length), EncryptMetadata for R>=4, user password, owner password); inside a "
        "shard ChoiceExplorer enumerates every choice vector with at most `dev` non-default choices over P(7) x P spelling(2) x ID(2) x "
        "layout(2: table / xref stream + object stream) x Encrypt direct/indirect x string spelling literal/hex x plaintext variant(2). "
        "A case = one (document, password) opening compared with the model (distinct by construction); non-trivial = the opening "
        "succeeded and at least one non-empty encrypted string or stream was compared, or a wrong password was judged. "
        "The last in-shard dimension is xref damage (startxref not a number; thorough also 0 / past EOF; classic layout only): the table is rebuilt by scanning and "
        "the content must read back unchanged. 'pair' shards (Shape A): two documents A (classic layout) and B (xref stream, other passwords/ID/P) for every "
        "ordered pair of cipher kinds; every history up to the depth bound over {open A/B, wrong-password attempt on A/B, read next third of A/B lazily, "
        "extract_text A/B} whose last event observes one document after something happened to the other, each executed on fresh objects; oracle = what the "
        "document yields when it is the only one open (baselines run first). "
        "states/transitions = choice-tree nodes/edges (pair shards: history prefixes/events executed); traces = documents (complete choice vectors) all of "
        "whose openings were compared, plus histories."
    ),
    "bound": {k: str(v) for k, v in BOUNDS.items()},
    "assumptions": [
        "reference encryptor (mc/refs/security.py) validated by decrypting 8 third-party sample files and against cryptography's ARC4; AES/SHA/MD5 primitives of cryptography/hashlib trusted",
        "SASLprep expectations are the RFC 4013 example table plus identity on NFKC-stable Latin/Greek letters; other Unicode passwords not explored",
        "R<=4 passwords: PDFDocEncoding-representable strings only as real passwords; unrepresentable ones only as wrong passwords",
        "xref damage is limited to a startxref that cannot be used (the body is intact); a lost startxref KEYWORD makes PDFXRefFallback.load_trailer take the wrong object ('No /Root object') -- a C02/C13 matter, not generated here",
        "'pwchar' shards: for V1-V4 (4 configurations) every PDFDocEncoding code with an agreed character (controls 0x00-0x17 except 0x16, 0x18-0x1F accents, 0x80-0x9E, 0xA0, a few Latin-1) as a password character, as user and as owner password; the neighbouring codes' characters must be rejected. U+0016/0x7F/0x9F/0xAD have no agreed encoding and are not generated",
        "same-parser retry: on every default-dimension document PDFDocument(parser, wrong) then PDFDocument(parser, right) on ONE PDFParser (also right-right, wrong-user-owner) must read back like a fresh open",
        "two-document histories: two documents, one process, sequential interleaving (no threads); reads are in thirds of the object list",
        "not generated: P with reserved-one bits clear, StmF != StrF, per-stream /Crypt filters, public-key handlers, V=3",
        "zero-length strings/streams under AES are written three ways (IV + padding block; nothing; IV only) and must all read back empty",
        "one plaintext document shape (2 byte-content variants); strings of 0,1,15,16,17,32 and 300 bytes, streams of 0,1,16,31 and 600 bytes (raw and Flate) plus one page content stream",
    ],
}


def _cfg_list(tier):
    base = CFGS_QUICK + (CFGS_EXTRA if tier == "thorough" else [])
    out = []
    for c in base:
        out.append(c + (True,))
        if c[1] >= 4:
            out.append(c + (False,))
    return out


def _pool(R):
    return POOL_R234 if R <= 4 else POOL_R5 if R == 5 else POOL_R6


def shards(tier):
    out = [("selftest",)]
    for c in _cfg_list(tier):
        pool = _pool(c[1])
        for ui, u in enumerate(pool):
            for oi, o in enumerate(pool):
                if tier == "quick":
                    # quick: every password as user (owner = next in pool), as owner (user = "user"), and user == owner
                    if not (oi == (ui + 1) % len(pool) or ui == 1 or ui == oi):
                        continue
                out.append(("grid", c, u, o))
    for ca in PAIR_CFGS[tier]:
        for cb in PAIR_CFGS[tier]:
            out.append(("pair", ca, cb))
    for c in PWCHAR_CFGS:
        for role in ("user", "owner"):
            out.append(("pwchar", c, role))
    return out


# ------------------------------------------------------------ plaintext model
def _s(L: int, variant: int, tag: int) -> bytes:
    if variant == 0:
        base = (b"Str%d-" % tag) + b"abcdefghijklmnopqrstuvwxyz0123456789"
        return (base * (L // len(base) + 1))[:L]
    b = bytes(((i * 37 + L * 11 + tag * 5) & 0xFF) for i in range(L))
    if L >= 2 and tag % 2 == 0:
        b = b[:-1] + b"\x01"  # looks like one byte of PKCS#7 padding
    return b


STR_LENS = [0, 1, 15, 16, 17, 32]
TEXT = "Hello C10 (plain) text"


def plain_doc(variant: int, ident: Optional[bytes]) -> S.Plain:
    g = 0
    o: Dict[int, Tuple[int, Any]] = {}
    # no EOL after the last operator: a byte too many at the end of the decrypted stream destroys 'ET'
    content = b"BT /F1 12 Tf 72 700 Td (Hello C10 \\(plain\\) text) Tj ET"
    o[1] = (0, {"Type": N("Catalog"), "Pages": Ref(2), "Metadata": Ref(9), "Lang": b"en-US", "URI": {"Base": _s(17, variant, 1)}})
    o[2] = (0, {"Type": N("Pages"), "Kids": [Ref(3)], "Count": 1})
    o[3] = (0, {"Type": N("Page"), "Parent": Ref(2), "MediaBox": [0, 0, 612, 792], "Resources": {"Font": {"F1": Ref(5)}}, "Contents": Ref(4)})
    if variant == 0:
        o[4] = (0, Stream({}, content))
    else:
        o[4] = (0, Stream({"Filter": N("FlateDecode")}, zlib.compress(content)))
    o[5] = (0, {"Type": N("Font"), "Subtype": N("Type1"), "BaseFont": N("Helvetica")})
    o[6] = (0, {"Title": _s(15, variant, 2), "Author": _s(16, variant, 3), "Producer": _s(17, variant, 4), "Subject": b"", "Keywords": _s(32, variant, 5),
                "Creator": b"\x10" * 16 if variant else b"ends in pad\x02\x02"})
    o[7] = (0, _s(15, variant, 6))
    o[8] = (0, [_s(L, variant, 7 + i) for i, L in enumerate(STR_LENS)] + [{"K": _s(1, variant, 20), "Nest": [[_s(16, variant, 21)]]}])
    xmp = b"<?xpacket?><x:xmpmeta>C10</x:xmpmeta>"
    o[9] = (0, Stream({"Type": N("Metadata"), "Subtype": N("XML")}, xmp[:31] if variant == 0 else xmp))
    o[10] = (0, Stream({"Desc": _s(17, variant, 22), "Arr": [_s(1, variant, 23), {"In": _s(16, variant, 24)}]}, _s(16, variant, 25)))
    o[11] = (0, Stream({"Filter": N("FlateDecode")}, zlib.compress(_s(31, variant, 26))))
    o[12] = (0, Stream({}, b""))
    o[13] = (0, Stream({}, _s(1, variant, 27)))
    o[14] = (0, {"A": _s(16, variant, 28), "B": [_s(15, variant, 29), b""]})
    o[15] = (0, [_s(17, variant, 30), _s(32, variant, 31)])
    o[16] = (0, _s(16, variant, 32))
    o[17] = (0, Stream({"Filter": N("FlateDecode")}, zlib.compress(b"")))
    o[18] = (0, Stream({}, _s(31, variant, 33)))
    # longer than one pass of the RC4 index (256) and than several AES blocks
    o[19] = (0, Stream({"Long": _s(300, variant, 40)}, _s(600, variant, 41)))
    o[300] = (7, {"S": _s(16, variant, 34), "T": [_s(15, variant, 35)]})
    o[70001] = (258 if variant == 0 else 65535, [_s(17, variant, 36), _s(1, variant, 37)])
    o[1193046] = (0, Stream({"Note": _s(15, variant, 38)}, _s(16, variant, 39)))
    # beyond the 2**23-1 of Annex C; 0x1000005 shares its low-order three bytes (all Algorithm 1 uses) with object 5
    o[8388608] = (0, {"Big": _s(17, variant, 42), "L": [_s(16, variant, 43)]})
    o[16777221] = (0, Stream({"Huge": _s(15, variant, 44)}, _s(31, variant, 45)))
    idp = None if ident is None else (ident, bytes(reversed(ident)))
    return S.Plain(o, Ref(1), Ref(6), idp)


OBJSTM_MEMBERS = (5, 14, 15, 16)


def canon_model(o: Any) -> Any:
    if isinstance(o, Name):
        return ("N", o.v.decode("latin-1"))
    if isinstance(o, (bytes, bytearray)):
        return ("S", bytes(o))
    if isinstance(o, Ref):
        return ("R", o.num)
    if isinstance(o, (list, tuple)):
        return [canon_model(x) for x in o]
    if isinstance(o, dict):
        return {k: canon_model(v) for k, v in o.items()}
    if isinstance(o, Stream):
        d = {k: canon_model(v) for k, v in o.d.items()}
        data = o.data
        f = o.d.get("Filter")
        if f is not None and f.v == b"FlateDecode":
            data = zlib.decompress(data)
        return ("STM", d, data)
    return o


def canon_impl(o: Any, depth: int = 0) -> Any:
    from pdfminer.pdftypes import PDFObjRef, PDFStream
    from pdfminer.psparser import PSKeyword, PSLiteral

    if isinstance(o, PSLiteral):
        return ("N", o.name if isinstance(o.name, str) else o.name.decode("latin-1"))
    if isinstance(o, PSKeyword):
        return ("KW", repr(o.name))
    if isinstance(o, bytes):
        return ("S", o)
    if isinstance(o, PDFObjRef):
        return ("R", o.objid)
    if isinstance(o, list):
        return [canon_impl(x, depth + 1) for x in o]
    if isinstance(o, dict):
        return {k: canon_impl(v, depth + 1) for k, v in o.items()}
    if isinstance(o, PDFStream):
        d = {k: canon_impl(v, depth + 1) for k, v in o.attrs.items() if k != "Length"}
        try:
            data = o.get_data()
        except Exception as e:  # noqa
            data = ("EXC", _exc_sig(e))
        return ("STM", d, data)
    return o


def _exc_sig(e: BaseException) -> str:
    tb = traceback.extract_tb(e.__traceback__)
    fn = tb[-1].name if tb else "?"
    for fr in reversed(tb):
        if "pdfminer" in fr.filename:
            fn = fr.name
            break
    return f"{type(e).__name__}@{fn}"


def diff(exp: Any, obs: Any, path: Tuple = ()):
    """Yield (path, expected leaf, observed leaf) for every difference."""
    if isinstance(exp, tuple) and isinstance(obs, tuple) and exp and obs and exp[0] == "STM" and obs[0] == "STM":
        yield from diff(exp[1], obs[1], path + ("dict",))
        if exp[2] != obs[2]:
            yield (path + ("data",), exp[2], obs[2])
        return
    if isinstance(exp, dict) and isinstance(obs, dict):
        for k in sorted(set(exp) | set(obs)):
            if k not in exp or k not in obs:
                yield (path + (k,), exp.get(k, "<absent>"), obs.get(k, "<absent>"))
            else:
                yield from diff(exp[k], obs[k], path + (k,))
        return
    if isinstance(exp, list) and isinstance(obs, list) and len(exp) == len(obs):
        for i, (a, b) in enumerate(zip(exp, obs)):
            yield from diff(a, b, path + (i,))
        return
    if exp != obs or type(exp) is not type(obs):
        yield (path, exp, obs)


# ----------------------------------------------------------------- one case
class Params:
    FIELDS = ("cfg", "em", "user", "owner", "P", "p_unsigned", "ident", "layout", "enc_indirect", "hexstr", "variant", "empty_style", "xref_damage")
    DEFAULTS = {"empty_style": "full", "xref_damage": "none"}

    def __init__(self, **kw):
        for f in self.FIELDS:
            setattr(self, f, kw[f] if f in kw else self.DEFAULTS[f])

    def asdict(self):
        return {f: getattr(self, f) for f in self.FIELDS}


_BUILD_CACHE: Dict[Any, Any] = {}
_TEXT_CACHE: Dict[Any, str] = {}


def build(p: Params):
    """-> (pdf bytes, model dict, handler, info)"""
    cfg = S.Cfg(*p.cfg)
    doc = plain_doc(p.variant, p.ident)
    layout, members, W = p.layout, OBJSTM_MEMBERS, (1, 4, 2)
    if p.layout == "xrefstm0":
        # third field width 0 (generation / index default to 0): only expressible without object streams and with
        # every object at generation 0
        doc.objs = {num: (0, obj) for num, (gen, obj) in doc.objs.items()}
        layout, members, W = "xrefstm", (), ((1, 2, 0) if p.variant == 0 else (1, 3, 0))
    h = S.Handler(cfg, p.user, p.owner, p.P, p.ident or b"", p.em, p.p_unsigned, salt=(tuple(p.cfg), p.em, p.user, p.owner, p.P),
                  empty_style=p.empty_style)
    pdf, info = S.write_pdf(doc, h, layout, members, p.enc_indirect, p.hexstr, xref_flate=bool(p.variant), W=W)
    pdf = damage_xref(pdf, p.xref_damage)
    model = {num: canon_model(obj) for num, (gen, obj) in doc.objs.items()}
    return pdf, model, h, info, doc


XREF_DAMAGE = ["none", "startxref-not-a-number", "startxref-zero", "startxref-past-eof"]


def damage_xref(pdf: bytes, how: str) -> bytes:
    """Make the cross-reference table unreachable, so that the reader has to rebuild it by scanning for 'N G obj'
    (the body, and with it every ciphertext, is untouched: the content read back must not change)."""
    if how == "none":
        return pdf
    i = pdf.rindex(b"startxref\n")
    j = pdf.index(b"\n", i + 10)
    if how == "startxref-not-a-number":
        return pdf[: i + 10] + b"x" * (j - i - 10) + pdf[j:]
    if how == "startxref-zero":
        return pdf[: i + 10] + b"0" + pdf[j:]
    if how == "startxref-past-eof":
        return pdf[: i + 10] + b"%d" % (len(pdf) + 100) + pdf[j:]
    raise ValueError(how)


def expected_text(p: Params) -> str:
    k = (p.variant, p.layout)
    if k not in _TEXT_CACHE:
        from pdfminer.high_level import extract_text

        plain, _ = S.write_pdf(plain_doc(p.variant, bytes(16)), None, "xrefstm" if p.layout == "xrefstm0" else p.layout,
                               () if p.layout == "xrefstm0" else OBJSTM_MEMBERS)
        t = extract_text(io.BytesIO(plain))
        if TEXT not in t:
            raise RuntimeError(f"harness: plaintext document does not extract to the marker text: {t!r}")
        _TEXT_CACHE[k] = t
    return _TEXT_CACHE[k]


def expected_outcome(p: Params, pw: str) -> str:
    """'open' or 'reject' for a candidate password, from the specification."""
    R = p.cfg[1]
    ident = S.pw_identity(pw, R)
    if ident is None:
        return "reject"
    u = S.pw_identity(p.user, R)
    o = S.pw_identity(p.owner, R)
    if R <= 4 and S.prepare_password(p.owner, R) == b"":
        o = u  # no owner password: Algorithm 3 falls back to the user password
    return "open" if ident in (u, o) else "reject"


def open_doc(pdf: bytes, pw: str, before=()):
    """Open with ``pw``; ``before`` = passwords tried first on the SAME PDFParser object (a caller's retry loop)."""
    from pdfminer.pdfdocument import PDFDocument, PDFPasswordIncorrect
    from pdfminer.pdfparser import PDFParser

    parser = PDFParser(io.BytesIO(pdf))
    for b in before:
        try:
            PDFDocument(parser, password=b)
        except Exception:  # noqa
            pass
    try:
        return PDFDocument(parser, password=pw), None
    except PDFPasswordIncorrect:
        return None, "PDFPasswordIncorrect"
    except Exception as e:  # noqa
        return None, _exc_sig(e)


def _pw_exc_sig(p, err: str, phase: str) -> str:
    if p.cfg[1] <= 4 and err.startswith("UnicodeEncodeError"):
        return "C10/password-not-PDFDocEncoded:" + err  # one cause: latin-1 used where 7.6.3.3 says PDFDocEncoding
    if err == "IndexError@saslprep":
        return "C10/saslprep-empty-after-mapping:" + err
    return f"C10/{phase}:{err}"


def _is_pad_tail(exp: bytes, obs: bytes) -> bool:
    if not (isinstance(exp, bytes) and isinstance(obs, bytes)) or len(obs) <= len(exp) or not obs.startswith(exp):
        return False
    tail = obs[len(exp):]
    return len(obs) % 16 == 0 and 1 <= len(tail) <= 16 and tail == bytes((len(tail),)) * len(tail)


def judge(p: Params, pdf: bytes, model, h, info, pw: str, full: bool, before=()) -> Tuple[List[Tuple[str, Any, Any, str]], Any, bool]:
    """Open ``pdf`` with ``pw`` and compare with the model.  Returns (violations, outcome abstraction, nontrivial).
    violation = (signature, expected, observed, what)."""
    exp = expected_outcome(p, pw)
    doc, err = open_doc(pdf, pw, before)
    v: List[Tuple[str, Any, Any, str]] = []
    if exp == "reject":
        if doc is not None:
            v.append(("C10/wrong-password-accepted", "PDFPasswordIncorrect", "opened", f"password {pw!r} is neither the user nor the owner password"))
            return v, ("accepted",), True
        if err != "PDFPasswordIncorrect":
            v.append((_pw_exc_sig(p, err, "wrong-password"), "PDFPasswordIncorrect", err, f"wrong password {pw!r} rejected with another exception"))
        return v, ("reject", err), True
    if doc is None:
        if err == "PDFPasswordIncorrect":
            v.append(("C10/correct-password-rejected", "opens", err, f"password {pw!r} is spec-equivalent to the user or owner password"))
        else:
            v.append((_pw_exc_sig(p, err, "open-failed"), "opens", err, f"opening with correct password {pw!r} raised"))
        return v, ("fail", err), True
    aes = h.aes
    perms_exp = (bool(p.P & 4), bool(p.P & 8), bool(p.P & 16))
    perms_obs = (doc.is_printable, doc.is_modifiable, doc.is_extractable)
    if perms_exp != perms_obs:
        v.append(("C10/permissions", perms_exp, perms_obs, "print/modify/extract flags differ from bits 3/4/5 of P"))
    sigs: Dict[str, Tuple[Any, Any, str]] = {}
    compared = 0
    cipher_of = {(num, pl): c for num, pl, c in info["cipherlog"]}
    nums = sorted(model) if full else [6, 10]
    for num in nums:
        try:
            got = canon_impl(doc.getobj(num))
        except Exception as e:  # noqa
            sigs.setdefault(f"C10/getobj-failed:{_exc_sig(e)}", (model[num], _exc_sig(e), f"getobj({num})"))
            continue
        inobjstm = p.layout == "xrefstm" and num in OBJSTM_MEMBERS
        for path, e_, o_ in diff(model[num], got):
            where = f"object {num} at {'/'.join(map(str, path))}"
            in_sdict = len(path) >= 1 and path[0] == "dict" and isinstance(model[num], tuple)
            ev = e_[1] if isinstance(e_, tuple) and len(e_) == 2 and e_[0] == "S" else e_
            ov = o_[1] if isinstance(o_, tuple) and len(o_) == 2 and o_[0] == "S" else o_
            if aes and _is_pad_tail(ev, ov) and not inobjstm:
                sig = "C10/aes-pkcs7-padding-kept"
                what = "AES-decrypted data still carries its PKCS#7 padding"
            elif in_sdict and isinstance(ev, bytes) and isinstance(ov, bytes) and cipher_of.get((num, ev)) == ov:
                sig = "C10/stream-dict-string-not-deciphered"
                what = "string inside a stream dictionary returned still encrypted"
            elif inobjstm:
                sig = "C10/objstm-member-altered"
                what = "object taken from an object stream differs (decrypted twice?)"
            elif path and path[-1] == "data" and path[0] != "dict":
                if num == 9 and not p.em:
                    sig = "C10/metadata-stream-altered"
                    what = "unencrypted Metadata stream (EncryptMetadata false) not returned as is"
                else:
                    sig = "C10/wrong-stream-data"
                    what = "decrypted stream differs from plaintext"
            elif isinstance(ev, bytes):
                sig = "C10/wrong-string"
                what = "decrypted string differs from plaintext"
            else:
                sig = "C10/structure-differs"
                what = "non-string value differs"
            sigs.setdefault(sig, (e_, o_, f"{what} ({where})"))
        compared += 1
    # Info through the trailer, /ID untouched, /Encrypt strings untouched
    try:
        tr = doc.xrefs[0].get_trailer()
        tid = tr.get("ID")
        from pdfminer.pdftypes import resolve1

        tid = resolve1(tid)
        tid_exp = None if p.ident is None else [p.ident, bytes(reversed(p.ident))]
        if tid != tid_exp:
            sigs.setdefault("C10/trailer-id-altered", (tid_exp, tid, "trailer /ID strings must be returned as stored (never encrypted)"))
        enc = resolve1(tr.get("Encrypt"))
        if enc.get("O") != h.O or enc.get("U") != h.U:
            sigs.setdefault("C10/encrypt-dict-altered", ((h.O, h.U), (enc.get("O"), enc.get("U")), "strings of the encryption dictionary must be returned as stored"))
        if "encrypt" in info:
            e2 = doc.getobj(info["encrypt"])
            if e2.get("O") != h.O or e2.get("U") != h.U:
                sigs.setdefault("C10/encrypt-dict-altered", ((h.O, h.U), (e2.get("O"), e2.get("U")), "getobj(/Encrypt object) must return the strings as stored"))
        if "xref" in info:
            xs = doc.getobj(info["xref"])
            try:
                xd = xs.get_data()
            except Exception as e:  # noqa
                xd = ("EXC", _exc_sig(e))
            if xd != info["xref_data"]:
                sigs.setdefault("C10/xref-stream-data-deciphered", (info["xref_data"], xd,
                                "the cross-reference stream is never encrypted (7.5.8.2); fetched through getobj() its data came back altered"))
            xid = resolve1(xs.attrs.get("ID"))
            if xid != tid_exp:
                sigs.setdefault("C10/xref-stream-dict-string-deciphered", (tid_exp, xid, "strings in the cross-reference stream dictionary are never encrypted; getobj() returned them altered"))
        di = canon_impl(doc.info)
        if di != [model[6]]:
            d0 = next(diff([model[6]], di), None)
            if d0 is not None and not (aes and _is_pad_tail(d0[1][1] if isinstance(d0[1], tuple) else d0[1], d0[2][1] if isinstance(d0[2], tuple) else d0[2])):
                sigs.setdefault("C10/info-differs", (d0[1], d0[2], "doc.info differs from the plaintext Info dictionary"))
    except Exception as e:  # noqa
        sigs.setdefault(f"C10/trailer-access-failed:{_exc_sig(e)}", ("trailer readable", _exc_sig(e), "reading trailer / Info"))
    if full:
        try:
            from pdfminer.high_level import extract_text

            t = extract_text(io.BytesIO(pdf), password=pw)
        except Exception as e:  # noqa
            t = "EXC " + _exc_sig(e)
        te = expected_text(p)
        if t != te:
            sigs.setdefault("C10/text-differs", (te, t, "extract_text(password=) differs from the unencrypted original's text"))
    for sig, (e_, o_, what) in sorted(sigs.items()):
        v.append((sig, e_, o_, what))
    keyp = None
    try:
        keyp = bytes(doc.decipher.__self__.key[:4])  # type: ignore[union-attr]
    except Exception:  # noqa
        pass
    outcome = ("open", perms_obs, keyp, tuple(sorted(sigs)))
    return v, outcome, compared > 0 and not h.identity


# -------------------------------------------------------------- enumeration
def _program_for(cfg, em, user, owner, tier="thorough"):
    damages = XREF_DAMAGE[:2] if tier == "quick" else XREF_DAMAGE

    def program(x):
        P = x.pick(P_POOL, "P")
        pu = x.flag("P-unsigned")
        ident = x.pick(ID_POOL, "ID")
        layout = x.pick(["table", "xrefstm", "xrefstm0"], "layout")
        encind = x.flag("Encrypt-indirect")
        hexstr = x.flag("hex-strings")
        variant = x.choose(2, "variant")
        # zero-length strings/streams under AES: IV + padding block, nothing at all, IV only (no choice without AES)
        es = x.pick(EMPTY_STYLES if cfg[3] in ("AESV2", "AESV3") else EMPTY_STYLES[:1], "empty-style")
        # damaged startxref: the table is rebuilt by scanning (only meaningful for the classic layout: object streams
        # of an encrypted file cannot be scanned before the key is known)
        dmg = x.pick(damages if layout == "table" else XREF_DAMAGE[:1], "xref-damage")
        return Params(cfg=cfg, em=em, user=user, owner=owner, P=P, p_unsigned=pu, ident=ident, layout=layout,
                      enc_indirect=encind, hexstr=hexstr, variant=variant, empty_style=es, xref_damage=dmg)

    return program


def _case_dict(p: Params, pdf: bytes, pw: str, full: bool, before=()) -> Dict[str, Any]:
    return {"params": p.asdict(), "pdf": pdf, "password": pw, "full": full, "before": list(before)}


def run_case(p: Params, st, default: bool, first: bool) -> None:
    pdf, model, h, info, _ = build(p)
    R = p.cfg[1]
    opened_full = set()
    cands = list(CANDIDATES if default else CANDIDATES_SHORT)
    for pw in (p.user, p.owner):
        if pw not in cands:
            cands.append(pw)
    # user and owner first (full comparison), then the rest
    order = [p.user, p.owner] + [c for c in cands if c not in (p.user, p.owner)]
    seen = set()
    for pw in order:
        if pw in seen:
            continue
        seen.add(pw)
        exp = expected_outcome(p, pw)
        ident = S.pw_identity(pw, R)
        full = exp == "open" and pw in (p.user, p.owner) and ident not in opened_full
        if full:
            opened_full.add(ident)
        viol, outcome, nontrivial = judge(p, pdf, model, h, info, pw, full)
        st.case(None, nontrivial=nontrivial, outcome=(p.cfg[:4], outcome))
        st.add("openings_expected_" + exp, 1)
        for sig, e_, o_, what in viol:
            st.violation(sig, _case_dict(p, pdf, pw, full), e_, o_, what)
    if default:
        # a caller's retry loop on ONE PDFParser: wrong then right password, and right twice
        for before in ((WRONG_PW,), (p.user,), (WRONG_PW, p.owner)):
            pw = p.owner if len(before) == 2 else p.user
            if expected_outcome(p, WRONG_PW) != "reject" or expected_outcome(p, pw) != "open":
                continue
            viol, outcome, nontrivial = judge(p, pdf, model, h, info, pw, True, before)
            st.case(None, nontrivial=nontrivial, outcome=(p.cfg[:4], "retry", len(before), outcome))
            st.add("openings_after_retry_on_same_parser", 1)
            for sig, e_, o_, what in viol:
                st.violation(sig if sig.startswith("C10/same-parser") else "C10/same-parser-retry:" + sig[4:], _case_dict(p, pdf, pw, True, before), e_, o_,
                             what + f" [after PDFDocument(parser, {before!r}) on the same parser]")
    if first:
        st.sample({"params": p.asdict(), "pdf_len": len(pdf), "passwords_tried": len(seen), "encrypt": repr(h.encrypt_dict())[:300]})


def run_shard(shard, tier, st):
    if shard[0] == "selftest":
        probs = S.selftest(REPO if os.path.isdir(os.path.join(REPO, "samples")) else "/repo")
        if probs:
            raise RuntimeError("reference security handler failed its validation: " + "; ".join(probs))
        st.add("reference_selftest_checks", 1)
        st.states += 1
        st.transitions += 1
        st.traces += 1
        st.case(None, nontrivial=True, outcome=("selftest", "ok"))
        st.sample({"selftest": "reference handler validated against samples/encryption/*.pdf and cryptography ARC4"})
        return
    if shard[0] == "pair":
        return run_pair_shard(shard, tier, st)
    if shard[0] == "pwchar":
        return run_pwchar_shard(shard, tier, st)
    _, c, user, owner = shard
    cfg, em = c[:5], c[5]
    R = cfg[1]
    if S.prepare_password(user, R) is None or S.prepare_password(owner, R) is None:
        st.not_judged["password not representable at this revision"] += 1
        return
    ex = ChoiceExplorer(_program_for(cfg, em, user, owner, tier), mode="dev", bound=BOUNDS[tier]["dev"])
    first = True
    for p, x in ex.run():
        run_case(p, st, default=(x.deviations() == 0), first=first)
        first = False
    st.states += ex.states
    st.transitions += ex.transitions
    st.traces += ex.traces


# ------------------------------ every PDFDocEncoding code as a password character
PWCHAR_CFGS = [(1, 2, 40, "RC4", True), (2, 3, 128, "RC4", True), (4, 4, 128, "V2", True), (4, 4, 128, "AESV2", True)]


def pwchar_alphabet():
    """(code, character) for every code of PDFDocEncoding outside ASCII letters whose character is agreed on:
    controls 0x00-0x17 (not 0x16), accents 0x18-0x1F, 0x80-0x9E, 0xA0 (Annex D.2); plus a few Latin-1 ones."""
    out = [(c, chr(c)) for c in range(0x18) if c != 0x16]
    out += [(0x18 + i, ch) for i, ch in enumerate(S._PDFDOC_ACCENTS)]
    out += sorted((code, ch) for ch, code in S._PDFDOC_EXTRA.items())
    out += [(c, chr(c)) for c in (0x20, 0x7E, 0xA1, 0xAC, 0xAE, 0xFF)]
    return out


def run_pwchar_shard(shard, tier, st):
    _, cfg, role = shard
    alpha = pwchar_alphabet()
    chars = dict(alpha)
    for code, ch in alpha:
        pw = "p" + ch + "w"
        assert S.pdfdoc_encode(pw) == b"p" + bytes((code,)) + b"w"
        user, owner = (pw, "owner") if role == "user" else ("user", pw)
        p = Params(cfg=cfg[:5], em=True, user=user, owner=owner, P=-44, p_unsigned=False, ident=ID_POOL[0], layout="table",
                   enc_indirect=False, hexstr=False, variant=0)
        pdf, model, h, info, _ = build(p)
        # the password itself, and the same password with the neighbouring codes' characters (must be rejected)
        cands = [pw] + ["p" + chars[c2] + "w" for c2 in (code - 1, code + 1) if c2 in chars] + ["p" + chr(code ^ 1) + "w" if code < 0x20 else "pw"]
        seen = set()
        for cand in cands:
            if cand in seen or S.pdfdoc_encode(cand) is None:
                continue  # e.g. U+0016: no agreed encoding, not judged
            seen.add(cand)
            viol, outcome, nontrivial = judge(p, pdf, model, h, info, cand, False)
            st.case(None, nontrivial=True, outcome=(cfg[:4], role, code, outcome[:2]))
            st.transitions += 1
            for sig, e_, o_, what in viol:
                st.violation(sig, _case_dict(p, pdf, cand, False), e_, o_, what + f" [password character U+{ord(ch):04X} = PDFDocEncoding 0x{code:02X}, as {role} password]")
        st.states += 1
        st.traces += 1
    st.sample({"pwchar": S.Cfg(*cfg[:5]).name, "role": role, "codes": len(alpha)})


# --------------------------------------------- two documents alive at once
PAIR_CFGS = {
    "quick": [(2, 3, 128, "RC4", True), (4, 4, 128, "V2", True), (4, 4, 128, "AESV2", True), (4, 4, 128, "Identity", True),
              (5, 5, 256, "AESV3", True), (5, 6, 256, "AESV3", True)],
    "thorough": [(1, 2, 40, "RC4", True), (2, 3, 128, "RC4", True), (4, 4, 128, "V2", True), (4, 4, 128, "AESV2", True), (4, 4, 128, "Identity", True),
                 (4, 4, 128, "V2", False), (5, 5, 256, "AESV3", True), (5, 6, 256, "AESV3", True)],
}
# O = open with the user password, W = attempt with a wrong password, R = read the next third of the objects lazily
# (a fourth R re-reads everything), T = extract_text() on the bytes (opens and drops a document of its own)
PAIR_EVENTS = {"quick": ["OA", "OB", "WA", "WB", "RA", "RB"], "thorough": ["OA", "OB", "WA", "WB", "RA", "RB", "TA", "TB"]}


def pair_params(cfgA, cfgB):
    a = Params(cfg=cfgA, em=True, user="user", owner="owner", P=-44, p_unsigned=False, ident=ID_POOL[0], layout="table",
               enc_indirect=False, hexstr=False, variant=0)
    b = Params(cfg=cfgB, em=cfgB[1] < 4, user="p\u00e4ssw\u00f6rd", owner="second", P=-3904, p_unsigned=True, ident=bytes(range(0x60, 0x70)),
               layout="xrefstm", enc_indirect=True, hexstr=True, variant=1)
    return a, b


def pair_histories(depth: int, events):
    """Every event sequence up to ``depth`` that obeys: a document is opened at most once, read only while open,
    at most one wrong-password attempt and one extract_text per document, and the last event observes something."""
    out = []

    def rec(h):
        # kept: the last event observes document X after something happened to the other document
        if h and h[-1][0] in "RT" and any(e[1] != h[-1][1] for e in h[:-1]):
            out.append(tuple(h))
        if len(h) == depth:
            return
        for e in events:
            k, d = e[0], e[1]
            if k == "O" and ("O" + d) in h:
                continue
            if k == "R" and ("O" + d) not in h:
                continue
            if k in "WT" and e in h:
                continue
            rec(h + [e])

    rec([])
    # baselines first: each document alone
    base = [("OA", "RA", "RA", "RA", "RA"), ("OB", "RB", "RB", "RB", "RB"), ("TA",), ("TB",)]
    return base + [h for h in out if h not in base]


_SIDE_CACHE: Dict[Any, Any] = {}


class _Side:
    def __init__(self, p: Params):
        self.p = p
        k = tuple(sorted((f, repr(v)) for f, v in p.asdict().items()))
        if k not in _SIDE_CACHE:
            if len(_SIDE_CACHE) > 8:
                _SIDE_CACHE.clear()
            _SIDE_CACHE[k] = build(p)
        self.pdf, self.model, self.h, self.info, _ = _SIDE_CACHE[k]
        self.doc = None
        self.reads = 0
        nums = sorted(self.model)
        k = (len(nums) + 2) // 3
        self.chunks = [nums[:k], nums[k:2 * k], nums[2 * k:]]


def run_history(a: Params, b: Params, hist) -> Tuple[List[Tuple[str, Any, Any, str]], Any, int]:
    """Execute one history on fresh objects; -> (violations, outcome abstraction, events executed)."""
    sides = {"A": _Side(a), "B": _Side(b)}
    viol: List[Tuple[str, Any, Any, str]] = []
    res = []
    alone = len({e[1] for e in hist}) == 1
    for i, e in enumerate(hist):
        k, sd = e[0], sides[e[1]]
        where = f"event {i} ({e}) of {'-'.join(hist)}"
        if k == "O":
            sd.doc, err = open_doc(sd.pdf, sd.p.user)
            res.append(err or "opened")
            if sd.doc is None:
                viol.append((_pw_exc_sig(sd.p, err, "open-failed") if err != "PDFPasswordIncorrect" else "C10/correct-password-rejected", "opens", err, where))
                break
        elif k == "W":
            d2, err = open_doc(sd.pdf, WRONG_PW)
            res.append(err or "accepted")
            if d2 is not None:
                viol.append(("C10/wrong-password-accepted", "PDFPasswordIncorrect", "opened", where))
            elif err != "PDFPasswordIncorrect":
                viol.append((_pw_exc_sig(sd.p, err, "wrong-password"), "PDFPasswordIncorrect", err, where))
        elif k == "T":
            try:
                from pdfminer.high_level import extract_text

                t = extract_text(io.BytesIO(sd.pdf), password=sd.p.user)
            except Exception as ex:  # noqa
                t = "EXC " + _exc_sig(ex)
            ok = t == expected_text(sd.p)
            res.append("text-ok" if ok else "text-differs")
            if not ok:
                viol.append(("C10/text-differs" if alone else "C10/cross-document-interference", expected_text(sd.p), t,
                             "extract_text differs from the unencrypted original's text; " + where))
        else:
            nums = sd.chunks[sd.reads] if sd.reads < 3 else sorted(sd.model)
            sd.reads += 1
            bad = None
            for num in nums:
                try:
                    got = canon_impl(sd.doc.getobj(num))
                except Exception as ex:  # noqa
                    got = ("EXC", _exc_sig(ex))
                d0 = next(diff(sd.model[num], got), None)
                if d0 is not None and bad is None:
                    bad = (num, d0)
            if sd.reads == 3 and bad is None:
                di = canon_impl(sd.doc.info)
                d0 = next(diff([sd.model[6]], di), None)
                if d0 is not None:
                    bad = ("info", d0)
            res.append("read-ok" if bad is None else "read-differs")
            if bad is not None:
                num, (path, e_, o_) = bad
                sig = "C10/wrong-string" if alone else "C10/cross-document-interference"
                viol.append((sig, e_, o_, f"object {num} of document {e[1]} at {'/'.join(map(str, path))} differs from what the document yields when it is the "
                                           f"only one open; {where}"))
    return viol, tuple(res), len(res)


def run_pair_shard(shard, tier, st):
    _, cfgA, cfgB = shard
    a, b = pair_params(cfgA[:5], cfgB[:5])
    if tier == "quick":
        hists = pair_histories(4, PAIR_EVENTS["quick"])
    else:  # depth 5 without extract_text events, depth 4 with them
        hists = pair_histories(5, PAIR_EVENTS["quick"])
        hists += [h for h in pair_histories(4, PAIR_EVENTS["thorough"]) if h not in set(hists)]
    prefixes = set()
    first = True
    for hist in hists:
        viol, outcome, n = run_history(a, b, hist)
        for i in range(1, len(hist) + 1):
            prefixes.add(hist[:i])
        st.transitions += n
        st.traces += 1
        st.case(None, nontrivial=any(r.startswith(("read", "text")) for r in outcome), outcome=(cfgA[:4], cfgB[:4], hist, outcome))
        for sig, e_, o_, what in viol:
            sa, sb = _Side(a), _Side(b)
            st.violation(sig, {"pair": [a.asdict(), b.asdict()], "history": list(hist), "pdfA": sa.pdf, "pdfB": sb.pdf}, e_, o_, what)
        if first:
            st.sample({"pair": [S.Cfg(*cfgA[:5]).name, S.Cfg(*cfgB[:5]).name], "histories": len(hists), "example": list(hists[min(40, len(hists) - 1)])})
            first = False
    st.states += 1 + len(prefixes)
    st.add("pair_histories", len(hists))


def replay(case):
    if "pair" in case:
        pa, pb = (dict(x) for x in case["pair"])
        pa["cfg"], pb["cfg"] = tuple(pa["cfg"]), tuple(pb["cfg"])
        viol, _, _ = run_history(Params(**pa), Params(**pb), tuple(case["history"]))
        return [{"signature": sig, "expected": repr(e_)[:500], "observed": repr(o_)[:500]} for sig, e_, o_, what in viol]
    pr = dict(case["params"])
    pr["cfg"] = tuple(pr["cfg"])
    p = Params(**pr)
    pdf2, model, h, info, _ = build(p)
    pdf = case["pdf"]
    out = []
    if pdf2 != pdf:
        out.append({"signature": "C10/harness-nondeterministic-build", "expected": len(pdf), "observed": len(pdf2)})
        return out
    before = tuple(case.get("before") or ())
    viol, _, _ = judge(p, pdf, model, h, info, case["password"], case["full"], before)
    for sig, e_, o_, what in viol:
        if before:
            sig = "C10/same-parser-retry:" + sig[4:]
        out.append({"signature": sig, "expected": repr(e_), "observed": repr(o_)})
    return out
