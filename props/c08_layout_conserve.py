"""C08 -- layout analysis conserves content and keeps its hierarchy well-formed.

Shape B: all ordered sequences (with repetition) of glyphs from a 12-box pool
up to a length bound, placed on a real LTPage together with an LTRect and an
LTFigure (which holds a second copy of the sequence and a rect of its own),
analysed with the real ``LTPage.analyze`` under a grid of LAParams.  The oracle
is a set of structural invariants evaluated on the real result tree.
"""
from __future__ import annotations

import itertools
import traceback

import pdfminer.layout as L
from pdfminer.layout import (
    LAParams,
    LTAnno,
    LTChar,
    LTFigure,
    LTTextBox,
    LTTextBoxHorizontal,
    LTTextBoxVertical,
    LTTextGroup,
    LTTextLine,
    LTTextLineHorizontal,
    LTTextLineVertical,
)

from mc.refs.layout_glyphs import HeapBudgetExceeded, install_counting_heapq, install_stable_id, make_char, make_figure, make_page, make_rect

ID = "C08"
LEVEL = "model_checking"

PAGE_BBOX = (0, 0, 100, 100)
FIG_BBOX = (5, 25, 45, 60)
RECT_BBOX = (2, 2, 98, 98)
FIG_RECT_BBOX = (6, 26, 44, 59)

# (text, x0, y0, w, h, kind)
POOL = [
    ("a", 10, 40, 8, 8, "h"),    # on a line
    ("b", 18, 40, 8, 8, "h"),    # adjacent on the same line
    ("c", 14, 42, 8, 16, "h"),   # overlapping a and b, taller
    ("d", 10, 30, 8, 8, "h"),    # stacked below a (gap 2)
    ("e", 70, 80, 16, 8, "h"),   # far apart, wider
    ("f", -30, 40, 8, 8, "h"),   # off-page left
    ("g", 10, 120, 8, 8, "h"),   # off-page above
    ("i", 26, 40, 0, 8, "h"),    # zero width
    ("j", 30, 40, 8, 0, "h"),    # zero height
    (" ", 30, 40, 8, 8, "h"),    # blank text after a word gap
    ("v", 10, 48, 8, 8, "v"),    # vertical-font glyph directly above a
    ("r", 18, 48, 8, 8, "r"),    # rotated matrix (upright False), directly above b and right of v
]

FLOWS = [0.5, None, -1, 0, 1]
MARGIN_DEFAULT = (0.5, 2, 0.5, 0.125)  # line_overlap, char_margin, line_margin, word_margin
MARGIN_ALTS = [(0, 1), (0, 1000), (0, 100), (0, 100)]


def _margin_devs(k):
    """all margin tuples differing from MARGIN_DEFAULT in exactly k positions"""
    out = []
    for pos in itertools.combinations(range(4), k):
        for alts in itertools.product(*[MARGIN_ALTS[p] for p in pos]):
            m = list(MARGIN_DEFAULT)
            for p, a in zip(pos, alts):
                m[p] = a
            out.append(tuple(m))
    return out


def param_grid(tier):
    """list of (boxes_flow, detect_vertical, all_texts, line_overlap, char_margin, line_margin, word_margin)"""
    if tier == "thorough":
        flags = [(bf, dv, at) for bf in FLOWS for dv in (False, True) for at in (False, True)]
    else:
        # all_texts=False leaves the figure untouched (a sub-behaviour of all_texts=True): only with boxes_flow 0.5/None
        flags = [(bf, dv, True) for bf in FLOWS for dv in (False, True)]
        flags += [(bf, dv, False) for bf in (0.5, None) for dv in (False, True)]
    out = [f + MARGIN_DEFAULT for f in flags]                       # flag product, default margins
    out += [(0.5, True, True) + m for m in _margin_devs(1)]          # every single margin deviation
    if tier == "thorough":
        out += [(None, True, True) + m for m in _margin_devs(1)]
        out += [(0.5, True, True) + m for m in _margin_devs(2)]      # every double margin deviation
    return out


BOUNDS = {
    "quick": {"max_len": 4, "params": len(param_grid("quick"))},
    "thorough": {"max_len": 5, "params_len<=4": len(param_grid("thorough")), "params_len5": len(param_grid("quick"))},
}

META = {
    "rule": (
        "every ordered sequence (with repetition) of at most max_len glyphs from the 12-box pool, put on an LTPage "
        "(0,0,100,100) with one LTRect after the first glyph and one LTFigure (bbox 5,25,45,60) at the end that holds fresh "
        "copies of the same glyph sequence plus its own LTRect; analysed with every LAParams of the grid (product of "
        "boxes_flow {0.5,None,-1,0,1} x detect_vertical x all_texts [quick: all_texts=False only with boxes_flow 0.5/None] "
        "at default margins, plus every single [thorough: and "
        "double] deviation of line_overlap{0,1} char_margin{0,1000} line_margin{0,100} word_margin{0,100} at "
        "(0.5,True,True) [thorough: single deviations also at boxes_flow=None]). A case is one (sequence, LAParams) "
        "pair, distinct by construction; sequences of length 1..max_len-1 are additionally analysed (quick grid) in two layouts "
        "whose enclosing containers have no glyph of their own (page = rect + figure with the sequence; page = rect + glyph-less "
        "figure holding the figure with the sequence), where with all_texts the figure's result must equal the result of the same "
        "sequence analysed as direct page content and without all_texts the figure's children must be untouched; plus the family vcols: two or three vertical columns of two stacked 16-high glyphs each "
        "(column A x 40..56; column B at x0 in {32,36,40,44,48,52,60} with width {8,12,16,24}, level or 4 lower; optional third "
        "column), every content order of the columns, with and without a far-away separator glyph between columns, so that "
        "vertical boxes hold lines of different widths with nested, partially overlapping, equal-edge and disjoint x-extents; "
        "plus the family deep-chain (both tiers): n in {50,450,600,1200} boxes at positions 20i+i^2 (strictly increasing gaps, so the "
        "group tree is a chain of depth n-1) stacked along y, mirrored along x, and as two-glyph vertical columns with "
        "detect_vertical, each analysed directly with boxes_flow {0.5,-1,1,None} under the full oracle (evaluated without "
        "recursion) and fed through a generated one-page PDF to extract_text_to_fp for text, xml and html (xml: n textbox "
        "elements 0..n-1 and a layout tree holding each id once), recursion limit left at the default (n=1200, and the x-mirrored arrangement at every n <= 600, only with boxes_flow 0.5 directly and through the xml route); "
        "plus the family huge (both tiers): page boxes, and boxes of analysed figures, that are huge (10^6, 10^11, 2^40; also with a "
        "negative origin) in exactly one dimension or in both, holding 2 or 3 two-glyph boxes far apart along the huge "
        "dimension(s), boxes_flow {0.5,None,-1,1}, full oracle, termination judged by a counted budget of 2*10^7 Plane grid "
        "steps; plus the family extreme (both tiers): (a) every sequence of at most 2 pool glyphs x every LAParams in which at most two of "
        "line_overlap, char_margin, line_margin, word_margin take a value from {0, 1e9, 1e300, inf} (at boxes_flow 0.5 with "
        "detect_vertical, and at None without); (b) every sequence of at most 3 glyphs from a pool of 3 ordinary and 5 gigantic glyphs "
        "(2e9 square around the page, 1e12 wide, 1e9 tall, 1e300 square, gigantic off-page) x boxes_flow {0.5,None} x detect_vertical; "
        "layout and oracle as for the main family, plus a counted budget of 2*10^6 Plane grid steps on the 100x100 page; "
        "plus the family newline-text (both tiers): every sequence of at most 3 glyphs from a 6-glyph pool that contains glyphs whose "
        "own text is a line feed or ends in one ('\\n', 'x\\n'), two LAParams, main-family layout and oracle; plus the family "
        "device-render-char (both tiers): every sequence of at most 3 glyph texts from {'A', '', ' ', '\\n', 'C'} rendered through "
        "PDFPageAggregator.render_char (stub font) on the page or inside a figure, laparams None / default / boxes_flow None / all_texts: "
        "every rendered glyph occurs exactly once; "
        "plus the family device-interleave (both tiers): two PDFPageAggregator objects driven through the device API (begin_page, "
        "1-2 nested begin_figure, a glyph, end_figure, a page glyph, end_page), every interleaving of the two call sequences for "
        "nesting depths {1,2}^2, and a fresh device used after the other was abandoned after k calls; laparams None / all_texts; "
        "each device's page must hold exactly its own figures and glyphs; "
        "plus the family device-forms (both tiers): generated PDFs interpreted through PDFPageAggregator (laparams None / "
        "all_texts False / True) whose page shows two glyphs, a Form XObject (two glyphs, a rectangle, optionally a nested form "
        "with a glyph and a rectangle) and an image XObject, for 5 form /BBox values (3 of them degenerate) x 4 form /Matrix x 4 "
        "cm (singular ones included): every glyph, figure, image and shape shown must occur exactly once under its own figure; "
        ""
        "non-trivial = the result tree contains a container with >= 2 members (a line "
        "with 2 glyphs, a box with 2 lines or a group). states = glyph sequences (nodes of the sequence tree), "
        "transitions = analyses run, traces = analyses whose result tree passed through the complete invariant walk."
    ),
    "bound": {k: str(v) for k, v in BOUNDS.items()},
    "assumptions": [
        "glyphs are built directly as LTChar with a stub font; that PDFPageAggregator feeds the same objects is C05/C11's subject",
        "page box fixed at (0,0,100,100), figure box fixed; larger sequences than the bound are not explored",
        "termination is judged by counted budgets, not by time: iterations of the box-merging loop (the only unbounded loop) everywhere, "
        "and in the huge family also the number of Plane grid steps (pdfminer.utils.drange wrapped by the harness)",
        "ties between equal box distances are broken by id() (memory address) in group_textboxes; the harness substitutes a "
        "first-asked counter for the name `id` inside pdfminer.layout so that runs are reproducible (address dependence is C12's subject)",
        "numbering 0..n-1 is judged per layout container (page; figure when all_texts)",
        "the ordering claim (top-to-bottom, right-to-left for vertical boxes) is read as implying that a box holds only lines of its own writing direction",
        "'one orientation per line' is read as: a line is horizontal or vertical and every pair of consecutive glyphs in it "
        "overlaps on the line's cross axis",
    ],
}

DEADLINE = {"quick": 900, "thorough": 3600}

_HEAP = None


def _lap(p):
    bf, dv, at, lo, cm, lm, wm = p
    return LAParams(line_overlap=lo, char_margin=cm, line_margin=lm, word_margin=wm, boxes_flow=bf, detect_vertical=dv, all_texts=at)


OUTER_FIG_BBOX = (4, 24, 46, 61)
OUTER_RECT_BBOX = (4.5, 24.5, 45.5, 60.5)
VARIANTS = {
    0: "page holds the glyph sequence, a rect and a figure with a copy of the sequence and a rect",
    1: "page holds no glyph of its own: a rect and a figure with the sequence and a rect",
    2: "page holds a rect and a glyph-less figure (with a rect) that holds the figure with the sequence and a rect",
}


def build(specs, variant=0):
    """-> (page, originals); originals = list of (obj, parent container).  Every container also gets an LTRect."""
    page, chars = make_page(PAGE_BBOX, specs[:1] if variant == 0 else [])
    originals = [(c, page) for c in chars]
    rect = make_rect(RECT_BBOX)
    page.add(rect)
    originals.append((rect, page))
    if variant == 0:
        for s in specs[1:]:
            c = make_char(s)
            page.add(c)
            originals.append((c, page))
    parent = page
    if variant == 2:
        outer = make_figure("O", OUTER_FIG_BBOX)
        r3 = make_rect(OUTER_RECT_BBOX)
        outer.add(r3)
        originals.append((r3, outer))
        parent = outer
    fig = make_figure("F", FIG_BBOX)
    for s in specs:
        c = make_char(s)
        fig.add(c)
        originals.append((c, fig))
    r2 = make_rect(FIG_RECT_BBOX)
    fig.add(r2)
    originals.append((r2, fig))
    parent.add(fig)
    originals.append((fig, parent))
    if variant == 2:
        page.add(outer)
        originals.append((outer, page))
    return page, fig, originals


def canon_container(cont, glyph_pos):
    """ordered structure of an analysed container: boxes (class, index, lines), loose lines, other items"""
    def line(ln):
        return ("V" if isinstance(ln, LTTextLineVertical) else "H",
                tuple(glyph_pos.get(id(o), "anno:" + o.get_text()) for o in ln), ln.get_text())
    out = []
    for o in cont:
        if isinstance(o, LTTextBox):
            out.append(("B", "V" if isinstance(o, LTTextBoxVertical) else "H", o.index, tuple(line(ln) for ln in o)))
        elif isinstance(o, LTTextLine):
            out.append(("E",) + line(o))
        elif isinstance(o, LTChar):
            out.append(("bare-glyph", glyph_pos.get(id(o))))
        else:
            out.append(("O", type(o).__name__))
    return tuple(out)


def reference_structure(specs, p):
    """the same sequence (and a rect) analysed as the direct content of a page that has the figure's box"""
    page, chars = make_page(FIG_BBOX, specs)
    page.add(make_rect(FIG_RECT_BBOX))
    install_stable_id().reset()
    page.analyze(_lap(p))
    return canon_container(page, {id(c): i for i, c in enumerate(chars)})


def _snap(o):
    if isinstance(o, LTChar):
        return (o.bbox, o._text, o.matrix, o.upright, o.adv, o.size, o.width, o.height)
    if isinstance(o, LTFigure):
        return (o.bbox, o.name, o.matrix)
    return (o.bbox, tuple(o.pts), o.width, o.height)


def _union(members):
    x0 = min(m.x0 for m in members)
    y0 = min(m.y0 for m in members)
    x1 = max(m.x1 for m in members)
    y1 = max(m.y1 for m in members)
    return (x0, y0, x1, y1)


def exc_signature(e, deep=False):
    """C08/exception:<Type>@<function> (C08/deep-chain:... for the deep-chain family); for a RecursionError the function
    is the pdfminer function that recurses (most frequent among the innermost pdfminer frames), else the innermost pdfminer frame"""
    tb = traceback.extract_tb(e.__traceback__)
    frames = [f for f in tb if "pdfminer" in f.filename.replace("\\", "/").split("/")]
    fn = (frames or tb)[-1].name if tb else "?"
    if isinstance(e, RecursionError) and frames:
        cnt = {}
        for f in frames[-40:]:
            if not f.name.startswith("<"):
                cnt[f.name] = cnt.get(f.name, 0) + 1
        if cnt:
            fn = sorted(cnt, key=lambda k: (-cnt[k], k))[0]
    return f"C08/{'deep-chain' if deep else 'exception'}:{type(e).__name__}@{fn}"


def _bbox_sig(kind, bbox):
    """a bounding box that is not the union of its members'; diagnosed cause: clamped at utils.INF = 2**31 - 1"""
    if any(abs(v) == 2147483647 for v in bbox):
        return f"C08/bbox-not-union:{kind}:clamped-at-INF=2^31-1"
    return f"C08/bbox-not-union:{kind}"


class Walk:
    """Evaluates the invariants on one analysed layout container; collects problems as (signature, expected, observed)."""

    def __init__(self, p, deep=False):
        self.p = p
        self.deep = deep      # deep-chain family: flat outcome abstraction, C08/deep-chain:* exception signatures
        self.problems = []
        self.leaves = []      # ids of non-virtual leaves met in the hierarchy
        self.shape = []       # outcome abstraction
        self.multi = False    # some container has >= 2 members

    def bad(self, sig, exp, obs):
        self.problems.append((sig, exp, obs))

    def line(self, ln, where):
        objs = list(ln)
        glyphs = [o for o in objs if isinstance(o, LTChar)]
        for o in objs:
            if not isinstance(o, (LTChar, LTAnno)):
                self.bad("C08/ill-typed-member:line", "LTChar or LTAnno", type(o).__name__)
        self.leaves.extend(id(g) for g in glyphs)
        if len(glyphs) >= 2:
            self.multi = True
        horizontal = isinstance(ln, LTTextLineHorizontal)
        vertical = isinstance(ln, LTTextLineVertical)
        if horizontal == vertical:
            self.bad("C08/line-without-direction", "horizontal xor vertical line", type(ln).__name__)
        if not glyphs:
            self.bad("C08/line-without-glyph", ">= 1 glyph", 0)
            return ""
        u = _union(glyphs)
        if tuple(ln.bbox) != u or (ln.x0, ln.y0, ln.x1, ln.y1) != u or ln.width != u[2] - u[0] or ln.height != u[3] - u[1]:
            self.bad(_bbox_sig("line", ln.bbox), u, tuple(ln.bbox))
        for g0, g1 in zip(glyphs, glyphs[1:]):
            if horizontal and not (g0.y0 <= g1.y1 and g1.y0 <= g0.y1):
                self.bad("C08/line-mixed-orientation:horizontal", "consecutive glyphs share vertical extent", (g0.bbox, g1.bbox))
            if vertical and not (g0.x0 <= g1.x1 and g1.x0 <= g0.x1):
                self.bad("C08/line-mixed-orientation:vertical", "consecutive glyphs share horizontal extent", (g0.bbox, g1.bbox))
        last = objs[-1]
        if not (isinstance(last, LTAnno) and last.get_text() == "\n"):
            self.bad(
                "C08/line-no-linebreak:" + ("horizontal" if horizontal else "vertical"),
                "last element LTAnno('\\n')",
                repr(last.get_text()) if hasattr(last, "get_text") else type(last).__name__,
            )
        text = "".join(o._text for o in objs if isinstance(o, (LTChar, LTAnno)))
        got = ln.get_text()
        if got != text:
            self.bad("C08/text-not-concatenation:line", text, got)
        self.shape.append(("L", "H" if horizontal else "V", len(glyphs), len(objs) - len(glyphs)))
        return text

    def box(self, bx, where):
        lines = list(bx)
        if len(lines) >= 2:
            self.multi = True
        hb = isinstance(bx, LTTextBoxHorizontal)
        vb = isinstance(bx, LTTextBoxVertical)
        if hb == vb:
            self.bad("C08/box-without-direction", "horizontal xor vertical box", type(bx).__name__)
        texts = []
        ok = []
        for ln in lines:
            if not isinstance(ln, LTTextLine):
                self.bad("C08/ill-typed-member:box", "LTTextLine", type(ln).__name__)
                continue
            ok.append(ln)
            texts.append(self.line(ln, where))
            if (hb and isinstance(ln, LTTextLineVertical)) or (vb and isinstance(ln, LTTextLineHorizontal)):
                self.bad(
                    "C08/box-mixes-line-directions:" + ("horizontal-box" if hb else "vertical-box"),
                    "a horizontal box holds horizontal lines, a vertical box vertical lines",
                    [type(x).__name__ for x in lines],
                )
        if not ok:
            self.bad("C08/box-without-line", ">= 1 line", 0)
            return ""
        u = _union(ok)
        if tuple(bx.bbox) != u or (bx.x0, bx.y0, bx.x1, bx.y1) != u or bx.width != u[2] - u[0] or bx.height != u[3] - u[1]:
            self.bad(_bbox_sig("box", bx.bbox), u, tuple(bx.bbox))
        if hb:
            ys = [ln.y1 for ln in ok]
            if any(a < b for a, b in zip(ys, ys[1:])):
                self.bad("C08/lines-unsorted:horizontal-box", "top edges non-increasing", ys)
        if vb:
            xs = [ln.x1 for ln in ok]
            if any(a < b for a, b in zip(xs, xs[1:])):
                self.bad("C08/lines-unsorted:vertical-box", "right edges non-increasing", xs)
        text = "".join(texts)
        got = bx.get_text()
        if got != text:
            self.bad("C08/text-not-concatenation:box", text, got)
        self.shape.append(("B", "H" if hb else "V", len(ok)))
        return text

    def group(self, g, boxes_seen, depth=0):
        """walk one tree of page.groups WITHOUT recursion (group trees can be as deep as the page has boxes);
        returns (text, shape).  shape = nested tuples for ordinary cases, the tree depth for the deep-chain family."""
        order = []
        todo = [(g, 0)]
        maxdepth = 0
        while todo:
            node, d = todo.pop()
            order.append(node)
            maxdepth = max(maxdepth, d)
            for m in node:
                if isinstance(m, LTTextGroup):
                    todo.append((m, d + 1))
        done = {}
        for node in reversed(order):  # children before parents
            members = list(node)
            if len(members) < 2:
                self.bad("C08/group-with-fewer-than-2-members", ">= 2", len(members))
            texts = []
            shp = []
            for m in members:
                if isinstance(m, LTTextGroup):
                    t, sh = done.pop(id(m))
                    texts.append(t)
                    shp.append(sh)
                elif isinstance(m, LTTextBox):
                    boxes_seen.append(id(m))
                    texts.append(m.get_text())
                    shp.append("b")
                else:
                    self.bad("C08/ill-typed-member:group", "LTTextBox or LTTextGroup", type(m).__name__)
            comps = [m for m in members if isinstance(m, (LTTextBox, LTTextGroup))]
            if comps:
                u = _union(comps)
                if tuple(node.bbox) != u or (node.x0, node.y0, node.x1, node.y1) != u or node.width != u[2] - u[0] or node.height != u[3] - u[1]:
                    self.bad(_bbox_sig("group", node.bbox), u, tuple(node.bbox))
            text = "".join(texts)
            try:
                got = node.get_text()
            except Exception as e:  # noqa  (RecursionError on deep trees)
                self.bad(exc_signature(e, self.deep), "get_text() returns", f"{type(e).__name__}: {str(e)[:80]}")
                got = text
            if got != text:
                self.bad("C08/text-not-concatenation:group", text, got)
            done[id(node)] = (text, None if self.deep else tuple(shp))
        text, shp = done[id(g)]
        return text, (maxdepth + 1 if self.deep else shp)

    def container(self, cont, where, analysed):
        """cont = LTPage or LTFigure after analysis. Returns list of nested figures to descend into."""
        figs = []
        boxes = []
        for o in cont:
            if isinstance(o, LTTextBox):
                boxes.append(o)
                self.box(o, where)
            elif isinstance(o, LTTextLine):
                # an empty line kept outside the boxes
                self.line(o, where)
                self.shape.append(("E",))
            elif isinstance(o, LTTextGroup):
                self.bad("C08/ill-typed-member:container", "box, line or original item", type(o).__name__)
            else:
                self.leaves.append(id(o))
                if isinstance(o, LTFigure):
                    figs.append(o)
                elif isinstance(o, LTChar) and analysed:
                    self.bad("C08/glyph-outside-line:" + where, "every glyph of an analysed container inside a line", repr(o))
        if len(boxes) >= 2:
            self.multi = True
        idx = [b.index for b in boxes]
        if idx != list(range(len(boxes))):
            if self.p[0] is None and all(i == -1 for i in idx):
                self.bad("C08/index-unassigned:boxes_flow=None", list(range(len(boxes))), idx)
            else:
                self.bad("C08/index-not-0..n-1-in-output-order", list(range(len(boxes))), idx)
        groups = getattr(cont, "groups", None)
        if analysed and boxes and self.p[0] is not None:
            if groups is None:
                self.bad("C08/groups-missing", "group hierarchy", None)
            else:
                seen = []
                gs = []
                for g in groups:
                    if isinstance(g, LTTextGroup):
                        gs.append(self.group(g, seen)[1])
                    elif isinstance(g, LTTextBox):
                        seen.append(id(g))
                        gs.append("b")
                    else:
                        self.bad("C08/ill-typed-member:groups", "LTTextGroup", type(g).__name__)
                want = sorted(id(b) for b in boxes)
                if len(boxes) >= 2 and sorted(seen) != want:
                    lost = len(set(want) - set(seen))
                    dup = len(seen) - len(set(seen))
                    self.bad(
                        "C08/group-hierarchy-" + ("loses-box" if lost else "duplicates-box" if dup else "foreign-box"),
                        f"{len(boxes)} boxes once each",
                        f"{len(seen)} box occurrences, {lost} missing, {dup} repeated",
                    )
                if len(boxes) >= 2 and len(groups) != 1:
                    self.bad("C08/group-hierarchy-not-single-root", 1, len(groups))
                self.shape.append(("G", tuple(gs)))
        return figs


def analyse(specs, p, variant=0, cell_budget=None):
    """Runs the real analysis and the invariant walk. -> (problems, outcome, nontrivial, complete)"""
    global _HEAP
    if _HEAP is None:
        _HEAP = install_counting_heapq()
    page, fig, originals = build(specs, variant)
    before = [_snap(o) for o, _ in originals]
    children_before = {id(c): [id(o) for o in c] for c in {id(par): par for _, par in originals}.values()}
    n = len(specs)
    _HEAP.pops = 0
    install_stable_id().reset()
    _HEAP.budget = 2 * (4 * n * n + 16)  # page + figure; each pair is popped at most twice, each merge adds < n pairs
    dr = None
    if cell_budget is not None:
        dr = install_counting_drange()
        dr.cells = 0
        dr.budget = cell_budget
    try:
        page.analyze(_lap(p))
    except HeapBudgetExceeded as e:
        return [("C08/nontermination:box-merging-loop", "terminates", str(e))], ("nonterm",), True, False
    except CellBudgetExceeded as e:
        return [("C08/nontermination:plane-grid-walk", f"at most {cell_budget} grid steps", str(e))], ("nonterm",), True, False
    except Exception as e:  # noqa
        return [(exc_signature(e), "analysis returns", f"{type(e).__name__}: {str(e)[:120]}")], ("exc", type(e).__name__), True, False
    finally:
        if dr is not None:
            dr.budget = 1 << 62
    w = Walk(p)
    leaves_of = {}

    def descend(cont, name, analysed):
        w.leaves = []
        figs = w.container(cont, name, analysed)
        leaves_of[id(cont)] = (name, w.leaves)
        if not analysed and [id(o) for o in cont] != children_before.get(id(cont)):
            w.bad("C08/figure-content-changed-without-all_texts", "children untouched", f"{name}: children differ after analysis")
        for f in figs:
            w.shape.append(("F",))
            descend(f, "fig" if f is fig else "outer-fig", p[2])

    descend(page, "page", True)
    # conservation: every original exactly once, in its own container, nothing foreign
    byid = {id(o): o for o, _ in originals}
    parents = {id(par): par for _, par in originals}
    for pid_, par in parents.items():
        name, leaves = leaves_of.get(pid_, ("unreached", []))
        want = [id(o) for o, q in originals if q is par]
        cnt = {}
        for i in leaves:
            cnt[i] = cnt.get(i, 0) + 1
        for i in want:
            c = cnt.get(i, 0)
            kind = "glyph" if isinstance(byid[i], LTChar) else type(byid[i]).__name__
            if c == 0:
                w.bad(f"C08/lost-item:{kind}", "occurs once", f"{name}: {byid[i]!r} absent from the hierarchy")
            elif c > 1:
                w.bad(f"C08/duplicated-item:{kind}", "occurs once", f"{name}: {byid[i]!r} occurs {c} times")
        ws = set(want)
        for i in cnt:
            if i not in ws:
                w.bad("C08/foreign-item", "only original items", f"{name}: unknown leaf")
    after = [_snap(o) for o, _ in originals]
    for (o, par), b, a in zip(originals, before, after):
        if a != b:
            kind = "glyph" if isinstance(o, LTChar) else type(o).__name__
            w.bad(f"C08/altered-item:{kind}", b, a)
    if tuple(page.bbox) != PAGE_BBOX:
        w.bad("C08/altered-item:LTPage", PAGE_BBOX, tuple(page.bbox))
    # glyph-less enclosing containers: with all_texts the figure's glyphs must be grouped exactly as the same
    # sequence is grouped as direct page content (same box); without all_texts the figure stays untouched (above)
    if variant and p[2] and specs:
        pos = {}
        k = 0
        for o, par in originals:
            if par is fig and isinstance(o, LTChar):
                pos[id(o)] = k
                k += 1
        got = canon_container(fig, pos)
        want = reference_structure(specs, p)
        if got != want:
            w.bad("C08/figure-in-glyphless-container-not-grouped-like-page-content", want, got)
    return w.problems, (variant,) + tuple(w.shape), w.multi, True


def check_case(specs, p, st, variant=0, cell_budget=None):
    problems, outcome, multi, complete = analyse(specs, p, variant, cell_budget)
    st.transitions += 1
    if complete:
        st.traces += 1
    st.case(None, nontrivial=multi, outcome=outcome)
    if problems:
        case = {"glyphs": [tuple(s) for s in specs], "params": tuple(p), "variant": variant}
        if cell_budget is not None:
            case["cell_budget"] = cell_budget
        seen = set()
        for sig, exp, obs in problems:
            if sig in seen:
                continue
            seen.add(sig)
            st.violation(sig, case, exp, obs, sig.split("/", 1)[1])


# ---- family "extreme": extreme LAParams values and glyphs that are gigantic relative to the (100 x 100) page, under a
# counted budget of Plane grid steps (a 100 x 100 page has 3 x 3 cells: legitimate work is tiny)
EXTREME_VALUES = [0, 1e9, 1e300, float("inf")]
EXTREME_CELL_BUDGET = 2_000_000
GIANTS = [
    ("G", -1e9, -1e9, 2e9, 2e9, "h"),     # covers the page and a billion units around it
    ("g", 50, 50, 1e12, 8, "h"),          # ordinary height, absurdly wide, starts on the page
    ("T", 10, 40, 8, 1e9, "h"),           # ordinary width, absurdly tall
    ("X", 30, 30, 1e300, 1e300, "h"),     # areas overflow to inf
    ("o", 1e9, 1e9, 1e9, 1e9, "h"),       # gigantic and entirely off the page
]
GIANT_POOL = [POOL[0], POOL[1], POOL[3]] + GIANTS


def extreme_params():
    """every LAParams with at most two of the four margins replaced by an extreme value, at (0.5, dv=True) and (None, dv=False)"""
    out = []
    for k in (0, 1, 2):
        for pos in itertools.combinations(range(4), k):
            for vals in itertools.product(EXTREME_VALUES, repeat=k):
                m = list(MARGIN_DEFAULT)
                for i, v in zip(pos, vals):
                    m[i] = v
                for flags in ((0.5, True, True), (None, False, True)):
                    out.append(flags + tuple(m))
    return out


# ---- family "vcols": vertical boxes whose lines have different widths (nested / partially overlapping x-extents)
VC_X0 = [32, 36, 40, 44, 48, 52, 60]      # left edge of column B; column A spans x 40..56
VC_W = [8, 12, 16, 24]                    # width of column B (A is 16 wide)
VC_SEP = ("x", 80, 10, 8, 8, "h")         # far-away glyph that makes the columns non-consecutive in the content
VC_THIRD = [None, (44, 8), (30, 12)]      # optional third column (x0, w)


def _vcol(texts, x0, w, ytop, h=16):
    return [(t, x0, ytop - (i + 1) * h, w, h, "h") for i, t in enumerate(texts)]


def vcols_sequences(ix):
    """every arrangement of the family with column B at VC_X0[ix]"""
    xb = VC_X0[ix]
    for wb in VC_W:
        for dy in (0, 4):                  # B level with A / shifted down by 4 (still aligned within the tolerance)
            for third in VC_THIRD:
                for sep in (True, False):
                    cols = [_vcol("AB", 40, 16, 80), _vcol("cd", xb, wb, 80 - dy)]
                    if third:
                        cols.append(_vcol("ef", third[0], third[1], 80))
                    for order in itertools.permutations(range(len(cols))):
                        specs = []
                        for k, ci in enumerate(order):
                            if k and sep:
                                specs.append(VC_SEP)
                            specs += cols[ci]
                        yield specs


# ---- family "deep-chain": n boxes with strictly increasing gaps -> group_textboxes always merges (group so far, next
# box), the LTTextGroup tree is a chain of depth n-1.  Recursion limit stays at the interpreter default.
DC_N = [50, 450, 600, 1200]
DC_ARR = ["stack", "row", "vrow"]
DC_FLOWS = [0.5, -1.0, 1.0, None]
DC_OUT = ["text", "xml", "html"]


def chain_glyphs(arr, n):
    """-> (page bbox, glyph specs, detect_vertical)"""
    pos = [20 * i + i * i for i in range(n)]
    far = pos[-1] + 20
    if arr == "stack":      # one-glyph boxes [10,15] wide, stacked upwards
        return (0, 0, 100, far), [("a", 10, y, 5, 5, "h") for y in pos], False
    if arr == "row":        # the mirrored arrangement along x
        return (0, 0, far, 100), [("a", x, 10, 5, 5, "h") for x in pos], False
    # vertical writing: two stacked glyphs per column, columns along x, detect_vertical=True
    specs = []
    for x in pos:
        specs += [("a", x, 15, 5, 5, "h"), ("b", x, 10, 5, 5, "h")]
    return (0, 0, far, 100), specs, True


def chain_pdf(arr, n):
    """the same glyph origins in a real one-page PDF (Helvetica 5pt, one Tm + Tj per glyph)"""
    from mc.pdfgen import page_doc, type1_font

    bbox, specs, dv = chain_glyphs(arr, n)
    ops = [b"BT /F1 5 Tf"]
    for t, x, y, w, h, _ in specs:
        ops.append(b"1 0 0 1 %d %d Tm (%s) Tj" % (x, y, t.encode()))
    ops.append(b"ET")
    return page_doc(b"\n".join(ops), fonts={"F1": type1_font("Helvetica")}, mediabox=bbox), dv


def analyse_chain_direct(case):
    return analyse_custom(case, True)


def analyse_chain_pdf(case):
    import io
    import re

    from pdfminer.high_level import extract_text_to_fp

    out = io.BytesIO()
    n = case["n_boxes"]
    try:
        extract_text_to_fp(
            io.BytesIO(case["pdf"]), out, output_type=case["output"], codec="utf-8",
            laparams=LAParams(boxes_flow=0.5, detect_vertical=case["detect_vertical"]),
        )
    except Exception as e:  # noqa
        return [(exc_signature(e, True), f"extract_text_to_fp(output_type={case['output']!r}) returns", f"{type(e).__name__}: {str(e)[:100]}")], ("exc", type(e).__name__)
    data = out.getvalue().decode("utf-8")
    problems = []
    if case["output"] == "text":
        got = sum(1 for ch in data if not ch.isspace())
        if got != case["n_glyphs"]:
            problems.append(("C08/deep-chain:text-output-glyph-count", case["n_glyphs"], got))
    elif case["output"] == "xml":
        body = [int(i) for i in re.findall(r'<textbox id="(-?\d+)" bbox="[^"]*"(?: wmode="vertical")?>', data)]
        lay = data.partition("<layout>")[2].partition("</layout>")[0]
        ids = sorted(int(i) for i in re.findall(r'<textbox id="(-?\d+)" bbox="[^"]*" />', lay))
        if body != list(range(n)):
            problems.append(("C08/deep-chain:xml-textboxes-not-0..n-1", f"{n} textbox elements numbered 0..{n-1} in order", f"{len(body)} elements, first ids {body[:5]}"))
        if ids != list(range(n)):
            problems.append(("C08/deep-chain:xml-layout-does-not-hold-each-textbox-once", f"ids 0..{n-1} once each", f"{len(ids)} entries, first {ids[:5]}"))
        if lay.count("<textgroup ") != lay.count("</textgroup>") or lay.count("<textgroup ") != n - 1:
            problems.append(("C08/deep-chain:xml-layout-group-count", n - 1, (lay.count("<textgroup "), lay.count("</textgroup>"))))
    else:
        if "</html>" not in data or data.count("<span") < 1:
            problems.append(("C08/deep-chain:html-output-incomplete", "complete document", data[-60:]))
    return problems, (case["output"], len(data) // 1000)


def chain_case(shard):
    _, route, arr, n, x = shard
    bbox, specs, dv = chain_glyphs(arr, n)
    nb = n
    if route == "direct":
        return {"family": "deep-chain", "route": "direct", "arrangement": arr, "n_boxes": nb, "page": bbox, "glyphs": specs,
                "boxes_flow": x, "detect_vertical": dv}
    pdf, dv = chain_pdf(arr, n)
    return {"family": "deep-chain", "route": "pdf", "arrangement": arr, "n_boxes": nb, "n_glyphs": len(specs), "pdf": pdf,
            "output": x, "detect_vertical": dv}


def judge_chain(case):
    return analyse_chain_direct(case) if case["route"] == "direct" else analyse_chain_pdf(case)


# ---- family "huge": pages (and analysed figures) that are huge in exactly one dimension, or in both.  Termination is
# judged by a counted budget of Plane grid cells walked (pdfminer.utils.drange is wrapped), never by time.
HUGE_VALUES = [10 ** 6, 10 ** 11, 2 ** 40]
HUGE_PAGES = [("y", h) for h in HUGE_VALUES] + [("x", h) for h in HUGE_VALUES] + [("xy", h) for h in HUGE_VALUES] + [("-y", 10 ** 11), ("-x", 10 ** 11)]
HUGE_FLOWS = [0.5, None, -1.0, 1.0]
HUGE_CELL_BUDGET = 20_000_000   # legitimate work stays below ~MAX_CELLS^2 cells per query; the defect walks > 10^9


class CellBudgetExceeded(Exception):
    pass


class CountingDrange:
    def __init__(self, orig):
        self.orig = orig
        self.cells = 0
        self.budget = 1 << 62

    def __call__(self, v0, v1, d):
        r = self.orig(v0, v1, d)
        self.cells += len(r)
        if self.cells > self.budget:
            raise CellBudgetExceeded(f"more than {self.budget} grid-range steps in Plane")
        return r


def install_counting_drange():
    import pdfminer.utils as U

    if not isinstance(U.drange, CountingDrange):
        U.drange = CountingDrange(U.drange)
    return U.drange


def huge_cases(ix):
    kind, big = HUGE_PAGES[ix]
    if kind == "y":
        bbox = (0, 0, 600, big)
    elif kind == "x":
        bbox = (0, 0, big, 800)
    elif kind == "xy":
        bbox = (0, 0, big, big)
    elif kind == "-y":
        bbox = (0, -big, 600, 800)
    else:
        bbox = (-big, 0, 600, 800)
    xs = [bbox[0] + 100, (bbox[0] + bbox[2]) // 2, bbox[2] - 200]
    ys = [bbox[1] + 100, (bbox[1] + bbox[3]) // 2, bbox[3] - 200]
    along = []
    if "y" in kind:
        along.append([(100, y) for y in ys])
    if "x" in kind:
        along.append([(x, 100) for x in xs])
    if kind == "xy":
        along.append(list(zip(xs, ys)))          # one diagonal placement
    for pts in along:
        for npts in (2, 3):
            use = [pts[0], pts[-1]] if npts == 2 else pts
            specs = []
            for k, (x, y) in enumerate(use):
                specs += [("abc"[k], x, y, 8, 8, "h"), ("ABC"[k], x + 8, y, 8, 8, "h")]
            for bf in HUGE_FLOWS:
                for container in ("page", "figure"):
                    if kind == "xy" and pts is along[-1] and (container == "figure" or npts == 3 or bf in (-1.0, 1.0)):
                        continue  # the diagonal walk over ~10^6 cells is expensive: one or two cases suffice
                    yield {"family": "huge", "page": bbox if container == "page" else (0, 0, 600, 800),
                           "figure": bbox if container == "figure" else None, "glyphs": specs, "boxes_flow": bf,
                           "detect_vertical": False, "kind": kind, "huge": big}


def analyse_custom(case, deep):
    """direct analysis of a hand-built page (optionally: all glyphs inside a figure, all_texts=True) -> (problems, outcome)"""
    global _HEAP
    if _HEAP is None:
        _HEAP = install_counting_heapq()
    specs = [tuple(g) for g in case["glyphs"]]
    bf, dv = case["boxes_flow"], case["detect_vertical"]
    figbox = case.get("figure")
    p = (bf, dv, figbox is not None) + MARGIN_DEFAULT
    if figbox is not None:
        page, _ = make_page(tuple(case["page"]), [])
        fig = make_figure("F", tuple(figbox))
        chars = [make_char(sp) for sp in specs]
        for c in chars:
            fig.add(c)
        page.add(fig)
        cont = fig
    else:
        page, chars = make_page(tuple(case["page"]), specs)
        cont = page
    before = [_snap(c) for c in chars]
    n = len(specs)
    _HEAP.pops = 0
    _HEAP.budget = 4 * n * n + 16
    dr = install_counting_drange()
    dr.cells = 0
    dr.budget = HUGE_CELL_BUDGET if case.get("family") == "huge" else (1 << 62)
    install_stable_id().reset()
    try:
        page.analyze(_lap(p))
    except HeapBudgetExceeded as e:
        return [("C08/nontermination:box-merging-loop", "terminates", str(e))], ("nonterm",)
    except CellBudgetExceeded as e:
        return [("C08/nontermination:plane-grid-walk", f"at most {HUGE_CELL_BUDGET} grid steps", str(e))], ("nonterm",)
    except Exception as e:  # noqa
        return [(exc_signature(e, deep), "analysis returns", f"{type(e).__name__}: {str(e)[:100]}")], ("exc", type(e).__name__)
    finally:
        dr.budget = 1 << 62
    w = Walk(p, deep=deep)
    try:
        w.container(cont, "page" if cont is page else "fig", True)
    except Exception as e:  # noqa  -- the oracle itself is iterative; anything raised here comes from a library call
        w.bad(exc_signature(e, deep), "hierarchy can be read", f"{type(e).__name__}: {str(e)[:100]}")
    cnt = {}
    for i in w.leaves:
        cnt[i] = cnt.get(i, 0) + 1
    lost = sum(1 for c in chars if cnt.get(id(c), 0) == 0)
    dup = sum(1 for c in chars if cnt.get(id(c), 0) > 1)
    if lost:
        w.bad("C08/lost-item:glyph", "occurs once", f"{lost} glyphs absent from the hierarchy")
    if dup:
        w.bad("C08/duplicated-item:glyph", "occurs once", f"{dup} glyphs occur more than once")
    if len(cnt) > len(chars) - lost:
        w.bad("C08/foreign-item", "only original items", "unknown leaf")
    if [_snap(c) for c in chars] != before:
        w.bad("C08/altered-item:glyph", "unchanged", "a glyph changed")
    nboxes = sum(1 for o in cont if isinstance(o, LTTextBox))
    depth = [x[1] for x in w.shape if x and x[0] == "G"]
    return w.problems, ("direct", nboxes, repr(depth[0]) if depth else None)


# ---- family "device-forms": real PDFs through PDFPageAggregator; Form / image XObjects whose figure box is degenerate
DF_BBOX = [(0, 0, 100, 100), (0, 0, 0, 0), (0, 0, 100, 0), (0, 0, 0, 100), (10, 10, 10, 50)]
DF_MATRIX = [(1, 0, 0, 1, 0, 0), (0, 0, 0, 1, 0, 0), (1, 0, 0, 0, 20, 20), (2, 0, 0, 2, 5, 5)]
DF_CM = [(1, 0, 0, 1, 0, 0), (1, 0, 0, 0, 50, 50), (0, 0, 0, 1, 50, 50), (0, 1, -1, 0, 300, 300)]
DF_LAP = [None, (False,), (True,)]   # laparams: None / LAParams(all_texts=False) / LAParams(all_texts=True)


def device_pdf(bbox, matrix, cm, nested):
    from mc.pdfgen import Doc, Name as N, Stream, page_doc, type1_font

    d = Doc()
    f = d.add(type1_font("Helvetica"))
    res = {"Font": {"F1": f}}
    body = b"BT /F1 12 Tf 10 10 Td (xy) Tj ET 0 0 5 5 re f"
    if nested:
        inner = d.add(Stream({"Type": N("XObject"), "Subtype": N("Form"), "BBox": [0, 0, 50, 50], "Resources": {"Font": {"F1": f}}},
                             b"BT /F1 10 Tf 5 5 Td (z) Tj ET 1 1 3 3 re f"))
        res["XObject"] = {"Fm2": inner}
        body += b" /Fm2 Do"
    fm = d.add(Stream({"Type": N("XObject"), "Subtype": N("Form"), "BBox": list(bbox), "Matrix": list(matrix), "Resources": res}, body))
    im = d.add(Stream({"Type": N("XObject"), "Subtype": N("Image"), "Width": 1, "Height": 1, "ColorSpace": N("DeviceGray"),
                       "BitsPerComponent": 8}, b"\x80"))
    cmb = b" ".join(str(v).encode() for v in cm)
    content = (b"BT /F1 12 Tf 100 700 Td (A) Tj ET q " + cmb + b" cm /Fm1 Do Q q " + cmb + b" cm /Im1 Do Q "
               b"BT /F1 12 Tf 300 700 Td (B) Tj ET")
    return page_doc(content, fonts={"F1": f}, resources_extra={"XObject": {"Fm1": fm, "Im1": im}}, doc=d)


def device_expected(nested):
    exp = [("figure", "Fm1", ()), ("figure", "Im1", ()), ("glyph", "A", ()), ("glyph", "B", ()), ("glyph", "x", ("Fm1",)),
           ("glyph", "y", ("Fm1",)), ("shape", "", ("Fm1",)), ("image", "Im1", ("Im1",))]
    if nested:
        exp += [("figure", "Fm2", ("Fm1",)), ("glyph", "z", ("Fm1", "Fm2")), ("shape", "", ("Fm1", "Fm2"))]
    return sorted(exp)


def analyse_device(case):
    import io

    from pdfminer.converter import PDFPageAggregator
    from pdfminer.layout import LTContainer, LTCurve, LTImage
    from pdfminer.pdfdocument import PDFDocument
    from pdfminer.pdfinterp import PDFPageInterpreter, PDFResourceManager
    from pdfminer.pdfpage import PDFPage
    from pdfminer.pdfparser import PDFParser

    lap = case["laparams"]
    laparams = None if lap is None else LAParams(all_texts=bool(lap[0]))
    install_stable_id().reset()
    try:
        doc = PDFDocument(PDFParser(io.BytesIO(case["pdf"])))
        rm = PDFResourceManager()
        dev = PDFPageAggregator(rm, laparams=laparams)
        it = PDFPageInterpreter(rm, dev)
        page = None
        for pg in PDFPage.create_pages(doc):
            it.process_page(pg)
            page = dev.get_result()
    except Exception as e:  # noqa
        return [(exc_signature(e), "page is interpreted", f"{type(e).__name__}: {str(e)[:100]}")], ("exc", type(e).__name__)
    got = []
    todo = [(page, ())]
    while todo:
        o, path = todo.pop()
        if isinstance(o, LTChar):
            got.append(("glyph", o.get_text(), path))
        elif isinstance(o, LTFigure):
            got.append(("figure", o.name, path))
            todo.extend((c, path + (o.name,)) for c in o)
        elif isinstance(o, LTImage):
            got.append(("image", o.name, path))
        elif isinstance(o, LTCurve):
            got.append(("shape", "", path))
        elif isinstance(o, LTContainer):
            todo.extend((c, path) for c in o)
    got.sort()
    want = device_expected(case["nested"])
    problems = []
    if got != want:
        missing = [w for w in want if got.count(w) < want.count(w)]
        extra = [g for g in got if got.count(g) > want.count(g)]
        if missing:
            kinds = sorted({m[0] for m in missing})
            kind = "figure" if "figure" in kinds else kinds[0]
            problems.append((f"C08/device-route:lost-item:{kind}", want, got))
        if extra:
            problems.append((f"C08/device-route:duplicated-or-foreign-item:{sorted({e[0] for e in extra})[0]}", want, got))
    return problems, ("device", len(got))


# ---- family "device-interleave": two PDFPageAggregator objects driven side by side through the device API
# (begin_page / begin_figure / glyph / end_figure / end_page), every interleaving of their call sequences, and a fresh
# device used after another one was abandoned inside a figure.  Each device's page must hold exactly its own items.
class _StubPage:
    mediabox = (0, 0, 100, 100)
    rotate = 0


def _device_script(tag, depth):
    """call sequence of one device: figures nested `depth` deep with a glyph inside, one glyph on the page"""
    seq = [("begin_page",)]
    for k in range(depth):
        seq.append(("begin_figure", f"{tag}F{k + 1}"))
    seq.append(("glyph", tag.upper()))
    for k in range(depth):
        seq.append(("end_figure",))
    seq.append(("glyph", tag.lower()))
    seq.append(("end_page",))
    return seq


def _device_expected(tag, depth):
    path = ()
    exp = []
    for k in range(depth):
        exp.append(("figure", f"{tag}F{k + 1}", path))
        path = path + (f"{tag}F{k + 1}",)
    exp.append(("glyph", tag.upper(), path))
    exp.append(("glyph", tag.lower(), ()))
    return sorted(exp)


def _tree_items(page):
    from pdfminer.layout import LTContainer

    got = []
    todo = [(page, ())]
    while todo:
        o, path = todo.pop()
        if isinstance(o, LTChar):
            got.append(("glyph", o.get_text(), path))
        elif isinstance(o, LTFigure):
            got.append(("figure", o.name, path))
            todo.extend((c, path + (o.name,)) for c in o)
        elif isinstance(o, LTContainer):
            todo.extend((c, path) for c in o)
    return sorted(got)


def analyse_interleave(case):
    """case: depths (da, db), schedule = string over 'A','B' (who makes the next call; a device may be abandoned early), laparams"""
    from pdfminer.converter import PDFPageAggregator
    from pdfminer.pdfinterp import PDFResourceManager

    lap = case["laparams"]
    laparams = None if lap is None else LAParams(all_texts=bool(lap[0]))
    scripts = {"A": _device_script("a", case["depths"][0]), "B": _device_script("b", case["depths"][1])}
    devs = {}
    pos = {"A": 0, "B": 0}
    page = _StubPage()
    problems = []
    try:
        for who in case["schedule"]:
            if who not in devs:
                devs[who] = PDFPageAggregator(PDFResourceManager(), laparams=laparams)
                devs[who].set_ctm((1, 0, 0, 1, 0, 0))
            d = devs[who]
            step = scripts[who][pos[who]]
            pos[who] += 1
            if step[0] == "begin_page":
                d.begin_page(page, (1, 0, 0, 1, 0, 0))
            elif step[0] == "begin_figure":
                d.begin_figure(step[1], (10, 10, 50, 50), (1, 0, 0, 1, 0, 0))
            elif step[0] == "end_figure":
                d.end_figure("")
            elif step[0] == "glyph":
                d.cur_item.add(make_char((step[1], 20 if who == "A" else 60, 20, 8, 8, "h")))
            else:
                d.end_page(page)
    except Exception as e:  # noqa
        return [(exc_signature(e).replace("C08/exception", "C08/device-route:exception"), "device calls succeed", f"{type(e).__name__}: {str(e)[:80]}")], ("exc", type(e).__name__)
    for who, tag, depth in (("A", "a", case["depths"][0]), ("B", "b", case["depths"][1])):
        if pos[who] < len(scripts[who]):
            continue  # abandoned device: nothing to judge
        got = _tree_items(devs[who].get_result())
        want = _device_expected(tag, depth)
        if got != want:
            foreign = [g for g in got if g not in want]
            missing = [w for w in want if w not in got]
            kind = "foreign-item-from-another-device" if any((g[1][:1].lower() != tag) for g in foreign) else ("lost-item" if missing else "misplaced-item")
            problems.append((f"C08/device-route:{kind}", want, got))
            break
    return problems, ("interleave", len(case["schedule"]))


def interleave_cases():
    for da in (1, 2):
        for db in (1, 2):
            la, lb = len(_device_script("a", da)), len(_device_script("b", db))
            for posa in itertools.combinations(range(la + lb), la):
                sa = set(posa)
                sched = "".join("A" if i in sa else "B" for i in range(la + lb))
                for lap in (None, (True,)):
                    yield {"family": "device-interleave", "depths": (da, db), "schedule": sched, "laparams": lap}
            # device A abandoned after k calls (inside a figure or not), then a fresh device B does a complete page
            for k in range(1, la):
                for lap in (None, (True,)):
                    yield {"family": "device-interleave", "depths": (da, db), "schedule": "A" * k + "B" * lb, "laparams": lap}


# ---- family "newline-text": glyphs whose own text is or ends in a line feed (every line must still end in an LTAnno)
NL_POOL = [POOL[0], POOL[1], ("\n", 26, 40, 8, 8, "h"), ("x\n", 26, 40, 8, 8, "h"), POOL[3], ("\n", 10, 30, 8, 8, "h")]
NL_PARAMS = [(0.5, False, True) + MARGIN_DEFAULT, (None, True, True) + MARGIN_DEFAULT]


# ---- family "device-render-char": glyphs reach the page through PDFLayoutAnalyzer.render_char (stub font), including
# glyphs whose Unicode text is empty, blank or a line feed; every rendered glyph must occur exactly once in the result
RC_TEXTS = ["A", "", " ", "\n", "C"]
RC_LAP = [None, (0.5, False), (None, False), (0.5, True)]   # laparams: None or (boxes_flow, all_texts)


class _RcFont:
    fontname = "Stub"

    def __init__(self, texts):
        self.texts = texts

    def is_vertical(self):
        return False

    def get_descent(self):
        return 0

    def to_unichr(self, cid):
        return self.texts[cid]

    def char_width(self, cid):
        return 0.5

    def char_disp(self, cid):
        return 0


def analyse_render_char(case):
    from pdfminer.converter import PDFPageAggregator
    from pdfminer.pdfcolor import PREDEFINED_COLORSPACE
    from pdfminer.pdfinterp import PDFGraphicState, PDFResourceManager

    lap = case["laparams"]
    laparams = None if lap is None else LAParams(boxes_flow=lap[0], all_texts=bool(lap[1]))
    texts = list(case["texts"])
    font = _RcFont(texts)
    install_stable_id().reset()
    try:
        dev = PDFPageAggregator(PDFResourceManager(), laparams=laparams)
        dev.set_ctm((1, 0, 0, 1, 0, 0))
        page = _StubPage()
        dev.begin_page(page, (1, 0, 0, 1, 0, 0))
        if case["in_figure"]:
            dev.begin_figure("F", (0, 0, 100, 100), (1, 0, 0, 1, 0, 0))
        x = 10.0
        for cid in range(len(texts)):
            x += dev.render_char((1, 0, 0, 1, x, 40), font, 10, 1, 0, cid, PREDEFINED_COLORSPACE["DeviceGray"], PDFGraphicState())
        if case["in_figure"]:
            dev.end_figure("F")
        dev.end_page(page)
        got = sorted(t for kind, t, _ in _tree_items(dev.get_result()) if kind == "glyph")
    except Exception as e:  # noqa
        return [(exc_signature(e).replace("C08/exception", "C08/device-route:exception"), "device calls succeed", f"{type(e).__name__}: {str(e)[:80]}")], ("exc", type(e).__name__)
    want = sorted(texts)
    problems = []
    if got != want:
        missing = [t for t in set(want) if got.count(t) < want.count(t)]
        kind = "lost-item:glyph-with-empty-text" if "" in missing else "lost-item:glyph" if missing else "duplicated-item:glyph"
        problems.append((f"C08/device-route:{kind}", want, got))
    return problems, ("render-char", len(got))


def shards(tier):
    out = [("short",)]
    out += [("pre", i, j) for i in range(len(POOL)) for j in range(len(POOL))]
    out += [("vcols", i) for i in range(len(VC_X0))]
    # the largest n (quadratic cost) only with boxes_flow 0.5 directly and through the xml route
    # and the x-mirrored arrangement "row" (same tree shape as "stack") only with boxes_flow 0.5 / xml and n <= 600
    def keep(arr, n, x):
        main = x in (0.5, "xml")
        if arr == "row":
            return main and n < DC_N[-1]
        return n < DC_N[-1] or main

    out += [("deep-chain", "direct", arr, n, bf) for arr in DC_ARR for n in DC_N for bf in DC_FLOWS if keep(arr, n, bf)]
    out += [("deep-chain", "pdf", arr, n, o) for arr in DC_ARR for n in DC_N for o in DC_OUT if keep(arr, n, o)]
    out += [("huge", i) for i in range(len(HUGE_PAGES))]
    out += [("extreme", "params", i) for i in range(len(POOL))] + [("extreme", "giants", i) for i in range(len(GIANT_POOL))]
    out += [("device-forms", i) for i in range(len(DF_BBOX))]
    out += [("device-interleave",)]
    out += [("newline-text",), ("device-render-char",)]
    return out


def _seqs(shard, maxlen):
    if shard[0] == "short":
        yield ()
        for i in range(len(POOL)):
            yield (i,)
        return
    pre = tuple(shard[1:])
    for n in range(0, maxlen - 2 + 1):
        for tail in itertools.product(range(len(POOL)), repeat=n):
            yield pre + tail


def run_shard(shard, tier, st):
    maxlen = BOUNDS[tier]["max_len"]
    full = param_grid(tier)
    quick = param_grid("quick")
    if shard[0] == "deep-chain":
        case = chain_case(shard)
        problems, outcome = judge_chain(case)
        st.states += 1
        st.transitions += 1
        if not (outcome and outcome[0] in ("exc", "nonterm")):
            st.traces += 1
        st.case(None, nontrivial=True, outcome=shard[1:] + tuple(outcome))
        st.add("deep_chain_cases", 1)
        seen = set()
        for sig, exp, obs in problems:
            if sig not in seen:
                seen.add(sig)
                st.violation(sig, case, exp, obs, sig.split("/", 1)[1])
        if shard[2:] == ("stack", 50, 0.5):
            st.sample({k: (v if k not in ("glyphs", "pdf") else f"<{len(v)} items>") for k, v in case.items()})
        return
    if shard[0] == "newline-text":
        n = len(NL_POOL)
        seqs = [(i,) for i in range(n)] + [(i, j) for i in range(n) for j in range(n)] + [(i, j, k) for i in range(n) for j in range(n) for k in range(n)]
        specs = []
        for seq in seqs:
            specs = [NL_POOL[j] for j in seq]
            st.states += 1
            for p in NL_PARAMS:
                check_case(specs, p, st)
        st.sample({"family": "newline-text", "glyphs": specs, "params": NL_PARAMS[-1]})
        return
    if shard[0] == "device-render-char":
        n = len(RC_TEXTS)
        seqs = [(i,) for i in range(n)] + [(i, j) for i in range(n) for j in range(n)] + [(i, j, k) for i in range(n) for j in range(n) for k in range(n)]
        case = None
        for seq in seqs:
            st.states += 1
            for lap in RC_LAP:
                for in_figure in (False, True):
                    case = {"family": "device-render-char", "texts": [RC_TEXTS[i] for i in seq], "laparams": lap, "in_figure": in_figure}
                    problems, outcome = analyse_render_char(case)
                    st.transitions += 1
                    if outcome[0] != "exc":
                        st.traces += 1
                    st.case(None, nontrivial=True, outcome=(tuple(case["texts"]), lap, in_figure) + tuple(outcome))
                    seen = set()
                    for sig, exp, obs in problems:
                        if sig not in seen:
                            seen.add(sig)
                            st.violation(sig, case, exp, obs, sig.split("/", 1)[1])
        st.sample(case)
        return
    if shard[0] == "device-interleave":
        for k, case in enumerate(interleave_cases()):
            problems, outcome = analyse_interleave(case)
            st.states += 1
            st.transitions += len(case["schedule"])
            if outcome[0] != "exc":
                st.traces += 1
            st.case(None, nontrivial=("A" in case["schedule"] and "B" in case["schedule"]), outcome=(case["depths"], case["schedule"][:6], case["laparams"]) + tuple(outcome))
            st.add("device_interleave_cases", 1)
            seen = set()
            for sig, exp, obs in problems:
                if sig not in seen:
                    seen.add(sig)
                    st.violation(sig, case, exp, obs, sig.split("/", 1)[1])
            if k == 5:
                st.sample(case)
        return
    if shard[0] == "extreme":
        i = shard[2]
        if shard[1] == "params":
            # every sequence of at most 2 pool glyphs starting with glyph i (and the empty page in shard 0)
            seqs = [(i,)] + [(i, j) for j in range(len(POOL))] + ([()] if i == 0 else [])
            grid = extreme_params()
            pool = POOL
        else:
            n = len(GIANT_POOL)
            seqs = [(i,)] + [(i, j) for j in range(n)] + [(i, j, k) for j in range(n) for k in range(n)]
            grid = [(bf, dv, True) + MARGIN_DEFAULT for bf in (0.5, None) for dv in (False, True)]
            pool = GIANT_POOL
        specs = []
        for seq in seqs:
            specs = [pool[j] for j in seq]
            st.states += 1
            for p in grid:
                check_case(specs, p, st, 0, EXTREME_CELL_BUDGET)
        if i == 1:
            st.sample({"family": "extreme-" + shard[1], "glyphs": specs, "params": grid[-1], "n_params": len(grid)})
        return
    if shard[0] in ("huge", "device-forms"):
        if shard[0] == "huge":
            cases = list(huge_cases(shard[1]))
        else:
            cases = []
            for m in DF_MATRIX:
                for cm in DF_CM:
                    for nested in (False, True):
                        pdf = device_pdf(DF_BBOX[shard[1]], m, cm, nested)
                        for lap in DF_LAP:
                            cases.append({"family": "device-forms", "pdf": pdf, "bbox": DF_BBOX[shard[1]], "matrix": m, "cm": cm,
                                          "nested": nested, "laparams": lap})
        for k, case in enumerate(cases):
            problems, outcome = analyse_custom(case, False) if shard[0] == "huge" else analyse_device(case)
            st.states += 1
            st.transitions += 1
            if not (outcome and outcome[0] in ("exc", "nonterm")):
                st.traces += 1
            key = (case.get("kind"), case.get("huge"), case["boxes_flow"], case["figure"] is not None) if shard[0] == "huge" else (case["matrix"], case["cm"], case["nested"], case["laparams"])
            st.case(None, nontrivial=True, outcome=(shard, key) + tuple(outcome))
            st.add(shard[0].replace("-", "_") + "_cases", 1)
            seen = set()
            for sig, exp, obs in problems:
                if sig not in seen:
                    seen.add(sig)
                    st.violation(sig, case, exp, obs, sig.split("/", 1)[1])
            if k == 0 and shard[1] == 1:
                st.sample({kk: (v if kk != "pdf" else f"<{len(v)} bytes>") for kk, v in case.items()})
        return
    if shard[0] == "vcols":
        specs = None
        for specs in vcols_sequences(shard[1]):
            st.states += 1
            for p in full:
                check_case(specs, p, st)
        if shard[1] == 3:
            st.sample({"family": "vcols", "glyphs": specs, "params": full[-1], "n_params": len(full)})
        return
    first = True
    for seq in _seqs(shard, maxlen):
        specs = [POOL[i] for i in seq]
        st.states += 1
        # thorough: sequences of the added length 5 get the quick grid, shorter ones the full thorough grid
        grid = quick if len(seq) > BOUNDS["quick"]["max_len"] else full
        for p in grid:
            check_case(specs, p, st)
        # glyph-less enclosing containers (variants 1, 2) for the shorter sequences
        if 1 <= len(seq) <= BOUNDS[tier]["max_len"] - 1:
            for variant in (1, 2):
                for p in quick:
                    check_case(specs, p, st, variant)
        if first and shard in (("short",), ("pre", 0, 1), ("pre", 10, 0), ("pre", 3, 9)):
            pass
        first = False
    if shard in (("pre", 0, 1), ("pre", 10, 0), ("pre", 3, 9), ("pre", 2, 11)):
        st.sample({"glyphs": specs, "params": grid[-1], "n_params": len(grid)})


def replay(case):
    if case.get("family") in ("deep-chain", "huge", "device-forms", "device-interleave", "device-render-char"):
        if case["family"] == "device-render-char":
            case = dict(case, laparams=(None if case["laparams"] is None else tuple(case["laparams"])))
            problems, _ = analyse_render_char(case)
        elif case["family"] == "device-interleave":
            case = dict(case, depths=tuple(case["depths"]), laparams=(None if case["laparams"] is None else tuple(case["laparams"])))
            problems, _ = analyse_interleave(case)
        elif case["family"] == "deep-chain":
            problems, _ = judge_chain(case)
        elif case["family"] == "huge":
            problems, _ = analyse_custom(case, False)
        else:
            case = dict(case, laparams=(None if case["laparams"] is None else tuple(case["laparams"])))
            problems, _ = analyse_device(case)
        out = []
        seen = set()
        for sig, exp, obs in problems:
            if sig not in seen:
                seen.add(sig)
                out.append({"signature": sig, "expected": repr(exp), "observed": repr(obs)})
        return out
    specs = [tuple(s) for s in case["glyphs"]]
    p = tuple(case["params"])
    problems, _, _, _ = analyse(specs, p, int(case.get("variant", 0)), case.get("cell_budget"))
    out = []
    seen = set()
    for sig, exp, obs in problems:
        if sig in seen:
            continue
        seen.add(sig)
        out.append({"signature": sig, "expected": repr(exp), "observed": repr(obs)})
    return out
