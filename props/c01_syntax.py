"""C01 -- object syntax: every conformant spelling of a value reads back as that value.

Shape B (choice-tree enumeration).  A *value model* (null, booleans, integers,
reals, names, literal/hex strings, arrays, dictionaries, references) and a
*speller* (mc/refs/syntax.py) whose every spelling rule is a choice point.
For every value all choice vectors with at most k deviations from the
canonical spelling are enumerated (mc.explore.ChoiceExplorer, mode 'dev'); every
serialisation is read back

* through ``PDFStreamParser(bytes).nextobject()`` with BUFSIZ = 4096, every
  BUFSIZ in 1..len+1, with the default BUFSIZ and a white-space/comment prefix
  of 4096-i bytes for every i in 0..len (the 4096-byte refill boundary is put
  at every byte of the object), and with prefixes 1 and 7 at BUFSIZ 2,3,5,8;
* through ``PDFDocument.getobj(n)`` as ``n 0 obj ... endobj`` in a generated
  file (many objects per file, so absolute offsets vary), at several BUFSIZ.

Oracle: the model value itself (mc.refs.syntax.expected).
"""
from __future__ import annotations

import io
import itertools
import re
import traceback
from fractions import Fraction
from typing import Any, Dict, List, Optional, Tuple

from mc.core import h64
from mc.explore import Abort, ChoiceExplorer, Chooser, ordered_trees
from mc.pdfgen import HexStr, Name, Ref, ser, xref_stream_obj, xref_table
from mc.refs.syntax import _ENDS_DELIM, _STARTS_DELIM, Real, Seq, Speller, expected, spell

from pdfminer.pdfdocument import PDFDocument
from pdfminer.pdfparser import PDFParser, PDFStreamParser
from pdfminer.pdftypes import PDFObjRef
from pdfminer.psparser import KWD, LIT, PSEOF, PSBaseParser, PSKeyword, PSLiteral, PSStackParser

ID = "C01"
LEVEL = "model_checking"
DEADLINE = {"quick": 1200, "thorough": 3 * 3600}

# --------------------------------------------------------------------------- value pools
F = Fraction
ATOMS: List[Any] = [
    None, True, False,
    0, 7, -7, 10, 2147483647, -2147483648,
    Real(F(1, 2)), Real(F(-1, 500)), Real(4), Real(F(69, 2)), Real(0), Real(F(-5, 4)),
    Name(b""), Name(b"A"), Name(b"AB"), Name(b"A B"), Name(b"a#b"), Name(b"x/y"), Name(b"("), Name("é"),
    Name(b"\xe9"), Name(b"A\x0bB"), Name(b" 1"), Name(b"Type1"), Name(b"a%b"), Name(b"\x7f\x01"), Name(b"k\xc3"),
    b"", b"abc", b"a(b)c", b"(", b")(", b"(()", b"\\", b"a\\b", b"\n", b"\r", b"\r\n", b"\t\x08\x0c", b"\x053", b"\x00",
    b"q8 ", b"a\nb", b"\n\n", b"\r\r", b"7\x07" b"8", b"\xff\x80", b"\\n", b"% >>",
    HexStr(b""), HexStr(b"A"), HexStr(b"\x90\x1f\xa0"), HexStr(b"\x00\x10"), HexStr(b"AB\xff"), HexStr(b"\x0a\xbc\xde\xf0"),
    HexStr(b"\x00"),
    # extension: numbers of any size (exact read-back), short octal escapes at the end / before non-digits
    12345678901234567890, Real(F(1, 10**20)), b"\x05", b"+x",
]
# thorough only
ATOMS_THOROUGH: List[Any] = [
    -98765432109876543210, Real(F(123456789012345678905, 10)), Real(F(-3, 10**20)), b"\x05x\x1f", b"\x00\x07\x3f", Ref(3, 5),
]
# read with a single deviation in both tiers (family 'tree'): a bare reference and references at depth 3
EXTRA_TREES: List[Any] = [
    Ref(1, 0), Ref(12, 7),
    [[[Ref(1, 0)]]], {"K": {"L": {"M": Ref(12, 0)}}}, [{"K": [Ref(3, 5), Ref(1, 0)]}], {"K": [{"L": Ref(3, 5), "M": 7}, Ref(2, 0)]},
    [[[Ref(1, 0), Ref(2, 0)], 5], Ref(65535, 65535)],
    # object number 0 (the head of the free list) is a syntactically valid reference like any other
    [Ref(0, 65535), 7], {"K": Ref(0, 65535), "L": 7}, Ref(0, 0),
]
# all 256 byte values spread over eight 32-byte literal strings (enumerated with a smaller deviation bound)
LONG: List[Any] = [bytes(range(32 * k, 32 * k + 32)) for k in range(8)]

# one or two representatives per token kind for adjacency (pairs)
REPS: List[Any] = [
    None, True, 7, Real(F(1, 2)), Name(b"A"), Name(b""), Name(b"A B"), b"ab", b"(", HexStr(b"A"), HexStr(b"\xa0"),
    Ref(1, 0), [], {}, [7], {"K": Name(b"V")},
]

LEAVES: List[Any] = [
    7, Name(b"A"), b"a(b)", None, HexStr(b"\x4a\x10"), Ref(12, 0), True, Real(F(-1, 500)), Name(b"A B"), b"\r\n", [], Ref(3, 5),
    False, -7, Name(b""), b"", {}, HexStr(b""), Real(4), Name(b"\xe9"), b"\\(", 0, Name("é"),
]
KEYS = ["K", "Type", "A B", "é", "a#b", "x"]

BOUNDS = {
    "quick": {"atom_dev": 2, "long_dev": 1, "pair_dev": 1, "tree_dev": 1, "tree_nodes": 5, "tree_rot": 2, "pair_all_dicts": False, "seq_len": 2, "reuse_dev": 0,
              "doc_bufsiz": [4096, 1, 2, 3, 7], "split": {"atom": 1, "long": 1, "pair": 1, "tree": 1, "seq": 1, "seq0": 1, "flood": 1, "reuse": 1, "badkeys": 1}},
    "thorough": {"atom_dev": 3, "long_dev": 2, "pair_dev": 1, "pair2_dev": 2, "tree_dev": 1, "tree_nodes": 6, "tree_rot": 3, "pair_all_dicts": True, "seq_len": 3, "reuse_dev": 1,
                 "doc_bufsiz": [4096, 1, 2, 3, 5, 7, 8, 13], "split": {"atom": 8, "long": 24, "pair": 1, "pair2": 4, "tree": 1, "seq": 1, "seq0": 1, "flood": 1, "reuse": 1, "badkeys": 1}},
}


def _depth_width(shape) -> Tuple[int, int]:
    if not shape:
        return 0, 0
    d = 1 + max(_depth_width(c)[0] for c in shape)
    w = max([len(shape)] + [_depth_width(c)[1] for c in shape])
    return d, w


def _tree_values(max_nodes: int, rot: int) -> List[Any]:
    vals = []
    shapes = []
    for n in range(2, max_nodes + 1):
        for sh in ordered_trees(n):
            d, w = _depth_width(sh)
            if d <= 3 and w <= 3:
                shapes.append(sh)
    k = 0
    for si, sh in enumerate(shapes):
        for variant in (0, 1):
            for r in range(rot):
                pos = [(si * 5 + variant * 11 + r * 7) % len(LEAVES)]

                def build(s, depth):
                    if not s:
                        v = LEAVES[pos[0] % len(LEAVES)]
                        pos[0] += 1
                        return v
                    kids = [build(c, depth + 1) for c in s]
                    if (depth + variant) % 2 == 0:
                        return kids
                    return {KEYS[(i + depth) % len(KEYS)]: kid for i, kid in enumerate(kids)}

                vals.append(build(sh, 0))
                k += 1
    return vals


_TREE_CACHE: Dict[Tuple[int, int], List[Any]] = {}


def tree_values(tier: str) -> List[Any]:
    b = BOUNDS[tier]
    key = (b["tree_nodes"], b["tree_rot"])
    if key not in _TREE_CACHE:
        _TREE_CACHE[key] = _tree_values(*key) + EXTRA_TREES
    return _TREE_CACHE[key]


def pair_values(all_dicts: bool) -> List[Any]:
    out = []
    n = len(REPS)
    for a in REPS:
        for b in REPS:
            out.append([a, b])
    for i, a in enumerate(REPS):
        for j, b in enumerate(REPS):
            # quick: every kind once in each dictionary slot (two rotations); thorough: all ordered pairs
            if all_dicts or j in ((i + 3) % n, (5 * i + 1) % n):
                out.append({"K": a, "L": b})
    return out


# thorough only: pairs over a 10-representative subset with one more deviation
REPS2_IDX = [0, 2, 3, 4, 5, 7, 9, 11, 12, 13]


def pair2_values() -> List[Any]:
    reps = [REPS[i] for i in REPS2_IDX]
    out = [[a, b] for a in reps for b in reps]
    n = len(reps)
    for i, a in enumerate(reps):
        for j in ((i + 3) % n, (5 * i + 1) % n):
            out.append({"K": a, "L": reps[j]})
    return out


# sequences of top-level objects (history shape of PDFStreamParser: what flush() emits, holds back and releases at end of data)
SEQ_POOL: List[Any] = [7, 5, Name(b"A"), b"s", Ref(1, 0), [2, 3], None]


def seq_values(minlen: int, maxlen: int) -> List[Any]:
    out: List[Any] = []
    for n in range(minlen, maxlen + 1):
        for t in itertools.product(SEQ_POOL, repeat=n):
            out.append(Seq(t))
    return out


# values made of names that no earlier read of the process has seen; read after FLOOD distinct names and keywords went
# through the same process-wide symbol tables (history dimension: process-wide state)
FLOOD = 70000
FLOOD_VALUES: List[Any] = [
    {"FreshKeyA": Name(b"FreshValA"), "FreshKeyB": [Name(b"FreshValA"), Name(b"FreshValB")]},
    [Name(b"FreshTwice"), Name(b"FreshTwice"), None, True],
    Seq([Name(b"FreshTop"), Name(b"FreshTop"), Ref(1, 0)]),
    Name(b"Fresh\xe9"),
]

FAMILIES = {"quick": ("atom", "long", "pair", "tree", "seq", "seq0", "flood", "reuse", "badkeys"),
            "thorough": ("atom", "long", "pair", "pair2", "tree", "seq", "seq0", "flood", "reuse", "badkeys")}
MAXTASKS = 1  # one shard per worker process: process-wide state (symbol tables) of one shard cannot leak into another


def family(fam: str, tier: str) -> Tuple[List[Any], int]:
    b = BOUNDS[tier]
    if fam == "pair2":
        return pair2_values(), b["pair2_dev"]
    if fam == "seq":  # every sequence up to seq_len objects, one deviation (separators incl. EOF/comment at the end, spellings)
        return seq_values(1, b["seq_len"]), 1
    if fam == "flood":
        return FLOOD_VALUES, 1
    if fam == "badkeys":
        return BADKEY_VALUES, 1
    if fam == "reuse":  # one parser object used for several reads (read to the end, seek back, read again)
        return seq_values(2, 3), b["reuse_dev"]
    if fam == "seq0":  # one object longer, canonical spelling only
        return seq_values(b["seq_len"] + 1, b["seq_len"] + 1), 0
    if fam == "atom":
        return ATOMS + (ATOMS_THOROUGH if tier == "thorough" else []), b["atom_dev"]
    if fam == "long":
        return LONG, b["long_dev"]
    if fam == "pair":
        return pair_values(b["pair_all_dicts"]), b["pair_dev"]
    if fam == "tree":
        return tree_values(tier), b["tree_dev"]
    raise KeyError(fam)


META = {
    "rule": (
        "case = (value, spelling): for every value of four families (atom: %d values incl. 20-digit integers, 20-decimal reals, "
        "-0/+0/-0.0/-.0 spellings of zero, 1-, 2- and 3-digit octal escapes at the end of a string and before non-digits; thorough "
        "adds %d more atoms; tree also holds bare top-level references and references at depth 3; seq: every sequence of up to seq_len top-level objects over a "
        "7-object pool (two integers, name, string, reference, array, null) with one deviation, seq0: every sequence one object longer in "
        "canonical spelling -- read through PDFStreamParser and, packed into an object stream with a cross-reference stream, through "
        "PDFDocument.getobj of every contained object (PDFStreamParser.BUFSIZ set to doc_bufsiz as well); flood: 4 values made of names "
        "never seen before, read (one deviation) after 70000 distinct names and 70000 distinct keywords went through the process-wide symbol "
        "tables -- every name read must be the interned symbol (o is LIT(o.name), checked in all families); reuse: every sequence of 2-3 "
        "objects (reuse_dev deviations) read by ONE parser object under the history read-to-end, then for every token/object offset "
        "backwards and forwards seek(offset) + read-to-end, for a bare PSBaseParser (tokens), a flushing PSStackParser, PDFStreamParser "
        "(BUFSIZ 4096, 1, 3) and PDFParser (PDFDocument(caching=False).getobj forwards, backwards, forwards) -- each read must equal a "
        "first read from that offset; every shard runs in its own worker process; badkeys: 4 values with dictionaries of 2-4 "
        "keys that are not valid UTF-8 (one deviation, both seams, BUFSIZ 4096/1/3): n distinct names must give n entries with distinct keys "
        "holding the n values; string bytes can also be written as an overflowing octal escape \\ddd above \\377 (value mod 256); long: the 256 byte values as eight "
        "32-byte strings; pair: all ordered pairs of %d token-kind representatives as [a b], and as <</K a/L b>> (quick: every "
        "representative in each slot with two partners; thorough: all ordered pairs; thorough also pair2 = the same over 10 representatives "
        "with one more deviation); tree: all ordered "
        "trees up to tree_nodes nodes with depth<=3, width<=3, array/dict alternating, leaves cycled from a %d-atom pool) every "
        "choice vector of the speller with at most *_dev deviations from the canonical spelling (separator at every token "
        "boundary incl. leading/trailing and EOF, 13 separators incl. NUL and comments; int/real forms; per name byte raw/#XX/#xx; "
        "per string byte raw/named/octal-3/octal-short/unknown-escape/raw EOL forms; backslash-EOL continuation in every gap; "
        "balanced raw parentheses; hex case/white space/odd length).  Every spelling is read with PDFStreamParser at BUFSIZ 4096, "
        "every BUFSIZ 1..len+1, the 4096 boundary placed at every byte (prefix 4096-i), prefixes 1 and 7 at BUFSIZ 2,3,5,8; and "
        "with PDFDocument.getobj as 'n 0 obj .. endobj' at doc_bufsiz.  states/transitions = nodes/edges of the choice trees, "
        "traces = complete spellings executed and compared with the model value; non-trivial = the default-buffer read returned "
        "at least one object (a value was compared); outcome = hash of the value the implementation returned."
        % (len(ATOMS), len(ATOMS_THOROUGH), len(REPS), len(LEAVES))
    ),
    "bound": {k: str({kk: vv for kk, vv in v.items() if kk != "split"}) for k, v in BOUNDS.items()},
    "assumptions": [
        "values outside the pools (longer strings/names, deeper or wider composites than depth 3 / width 3, other numbers) are not explored",
        "spellings with more simultaneous deviations from the canonical form than the stated *_dev bound are not explored",
        "a bare 'n g R' (an object whose whole value is a reference) is read at top level of both seams; its reported position is not judged",
        "non-UTF-8 dictionary keys are only judged for entry count, key distinctness and values (family badkeys), not for the text pdfminer gives the key; "
        "not generated: exponent reals, NUL in names, comments inside strings, radix numbers",
        "short octal escapes are only written when the next string byte is not an ASCII digit (ISO 7.3.4.2 writer rule)",
        "a raw CR end-of-line directly followed by a raw LF is not generated (the pair is one end-of-line marker)",
        "termination is judged by a counted refill budget (fillbuf calls), not by time",
        "token positions are only checked for the top-level object of the PDFStreamParser seam",
    ],
}


# --------------------------------------------------------------------------- observing the implementation
class Livelock(Exception):
    pass


class _CountingStreamParser(PDFStreamParser):
    nfill = 0
    budget = 0

    def fillbuf(self) -> None:
        self.nfill += 1
        if self.nfill > self.budget:
            raise Livelock("refill budget exceeded")
        return PDFStreamParser.fillbuf(self)


class _CountingParser(PDFParser):
    nfill = 0
    budget = 0

    def fillbuf(self) -> None:
        self.nfill += 1
        if self.nfill > self.budget:
            raise Livelock("refill budget exceeded")
        return PDFParser.fillbuf(self)


def canon_obs(o: Any) -> Any:
    if o is None:
        return ("null",)
    if isinstance(o, bool):
        return ("bool", o)
    if type(o) is int:
        return ("int", o)
    if type(o) is float:
        return ("real", repr(o + 0.0))  # zero has no sign in PDF: -0.0 and 0.0 are the same value
    if isinstance(o, PSLiteral):
        # a name *is* its interned symbol: the library compares names with `is` / == (identity) against LIT(name)
        return ("name", o.name) if o is LIT(o.name) else ("name-not-the-interned-symbol", o.name)
    if isinstance(o, PSKeyword):
        return ("keyword", o.name) if o is KWD(o.name) else ("keyword-not-the-interned-symbol", o.name)
    if isinstance(o, bytes):
        return ("str", o)
    if isinstance(o, PDFObjRef):
        return ("ref", o.objid)
    if isinstance(o, list):
        return ("arr", tuple(canon_obs(x) for x in o))
    if isinstance(o, dict):
        return ("dict", tuple(sorted(((k if isinstance(k, str) else repr(k)), canon_obs(v)) for k, v in o.items())))
    return ("other", type(o).__name__, repr(o)[:80])


def _exc_name(e: BaseException) -> str:
    tb = traceback.extract_tb(e.__traceback__)
    return f"{type(e).__name__}@{tb[-1].name if tb else '?'}"


def run_stream(inp: bytes, bufsiz: int):
    """-> ('ok', ((pos, canon), ...)) | ('exc', name)"""
    p = _CountingStreamParser(inp)
    p.BUFSIZ = bufsiz
    p.nfill = 0
    p.budget = 8 * len(inp) + 64
    res = []
    try:
        while len(res) <= 8:
            pos, o = p.nextobject()
            res.append((pos, canon_obs(o)))
    except PSEOF:
        pass
    except Exception as e:  # noqa
        return ("exc", _exc_name(e))
    return ("ok", tuple(res))


def build_doc(bodies: List[bytes], pad: int = 0) -> Tuple[bytes, List[int]]:
    out = bytearray(b"%PDF-1.4\n%\xe2\xe3\xcf\xd3\n" + b"%" + b"p" * pad + b"\n")
    offs: Dict[int, Tuple[int, int]] = {}
    offs[1] = (len(out), 0)
    out += b"1 0 obj\n<</Type/Catalog/Pages 2 0 R>>\nendobj\n"
    offs[2] = (len(out), 0)
    out += b"2 0 obj\n<</Type/Pages/Kids[]/Count 0>>\nendobj\n"
    nums = []
    for i, body in enumerate(bodies):
        n = 3 + i
        offs[n] = (len(out), 0)
        out += b"%d 0 obj" % n + body + b"endobj\n"
        nums.append(n)
    start = len(out)
    out += xref_table(offs)
    out += b"trailer\n<</Size %d/Root 1 0 R>>\nstartxref\n%d\n%%%%EOF\n" % (3 + len(bodies), start)
    return bytes(out), nums


def build_objstm_doc(spellers: List[Speller], pad: int = 0) -> Tuple[bytes, List[Tuple[int, ...]]]:
    """One object stream per spelled sequence (its items are the compressed objects), cross-reference stream."""
    out = bytearray(b"%PDF-1.5\n%\xe2\xe3\xcf\xd3\n" + b"%" + b"p" * pad + b"\n")
    entries: Dict[int, Tuple[int, int, int]] = {0: (0, 0, 65535)}
    entries[1] = (1, len(out), 0)
    out += b"1 0 obj\n<</Type/Catalog/Pages 2 0 R>>\nendobj\n"
    entries[2] = (1, len(out), 0)
    out += b"2 0 obj\n<</Type/Pages/Kids[]/Count 0>>\nendobj\n"
    groups: List[Tuple[int, ...]] = []
    nxt = 3
    for s in spellers:
        stm = nxt
        nums = tuple(range(stm + 1, stm + 1 + len(s.item_starts)))
        nxt = stm + 1 + len(nums)
        head = b" ".join(b"%d %d" % (n, off) for n, off in zip(nums, s.item_starts)) + b"\n"
        data = head + s.data
        entries[stm] = (1, len(out), 0)
        out += b"%d 0 obj\n<</Type/ObjStm/N %d/First %d/Length %d>>\nstream\n" % (stm, len(nums), len(head), len(data)) + data + b"\nendstream\nendobj\n"
        for i, n in enumerate(nums):
            entries[n] = (2, stm, i)
        groups.append(nums)
    xnum = nxt
    entries[xnum] = (1, len(out), 0)
    xs = xref_stream_obj(entries, {"Type": Name("XRef"), "Size": xnum + 1, "Root": Ref(1)}, W=(1, 4, 2))
    start = len(out)
    out += b"%d 0 obj\n" % xnum + ser(xs) + b"\nendobj\nstartxref\n%d\n%%%%EOF\n" % start
    return bytes(out), groups


def build_any_doc(spellers: List[Speller], pad: int = 0):
    if spellers and spellers[0].item_starts:
        return build_objstm_doc(spellers, pad)
    return build_doc([doc_body(s) for s in spellers], pad)


def run_doc(doc: bytes, nums: List[Any], bufsiz: int):
    """nums: object numbers; a tuple of numbers means 'the objects of one sequence' (read from an object stream)."""
    old = PDFStreamParser.BUFSIZ
    PDFStreamParser.BUFSIZ = bufsiz  # object streams are parsed by PDFStreamParser instances made inside pdfminer
    try:
        return _run_doc(doc, nums, bufsiz)
    finally:
        PDFStreamParser.BUFSIZ = old


def _run_doc(doc: bytes, nums: List[Any], bufsiz: int):
    p = _CountingParser(io.BytesIO(doc))
    p.BUFSIZ = bufsiz
    p.nfill = 0
    p.budget = 64 * len(doc) + 4096
    try:
        d = PDFDocument(p)
    except Exception as e:  # noqa
        return [("exc", "open:" + _exc_name(e))] * len(nums)
    res = []
    for n in nums:
        try:
            if isinstance(n, (tuple, list)):
                res.append(("ok", ("seq", tuple(canon_obs(d.getobj(k)) for k in n))))
            else:
                res.append(("ok", canon_obs(d.getobj(n))))
        except Exception as e:  # noqa
            res.append(("exc", _exc_name(e)))
    return res


def _prefix(n: int) -> bytes:
    if n >= 8:
        return b"%pad\r\n" + b" " * (n - 6)
    return b" " * n


def stream_configs(n: int):
    """(bufsiz, prefix_len) pairs for a serialisation of n bytes; the first one is the reference."""
    yield (4096, 0)
    for b in range(1, n + 2):
        yield (b, 0)
    for i in range(0, n + 1):
        yield (4096, 4096 - i)
    for p in (1, 7):
        for b in (2, 3, 5, 8):
            yield (b, p)


def doc_body(s: Speller) -> bytes:
    lead = s.lead if s.lead else (b"" if _STARTS_DELIM[s.first_kind] else b" ")
    trail = s.trail if s.trail else (b"" if _ENDS_DELIM[s.prev] else b"\n")
    return lead + s.data[s.body_start : s.body_end] + trail


# --------------------------------------------------------------------------- judging one spelling
def _norm(r, p: int):
    """Observation with positions made relative to the start of the serialisation."""
    if r[0] != "ok":
        return r
    return ("ok", tuple(v for _, v in r[1]), tuple(pos - p for pos, _ in r[1]))


def eval_stream(s: Speller, counters=None):
    """-> (ref, dependents): ref = normalised observation at BUFSIZ 4096 / offset 0;
    dependents = [(bufsiz, prefix_len, normalised observation)] for every configuration that differs from ref."""
    data = s.data
    ref = None
    dep = []
    npar = 0
    for b, p in stream_configs(len(data)):
        r = _norm(run_stream(_prefix(p) + data if p else data, b), p)
        npar += 1
        if ref is None:
            ref = r
        elif r != ref:
            dep.append((b, p, r))
    if counters is not None:
        counters["stream_parses"] = counters.get("stream_parses", 0) + npar
    return ref, dep


def eval_docs(spellers: List[Speller], bufsizes: List[int], pad: int, counters=None):
    """-> (doc, nums, per speller (ref, dependents)); ref = observation at the first BUFSIZ of ``bufsizes`` (4096)."""
    doc, nums = build_any_doc(spellers, pad)
    refs: List[Any] = []
    deps: List[List[Any]] = [[] for _ in spellers]
    for k, b in enumerate(bufsizes):
        res = run_doc(doc, nums, b)
        if counters is not None:
            counters["getobj_calls"] = counters.get("getobj_calls", 0) + len(nums)
        if k == 0:
            refs = res
        else:
            for i, r in enumerate(res):
                if r != refs[i]:
                    deps[i].append((b, r))
    return doc, nums, list(zip(refs, deps))


def stream_value(ref):
    """What the stream seam handed back, positions dropped."""
    return ref[:2]


# --------------------------------------------------------------------------- diagnosis -> signature
def cause_name(feat: str) -> str:
    label, alt = feat.split("=", 1)
    if label.startswith("sep@"):
        if alt == "NUL":
            return "nul-not-whitespace"
        return "sep-" + alt
    if label == "hex.ws":
        kind = alt.split("@")[0]
        return "nul-not-whitespace" if kind == "NUL" else "hex-ws-" + kind
    if label == "hex.len":
        return "hex-odd-length"
    if label == "hex.case":
        return "hex-case-" + alt
    if label == "str":
        return {
            "unknown-esc": "string-unknown-escape",
            "raw-CR-eol": "string-raw-eol-not-LF",
            "raw-CRLF-eol": "string-raw-eol-not-LF",
        }.get(alt, "str-" + alt)
    if label == "str.cont":
        return "str-continuation-" + alt
    if label == "str.parens":
        return "str-" + alt
    if label == "name":
        return "vt-ends-name" if alt == "raw-vt" else "name-" + alt
    return label + "-" + alt


def diff_name(exp, obs) -> str:
    """Name the first difference between the expected canonical value and an observation ('ok', (values...))."""
    if obs[0] != "ok":
        return "exception:" + str(obs[1])
    if exp[0] == "seq":
        got = obs[1][1] if (obs[1] and obs[1][0] == "seq") else obs[1]
        if len(got) != len(exp[1]):
            return f"sequence-length:{len(exp[1])}->{len(got)}"
        if sorted(map(repr, got)) == sorted(map(repr, exp[1])):
            return "sequence-order"
        return "sequence-item:" + next(diff_name(e, ("ok", (o,))) for e, o in zip(exp[1], got) if e != o)
    vals = obs[1] if isinstance(obs[1], tuple) and (not obs[1] or isinstance(obs[1][0], tuple)) else (obs[1],)
    if len(vals) != 1:
        return f"objects:1->{len(vals)}"

    def walk(e, o):
        if e == o:
            return None
        if e[0] != o[0]:
            return f"{e[0]}->{o[0]}"
        if e[0] == "arr":
            if len(e[1]) != len(o[1]):
                return "arr-length"
            for a, b in zip(e[1], o[1]):
                d = walk(a, b)
                if d:
                    return d
        if e[0] == "dict":
            ek, ok = [k for k, _ in e[1]], [k for k, _ in o[1]]
            if ek != ok:
                extra = [v for k, v in o[1] if k not in ek]
                if extra and all(v == ("keyword", b"null") for v in extra) and len(ok) == len(ek) + len(extra):
                    return "null->keyword"
                return "dict-keys"
            for (_, a), (_, b) in zip(e[1], o[1]):
                d = walk(a, b)
                if d:
                    return d
        return e[0] + "-payload"

    return walk(exp, vals[0]) or "same"


_HEXESC_AT_END = re.compile(rb"#[0-9A-Fa-f]{1,2}$")


def _single(value, choices: List[int], idx: int) -> Optional[Speller]:
    try:
        return spell(Chooser([0] * idx + [choices[idx]]), value)
    except Abort:
        return None


class Judge:
    """Per-value context: expected value, canonical-spelling baselines, signature diagnosis."""

    def __init__(self, value, bufsizes: List[int]):
        self.value = value
        self.exp = expected(value)
        self.want_stream = ("ok", self.exp[1]) if isinstance(value, Seq) else ("ok", (self.exp,))
        self.bufsizes = bufsizes
        self.s0 = spell(Chooser([]), value)
        ref0, dep0 = eval_stream(self.s0)
        self.base_stream = stream_value(ref0)
        self.base_stream_dep = bool(dep0)
        _, _, r = eval_docs([self.s0], bufsizes, 0)
        self.base_doc = r[0][0]
        self.base_doc_dep = bool(r[0][1])
        self._cache: Dict[Any, Any] = {}

    # --- observations of a single-deviation spelling
    def _obs(self, choices: List[int], idx: int, seam: str):
        """(default-buffer observation, buffer-dependent?) of the spelling that keeps only deviation ``idx``."""
        key = (seam, idx, choices[idx])
        if key not in self._cache:
            s1 = _single(self.value, choices, idx)
            if s1 is None:
                self._cache[key] = None
            elif seam == "stream":
                ref, dep = eval_stream(s1)
                self._cache[key] = (stream_value(ref), bool(dep))
            else:
                _, _, r = eval_docs([s1], self.bufsizes, 0)
                self._cache[key] = (r[0][0], bool(r[0][1]))
        return self._cache[key]

    def misread_signatures(self, s: Speller, seam: str, obs) -> List[str]:
        """obs = what this spelling read back as at the default buffer size (already known to differ from expected)."""
        want = self.want_stream if seam == "stream" else ("ok", self.exp)
        base = self.base_stream if seam == "stream" else self.base_doc
        sigs = set()
        if base != want:
            if isinstance(self.value, Ref) and base[0] == "ok" and base[1] == (("int", self.value.num), ("int", self.value.gen)):
                sigs.add("C01/top-level-reference-split")  # operands flushed as two integers, R dropped
            else:
                sigs.add("C01/canonical:" + diff_name(self.exp, base))
            if obs == base:
                return sorted(sigs)
        choices = list(s.x.choices)
        causes = set()
        for idx, feat in s.feats:
            o = self._obs(choices, idx, seam)
            if o is not None and o[0] != base:
                causes.add(cause_name(feat))
        names = {cause_name(f) for _, f in s.feats}
        if "sep-EOF" in names and s.prev == "name" and _HEXESC_AT_END.search(s.data) and (causes <= {"sep-EOF"}):
            # a name whose last character is written #xx and that ends the data
            sigs.add("C01/name-hex-escape-at-EOF")
        elif causes:
            sigs.update("C01/" + c for c in causes)
        elif s.feats:
            sigs.add("C01/interaction:" + "+".join(sorted(names)))
        else:
            sigs.add("C01/canonical:" + diff_name(self.exp, obs))
        return sorted(sigs)

    def dependent_signatures(self, s: Speller, seam: str) -> List[str]:
        pre = "C01/buffer-dependent:"
        if (self.base_stream_dep if seam == "stream" else self.base_doc_dep):
            return [pre + "canonical"]
        choices = list(s.x.choices)
        causes = set()
        for idx, feat in s.feats:
            o = self._obs(choices, idx, seam)
            if o is not None and o[1]:
                causes.add(cause_name(feat))
        if causes:
            return sorted(pre + c for c in causes)
        return [pre + "interaction:" + "+".join(sorted({cause_name(f) for _, f in s.feats}))]


# --------------------------------------------------------------------------- shards
def flood_symbols(n: int) -> int:
    """Send n distinct names and n distinct keywords through the tokenizer (they end up in the process-wide symbol tables)."""
    got = 0
    for text in (b"[" + b" ".join(b"/Fl%d" % i for i in range(n)) + b"]", b" ".join(b"kw%dx" % i for i in range(n)) + b"\n"):
        p = PDFStreamParser(text)
        try:
            while True:
                _, o = p.nextobject()
                got += len(o) if isinstance(o, list) else 1
        except PSEOF:
            pass
    return got


class _FlushingStackParser(PSStackParser):
    """PSStackParser used the way the repository's own tests use it."""

    def flush(self):
        self.add_results(*self.popall())


def _read_all(p, tokens: bool):
    out = []
    try:
        while len(out) <= 64:
            pos, o = p.nexttoken() if tokens else p.nextobject()
            out.append((pos, canon_obs(o)))
    except PSEOF:
        pass
    except Exception as e:  # noqa
        out.append(("exc", _exc_name(e)))
    return tuple(out)


REUSE_KINDS = ("PSBaseParser", "PSStackParser", "PDFStreamParser", "PDFParser")
REUSE_BUFSIZ = (4096, 1, 3)


def reuse_protocol(kind: str, data: bytes, starts: List[int], bufsiz: int):
    """One parser object, several reads.  Returns mismatches [(history, expected, observed)]: after any history of reads and
    seeks the parser must hand back what a first read from that offset hands back."""
    bad = []
    if kind == "PDFParser":
        bodies = [b" " + data[a:b] + b"\n" for a, b in zip(starts, list(starts[1:]) + [len(data)])]
        doc, nums = build_doc(bodies, 3)
        first = run_doc(doc, nums, bufsiz)
        p = _CountingParser(io.BytesIO(doc))
        p.BUFSIZ = bufsiz
        p.nfill = 0
        p.budget = 256 * len(doc) + 4096
        try:
            d = PDFDocument(p, caching=False)
            order = list(range(len(nums))) + list(reversed(range(len(nums)))) + list(range(len(nums)))
            hist = []
            for j in order:
                hist.append(nums[j])
                try:
                    got = ("ok", canon_obs(d.getobj(nums[j])))
                except Exception as e:  # noqa
                    got = ("exc", _exc_name(e))
                if got != first[j]:
                    bad.append((tuple(hist), first[j], got))
                    break
        except Exception as e:  # noqa
            bad.append((("open",), "document opens", ("exc", _exc_name(e))))
        return bad
    tokens = kind == "PSBaseParser"
    mk = {"PSBaseParser": lambda: PSBaseParser(io.BytesIO(data)), "PSStackParser": lambda: _FlushingStackParser(io.BytesIO(data)),
          "PDFStreamParser": lambda: _CountingStreamParser(data)}[kind]

    def fresh_from(off):
        q = mk()
        q.BUFSIZ = bufsiz
        q.nfill = 0
        q.budget = 64 * len(data) + 256
        q.seek(off)
        return _read_all(q, tokens)

    p = mk()
    p.BUFSIZ = bufsiz
    p.nfill = 0
    p.budget = 64 * 16 * len(data) + 4096
    first = _read_all(p, tokens)
    offs = [pos for pos, _ in first if isinstance(pos, int)] if tokens else list(starts)
    hist: List[Any] = ["read-to-end"]
    for j in list(reversed(range(len(offs)))) + list(range(len(offs))):
        hist.append(("seek", offs[j]))
        p.seek(offs[j])
        got = _read_all(p, tokens)
        want = fresh_from(offs[j])
        hist.append("read-to-end")
        if got != want:
            bad.append((tuple(hist), want, got))
            break
    return bad


# dictionaries whose keys are names that are not UTF-8: every entry must survive under its own, distinct key
BADKEY_VALUES: List[Any] = [
    {b"\xff": 1, b"\xfe": 2},
    {b"A\xe9": 1, b"A\xe8": 2, "A": 3},
    {b"\xc3": 1, b"\xc3\x28": 2, "\u00e9": 3, b"\xe9": 4},
    [{b"\x80": Name(b"V1"), b"\x81": Name(b"V2")}, {b"k\xff": [1], b"k\xfe": [2], b"k\xfd": [3]}],
]


def _dicts_in(canon, out):
    if canon[0] == "dict":
        out.append(canon[1])
        for _, v in canon[1]:
            _dicts_in(v, out)
    elif canon[0] == "arr":
        for v in canon[1]:
            _dicts_in(v, out)
    return out


def _model_dicts(v, out):
    if isinstance(v, dict):
        out.append(v)
        for x in v.values():
            _model_dicts(x, out)
    elif isinstance(v, list):
        for x in v:
            _model_dicts(x, out)
    return out


def badkeys_judge(value, obs_canon):
    """The statement is about values: whatever text a non-UTF-8 key is given, n distinct names must give n entries holding
    the n values written."""
    got = _dicts_in(obs_canon, [])
    want = _model_dicts(value, [])
    if len(got) != len(want):
        return f"{len(want)} dictionaries written, {len(got)} read"
    for g, w in zip(got, want):
        wv = sorted(repr(expected(x)) for x in w.values() if not isinstance(x, (dict, list)))
        gv = sorted(repr(x) for _, x in g if x[0] not in ("dict", "arr"))
        if len(g) != len(w) or len({k for k, _ in g}) != len(w):
            return f"{len(w)} entries with distinct keys written, {len(g)} read (keys {[k for k, _ in g]!r})"
        if wv != gv:
            return f"values {wv!r} written, {gv!r} read"
    return None


def badkeys_obs(data: bytes, starts_delim: bool, seam: str, bufsiz: int):
    if seam == "stream":
        r = run_stream(data, bufsiz)
        if r[0] != "ok" or len(r[1]) != 1:
            return None, r
        return r[1][0][1], r
    doc, nums = build_doc([(b"" if starts_delim else b" ") + data], 0)
    r = run_doc(doc, nums, bufsiz)[0]
    return (r[1] if r[0] == "ok" else None), r


def run_badkeys(shard, tier, st):
    fam, idx, r, R = shard
    value = BADKEY_VALUES[idx]
    ex = ChoiceExplorer(lambda x: spell(x, value), mode="dev", bound=1)
    for s, x in ex.run():
        st.traces += 1
        for seam in ("stream", "getobj"):
            for b in (4096, 1, 3):
                canon, raw = badkeys_obs(s.data, True, seam, b)
                st.case(None, nontrivial=True, outcome=h64(seam, raw[0], canon))
                why = "not read as one object" if canon is None else badkeys_judge(value, canon)
                if why:
                    sig = "C01/non-utf8-dictionary-keys"
                    st.violation(sig, {"seam": "badkeys", "kind": "badkeys", "via": seam, "input": s.data, "bufsiz": b, "index": idx,
                                       "expected": "n distinct keys -> n entries", "value": repr(value), "signature": sig},
                                 "every entry under its own distinct key", raw, f"{s.data!r} ({seam}, BUFSIZ={b}): {why}")
    st.states += ex.states
    st.transitions += ex.transitions
    st.add("values", 1)
    if idx == 1:
        st.sample({"family": "badkeys", "value": repr(value), "canonical_spelling": spell(Chooser([]), value).data})


def run_reuse(shard, tier, st):
    fam, idx, r, R = shard
    vals, bound = family(fam, tier)
    value = vals[idx]
    ex = ChoiceExplorer(lambda x: spell(x, value), mode="dev", bound=bound)
    nsp = 0
    for s, x in ex.run():
        nsp += 1
        st.traces += 1
        for kind in REUSE_KINDS:
            if kind == "PSStackParser" and any(isinstance(e, Ref) for e in value):
                continue  # a plain PSStackParser has no notion of R
            for b in REUSE_BUFSIZ:
                bad = reuse_protocol(kind, s.data, s.item_starts, b)
                st.add("reuse_histories", 1)
                st.case(None, nontrivial=True, outcome=h64(kind, not bad))
                for hist, want, got in bad:
                    sig = f"C01/reuse:{kind}"
                    st.violation(sig, {"seam": "reuse", "kind": "reuse", "parser": kind, "input": s.data, "starts": list(s.item_starts), "bufsiz": b,
                                       "expected": want, "value": repr(value), "history": hist, "signature": sig}, want, got,
                                 f"{kind} over {s.data!r} (BUFSIZ={b}) after the history {hist!r} reads {got!r}, a first read from there gives {want!r}")
        if nsp == 1 and idx % 97 == 0:
            st.sample({"family": fam, "value": repr(value), "spelling": s.data, "parsers": list(REUSE_KINDS), "bufsizes": list(REUSE_BUFSIZ)})
    st.states += ex.states
    st.transitions += ex.transitions
    st.add("spellings", nsp)
    st.add("values", 1)


def shards(tier):
    out = []
    for fam in FAMILIES[tier]:
        vals, _ = family(fam, tier)
        R = BOUNDS[tier]["split"][fam]
        for i in range(len(vals)):
            for r in range(R):
                out.append((fam, i, r, R))
    return out


DOC_BATCH = 40


def _judge_stream(st, J: Judge, s: Speller, ref, dep) -> None:
    exp = J.exp
    feats = [x for _, x in s.feats]
    base = {"seam": "stream", "value": repr(J.value), "features": feats, "expected": exp, "spelling": s.data, **getattr(J, "extra_case", {})}
    want = J.want_stream
    if stream_value(ref) != want:
        for sig in J.misread_signatures(s, "stream", stream_value(ref)):
            st.violation(sig, {**base, "kind": "misread", "input": s.data, "bufsiz": 4096, "prefix_len": 0, "want": want, "signature": sig},
                         want, stream_value(ref), f"{s.data!r} read back as {stream_value(ref)!r}, expected {exp!r}")
    elif not isinstance(J.value, (Ref, Seq)) and ref[2] != (s.body_start,):
        # (a bare reference is reported at its R keyword, as inside arrays; the statement does not fix that position)
        sig = "C01/position:" + ("canonical" if not feats else "+".join(sorted({cause_name(f) for f in feats})))
        st.violation(sig, {**base, "kind": "position", "input": s.data, "bufsiz": 4096, "prefix_len": 0, "expected_pos": s.body_start,
                           "signature": sig}, s.body_start, ref[2], f"{s.data!r}: object reported at {ref[2]!r}, starts at {s.body_start}")
    if dep:
        b, p, r = dep[0]
        for sig in J.dependent_signatures(s, "stream"):
            st.violation(sig, {**base, "kind": "dependent", "input": (_prefix(p) + s.data) if p else s.data, "bufsiz": b, "prefix_len": p,
                               "signature": sig}, ref, r,
                         f"{s.data!r}: BUFSIZ={b} prefix={p} gives {r!r} but BUFSIZ=4096 prefix=0 gives {ref!r} ({len(dep)} configurations differ)")


def _judge_doc(st, J: Judge, s: Speller, doc: bytes, num: int, ref, dep) -> None:
    exp = J.exp
    feats = [x for _, x in s.feats]
    want = ("ok", exp)
    if ref == want and not dep:
        return
    # self-contained minimal file for the artefact if it shows the same thing
    one, nums1 = build_any_doc([s], 0)
    base = {**getattr(J, "extra_case", {}), "seam": "getobj", "value": repr(J.value), "features": feats, "expected": exp, "object_text": s.data if s.item_starts else doc_body(s)}
    if ref != want:
        r1 = run_doc(one, nums1, 4096)[0]
        d, n, o = (one, nums1[0], r1) if r1 != want else (doc, num, ref)
        for sig in J.misread_signatures(s, "getobj", ref):
            st.violation(sig, {**base, "kind": "misread", "input": d, "objnum": n, "bufsiz": 4096, "signature": sig}, want, o,
                         f"'n 0 obj{doc_body(s)!r}endobj': getobj gives {o!r}, expected {exp!r}")
    if dep:
        b, r = dep[0]
        for sig in J.dependent_signatures(s, "getobj"):
            st.violation(sig, {**base, "kind": "dependent", "input": doc, "objnum": num, "bufsiz": b, "signature": sig}, ref, r,
                         f"'n 0 obj{doc_body(s)!r}endobj': getobj with BUFSIZ={b} gives {r!r} but {ref!r} with BUFSIZ=4096")


def run_shard(shard, tier, st):
    fam, idx, r, R = shard
    if fam == "reuse":
        return run_reuse(shard, tier, st)
    if fam == "badkeys":
        return run_badkeys(shard, tier, st)
    vals, bound = family(fam, tier)
    value = vals[idx]
    bufsizes = BOUNDS[tier]["doc_bufsiz"]
    extra_case: Dict[str, Any] = {}
    if fam == "flood":
        st.add("flooded_symbols", flood_symbols(FLOOD))
        extra_case = {"flood": FLOOD}
    J = Judge(value, bufsizes)
    J.extra_case = extra_case
    counters: Dict[str, int] = {}
    ex = ChoiceExplorer(lambda x: spell(x, value), mode="dev", bound=bound)
    batch: List[Speller] = []
    seen = set()
    ndup = 0
    nsp = 0

    def flush():
        if not batch:
            return
        doc, nums, res = eval_docs(batch, bufsizes, (idx * 7 + len(batch)) % 11, counters)
        for s, n, (ref, dep) in zip(batch, nums, res):
            _judge_doc(st, J, s, doc, n, ref, dep)
        batch.clear()

    n = -1
    for s, x in ex.run():
        n += 1
        if n % R != r:
            continue
        nsp += 1
        hk = h64(s.data)
        if hk in seen:
            ndup += 1
        seen.add(hk)
        ref, dep = eval_stream(s, counters)
        st.case(None, nontrivial=(ref[0] == "ok" and len(ref[1]) >= 1), outcome=h64(stream_value(ref)))
        st.traces += 1
        _judge_stream(st, J, s, ref, dep)
        batch.append(s)
        if len(batch) >= DOC_BATCH:
            flush()
        if nsp == 1 and idx % 5 == 0 and r == 0:
            st.sample({"family": fam, "value": repr(value), "canonical_spelling": s.data, "expected": J.exp})
        elif nsp == 7 and idx % 5 == 0 and r == 0:
            st.sample({"family": fam, "value": repr(value), "spelling": s.data, "deviations": [f for _, f in s.feats]})
    flush()
    if r == 0:
        st.states += ex.states
        st.transitions += ex.transitions
        st.add("aborted_vectors", ex.aborted)
        st.add("values", 1)
    st.add("spellings", nsp)
    st.add("duplicate_spellings", ndup)
    for k, v in counters.items():
        st.add(k, v)


def replay(case):
    exp = case["expected"]
    sig = case["signature"]
    kind = case["kind"]
    if case.get("flood"):
        flood_symbols(case["flood"])  # the process-wide history the case was observed under
    if case["seam"] == "badkeys":
        canon, raw = badkeys_obs(case["input"], True, case["via"], case["bufsiz"])
        why = "not read as one object" if canon is None else badkeys_judge(BADKEY_VALUES[case["index"]], canon)
        return [{"signature": sig, "expected": "every entry under its own distinct key", "observed": repr(raw) + " : " + why}] if why else []
    if case["seam"] == "reuse":
        bad = reuse_protocol(case["parser"], case["input"], list(case["starts"]), case["bufsiz"])
        return [{"signature": sig, "expected": repr(w), "observed": repr(g)} for _, w, g in bad]
    if case["seam"] == "stream":
        r = _norm(run_stream(case["input"], case["bufsiz"]), case["prefix_len"])
        if kind == "misread":
            want = case.get("want") or ("ok", (exp,))
            if stream_value(r) != want:
                return [{"signature": sig, "expected": repr(want), "observed": repr(stream_value(r))}]
        elif kind == "position":
            if r[0] == "ok" and r[2] != (case["expected_pos"],):
                return [{"signature": sig, "expected": repr(case["expected_pos"]), "observed": repr(r[2])}]
        else:
            ref = _norm(run_stream(case["spelling"], 4096), 0)
            if r != ref:
                return [{"signature": sig, "expected": repr(ref), "observed": repr(r)}]
        return []
    r = run_doc(case["input"], [case["objnum"]], case["bufsiz"])[0]
    if kind == "misread":
        if r != ("ok", exp):
            return [{"signature": sig, "expected": repr(("ok", exp)), "observed": repr(r)}]
        return []
    ref = run_doc(case["input"], [case["objnum"]], 4096)[0]
    if r != ref:
        return [{"signature": sig, "expected": repr(ref), "observed": repr(r)}]
    return []
