"""C02 -- cross-reference resolution: newest definition wins, in every physical form.

Shape A over revision histories (initial body + incremental updates), every
history written in every physical form by the independent writer
``mc/refs/xrefhist.py`` and opened with the real ``PDFDocument`` under
caching on/off and a set of read-buffer sizes; the answers (``getobj`` for every
defined and some undefined numbers, ``get_objids`` per cross-reference section,
catalog, info) are compared with the dict-per-revision model.

Shape C (damage): two single-revision classic-table seeds; the ``startxref``
operand is replaced by *every* offset 0..len+8 (and non-numeric / missing
operands), and the table is damaged structurally (keyword, subsection header,
one byte deleted from / inserted into an entry); every object must still be
found and ``extract_text`` must give the undamaged text.
"""
from __future__ import annotations

import io
import itertools
import re
import traceback
from typing import Any, Dict, List, Optional, Sequence, Tuple

from mc.core import h64
from mc.pdfgen import N, Ref, Stream, ser
from mc.refs.xrefhist import EOLS, WS, NotExpressible, canon_impl, canon_model, table_bytes, write_history

ID = "C02"
LEVEL = "model_checking"
DEADLINE = {"quick": 1800, "thorough": 4 * 3600}

BUFSIZES = (1, 2, 3, 5, 7, 16, 4096)
MAJOR = (("T", False), ("S", False), ("S", True), ("H", False), ("H", True))
META1 = ("none", "recat", "newroot")

GENMAP = {10: 0, 11: 2, 13: 1, 20: 3}  # generation numbers > 0 from the first revision on ("map" mode)
XFILTERS = (None, "flate", "png")
MODES6 = tuple((xf, gm) for xf in XFILTERS for gm in ("zero", "map"))

BOUNDS = {
    "quick": {
        "users": (10, 11, 13),
        "L2P_logical": 3,
        "L3_subsets": ((10,), (10, 11), (11, 13)),
        "L3_major_dev": 2,
        "L4": False,
        "X_users": (10, 11, 13),
        "X2_modes": ((None, "map"), ("png", "zero"), ("flate", "map")),
        "X3_modes": (("png", "map"), (None, "zero")),
        "X3_major_dev": 1,
        "X4": False,
        "damage_bufsiz": (4096, 7),
    },
    "thorough": {
        "users": (10, 11, 13, 20),
        "L2P_logical": 6,
        "L3_subsets": ((10,), (11,), (13,), (10, 11), (10, 13), (11, 13), (10, 11, 13)),
        "L3_major_dev": 3,
        "L4": True,
        "X_users": (10, 11, 13, 20),
        "X2_modes": MODES6,
        "X3_modes": MODES6,
        "X3_major_dev": 2,
        "X4": True,
        "damage_bufsiz": (4096, 7, 1),
    },
}

META = {
    "rule": (
        "history part: every history of <= 2 revisions over all non-empty define/override subsets of the user object numbers "
        "x {no meta change, catalog redefined, new /Root and /Info numbers} x 5 major physical forms per revision "
        "(table, xref stream, xref stream + object stream, hybrid, hybrid + object stream) x caching {on, off} x BUFSIZ "
        "{1,2,3,5,7,16,4096}; for fixed logical histories the full product of all expressible physical forms "
        "(major form x table EOL {SP LF, CR LF, SP CR} x W {[1 2 1],[1 3 2],[0 2 1]}, plus table/hybrid forms whose trailer dictionary follows the keyword on the same line, `trailer <<` and `trailer<<`) per revision; 3-revision histories over a "
        "subset family with major forms deviating from (table, table, table) in <= L3_major_dev revisions (thorough: all; 4 configurations, 2 for vectors with 3 deviations), "
        "thorough also 4-revision histories with <= 2 deviations. extension families: X1 one revision x stream/hybrid forms x W x xref-stream coding {none, Flate, Flate+Predictor 12} x generations {all 0, >0}; X2 two revisions, every user object defined then each one untouched/defined again/freed x 25 major form pairs x coding/generation modes; X3 (and thorough X4) /Prev chains of 3 (4) revisions over objects 10, 11 mixing definitions, free entries, re-definitions after a free, generations and compressed streams, major forms with <= X3_major_dev (X4: 2) deviations. Every prefix of an enumerated history is itself a member of the "
        "family of shorter histories. WG: the newer of two revisions written with every /W triple in {0,1,2} x {2,3,4} x {0,1,2,4} (zero widths = defaults; inexpressible combinations counted under not_judged) "
        "x 4 stream/hybrid forms x {uncompressed, Flate+Predictor} x 4 define sets (a lone object-stream member has index 0). XV: one cross-reference stream section per /W in {1,2} x {1..4} x {0..4} (x 3 codings) holding every pair of byte-width boundary values (0x7F/0x80 ... 0x7FFFFFFF/0x80000000/0xFFFFFFFF) as type-1 and type-2 entries, "
        "read back with PDFXRefStream.get_pos/get_objids (a document with such offsets would need 2 GiB). REF: objects whose whole value is an indirect reference, direct and as first/middle/last/only "
        "object-stream member, 25 major form pairs. long-history family (both tiers): 50/600/1500/3000 revisions, each update redefining one of three content streams in turn, every 500th adding an object and "
        "redefining the catalog, the last redefining /Info; all tables / all xref streams / alternating table-stream-hybrid; caching on and off; extract_text must show the newest content of every page. damage part: 2 classic-table seeds plus 10 variants of the first seed whose content stream ends in every way (data directly before endstream, data ending in LF/CR/CRLF, blank lines, CR line ends, a single line, EOL LF/CRLF before endstream; /Length exact; quick: the first variant gets every damage kind, the others the operand/keyword/header kinds; thorough: all) x every startxref operand 0..len+8, 8 malformed operands, "
        "misspelt keywords, subsection headers with 1/3/non-numeric fields, every single-byte deletion and 3 single-byte insertions "
        "at every position of every table entry. A case is one document (history x physical form, or seed x damage); non-trivial = "
        "the model has at least one object number whose newest definition is not in the newest section, or any damage. "
        "states = documents materialised (history-tree nodes / damaged files), transitions = (document, caching, BUFSIZ) openings "
        "compared with the model, traces = documents whose every opening was compared."
    ),
    "bound": {k: str(v) for k, v in BOUNDS.items()},
    "assumptions": [
        "a number whose newest cross-reference entry is a free entry (type f / type 0): the statement (most recent revision that *defines* n -> the last defined value) and ISO 7.5.4 (the entry deletes n -> not found) disagree, so the value of that lookup is not judged; judged are: it is one of those two answers, it is the same answer in every physical form and configuration of the logical history, the freeing section does not report n in use, every other lookup is unaffected, and a later re-definition wins",
        "generation numbers follow 7.5.4 (freeing increments, re-definition uses the incremented one; 'map' mode starts with generations 0,2,1,3); indirect references are compared by object number only",
        "cross-reference streams are written uncompressed, FlateDecode, or FlateDecode + /Predictor 12 (PNG Up on every row, /Columns = sum of W); other PNG row filters and LZW are not generated; encryption and /Prev cycles are not generated",
        "well-formed but wrong table offsets are not judged (damage is read as 'section unreadable'); damage to the trailer dictionary/keyword is not generated (the statement names the startxref offset and the cross-reference table)",
        "stream data found by the body scan may carry the end-of-line that precedes 'endstream' (accepted)",
        "between 4 and 50 revisions nothing is explored; the long histories (50..3000 revisions) have one fixed logical shape and 3 physical patterns; the recursion limit is left at its default",
        "BUFSIZ is set on the document's parser instance, so it also governs tokenisation of the body (object streams are parsed with the default size)",
        "the always-cache mutant is unobservable through answers and is not claimed",
    ],
}


# ----------------------------------------------------------------- logical histories
def val(n: int, r: int, gen: int = 0) -> Any:
    k = (n + r) % 4
    if k == 0:
        return n * 100 + r
    if k == 1:
        return b"obj %d rev %d" % (n, r)
    if k == 2:
        return {"K": N("V%d_%d" % (n, r)), "Self": Ref(n, gen), "Arr": [r, n, b"x"]}
    return Stream({"Marker": r}, b"stream data %d %d\nsecond line" % (n, r))


def catalog(r: int) -> Dict[str, Any]:
    return {"Type": N("Catalog"), "Pages": Ref(3), "Rev": r}


def logical_rev(r: int, defs: Sequence[int], meta: str, root: int, info: int, gen: Optional[Dict[int, int]] = None):
    objs: Dict[int, Any] = {n: val(n, r, (gen or {}).get(n, 0)) for n in defs}
    if r == 0:
        objs[1] = catalog(0)
        objs[2] = {"Title": b"rev 0"}
        objs[3] = {"Type": N("Pages"), "Kids": [], "Count": 0}
        root, info = 1, 2
    elif meta == "recat":
        objs[root] = catalog(r)
    elif meta == "newroot":
        root, info = 30 + r, 34 + r
        objs[root] = catalog(r)
        objs[info] = {"Title": b"rev %d" % r}
    return objs, root, info


def phys_valid(r: int, form: str, pack: bool, eol: bytes, W: Tuple[int, int, int], frees: bool = False) -> bool:
    if W[0] == 0 and frees and form == "S":
        return False  # a free entry needs a type field
    if form == "T":
        return not pack and W == WS[0]
    if form == "S" and eol != EOLS[0]:
        return False
    if W[0] == 0:
        # a zero-width type field can only say "type 1": no free entry 0, no compressed entries
        if pack:
            return False
        if form == "S" and r == 0:
            return False
    return True


TRAILER_SEPS = (b" ", b"")  # "trailer <<...>>" and "trailer<<...>>" on one line (default: dictionary on the next line)


def all_phys(r: int, seps: bool = False) -> List[Tuple[Any, ...]]:
    out: List[Tuple[Any, ...]] = []
    for form, pack in MAJOR:
        for eol in EOLS:
            for W in WS:
                if phys_valid(r, form, pack, eol, W):
                    out.append((form, pack, eol, W))
    if seps:
        # table and hybrid forms with the trailer dictionary on the keyword's line
        for form, pack in MAJOR:
            if form in ("T", "H"):
                for sep in TRAILER_SEPS:
                    out.append((form, pack, EOLS[0], WS[0], None, sep))
    return out


def build_history(defs_list, metas, phys, frees_list=None, genmode: str = "zero", values=None):
    """frees_list[r]: numbers whose cross-reference entry in revision r is a free entry.  Generation numbers follow
    7.5.4: freeing n increments its generation, a later definition of n uses the incremented one."""
    revs = []
    root = info = None
    gen: Dict[int, int] = dict(GENMAP) if genmode == "map" else {}
    live: set = set()
    for r, (defs, meta, ph) in enumerate(zip(defs_list, metas, phys)):
        frees = tuple(frees_list[r]) if frees_list else ()
        if any(n not in live for n in frees):
            raise NotExpressible("freeing a number that is not in use")
        newfree = {}
        for n in frees:
            gen[n] = gen.get(n, 0) + 1
            newfree[n] = gen[n]
        objs, root, info = logical_rev(r, defs, meta, root, info, gen)
        for (rr, n), v in (values or {}).items():
            if rr == r and n in objs:
                objs[n] = v  # family-specific value in place of val(n, r)
        live = (live | set(objs)) - set(frees)
        form, pack, eol, W = ph[:4]
        revs.append({"objs": objs, "root": root, "info": info, "form": form, "pack": pack, "eol": eol, "W": W,
                     "xfilter": ph[4] if len(ph) > 4 else None, "trailer_sep": ph[5] if len(ph) > 5 else b"\n", "frees": newfree, "gens": {n: gen.get(n, 0) for n in objs}})
    return revs


def subsets(users: Sequence[int]) -> List[Tuple[int, ...]]:
    out: List[Tuple[int, ...]] = []
    for k in range(1, len(users) + 1):
        out += list(itertools.combinations(users, k))
    return out


# --------------------------------------------------------------------- observation
UNDEFINED_PROBES = (0, 9, 12, 14, 21, 39)


def expectation(model: Dict[str, Any], k: int = -1) -> Dict[str, Any]:
    values = model["values"][k]
    older: Dict[int, List[Any]] = {}
    nrev = len(model["values"]) if k == -1 else k + 1
    for j in range(nrev - 1):
        for n, v in model["values"][j].items():
            c = canon_model(v)
            if c != canon_model(values[n]) and c not in older.setdefault(n, []):
                older[n].append(c)
    size = max(values) + 1
    freed = list(model["freed"][k]) if "freed" in model else []
    return {
        "values": {n: canon_model(v) for n, v in values.items() if n not in freed},
        # numbers whose newest entry is a free entry: value of the newest revision that *defines* them
        "freed": {n: canon_model(values[n]) for n in freed},
        "older": {n: v for n, v in older.items() if v},
        "sections": [(kind, list(nums)) for kind, nums in model["sections"][k]],
        "root": model["root"][k],
        "info": model["info"][k],
        "undefined": [n for n in UNDEFINED_PROBES + (size, size + 7) if n not in values],
    }


def observe(data: bytes, caching: bool, bufsiz: int, nums: Sequence[int]) -> Dict[str, Any]:
    from pdfminer.pdfdocument import PDFDocument, PDFXRef, PDFXRefFallback, PDFXRefStream
    from pdfminer.pdfexceptions import PDFObjectNotFound
    from pdfminer.pdfparser import PDFParser

    parser = PDFParser(io.BytesIO(data))
    parser.BUFSIZ = bufsiz
    obs: Dict[str, Any] = {}
    try:
        doc = PDFDocument(parser, caching=caching)
    except Exception as e:  # noqa
        obs["open_exc"] = exc_name(e)
        return obs
    secs = []
    for x in doc.xrefs:
        kind = "F" if isinstance(x, PDFXRefFallback) else "T" if isinstance(x, PDFXRef) else "S" if isinstance(x, PDFXRefStream) else "?"
        try:
            ids: Any = sorted(set(x.get_objids()))
        except Exception as e:  # noqa
            ids = ("EXC", type(e).__name__)
        secs.append((kind, ids))
    obs["sections"] = secs
    obs["catalog"] = canon_impl(doc.catalog)
    obs["info"] = [canon_impl(i) for i in doc.info]

    def get(n):
        try:
            return canon_impl(doc.getobj(n))
        except PDFObjectNotFound:
            return ("NF",)
        except Exception as e:  # noqa
            tb = traceback.extract_tb(e.__traceback__)
            return ("EXC", f"{type(e).__name__}@{tb[-1].name}")

    first = {n: get(n) for n in nums}
    second = {n: get(n) for n in reversed(list(nums))}
    obs["objs"] = first
    obs["again"] = {n: v for n, v in second.items() if v != first[n]}
    return obs


def judge_history(case: Dict[str, Any], obs: Optional[Dict[str, Any]] = None) -> List[Tuple[str, Any, Any, str]]:
    """Compare one opening with the model.  Returns [(signature, expected, observed, what)]."""
    exp = case["expect"]
    nums = sorted(exp["values"]) + list(exp["undefined"]) + sorted(exp.get("freed", {}))
    if obs is None:
        obs = observe(case["data"], case["caching"], case["bufsiz"], nums)
    tag = case.get("newest_form", "")
    out: List[Tuple[str, Any, Any, str]] = []
    if "open_exc" in obs:
        return [(f"C02/open:{obs['open_exc']}", "document opens", obs["open_exc"], "exception while loading the cross-reference chain")]
    # -- sections (xref chain newest first, in-use numbers per section)
    esecs = [(k, list(v)) for k, v in exp["sections"]]
    osecs = [(k, list(v) if not isinstance(v, tuple) else v) for k, v in obs["sections"]]
    if [k for k, _ in esecs] != [k for k, _ in osecs]:
        kinds = "".join(k for k, _ in osecs)
        sig = "C02/fallback-used" if "F" in kinds else "C02/xref-chain-shape"
        out.append((sig, [k for k, _ in esecs], [k for k, _ in osecs], "cross-reference sections loaded differ from the sections written (newest first)"))
    else:
        for i, ((k, e), (_, o)) in enumerate(zip(esecs, osecs)):
            if e != o:
                multi = k == "S" and len(_runs(e)) > 1
                sig = "C02/objids-xrefstream-multirange" if multi else f"C02/objids-section:{k}"
                out.append((sig, e, o, f"get_objids() of section {i} ({k}) is not the set of in-use numbers it lists"))
                break
    eunion = sorted(set(n for _, v in esecs for n in v))
    if all(not isinstance(v, tuple) for _, v in osecs):
        ounion = sorted(set(n for _, v in osecs for n in v))
        if ounion != eunion and not out:
            out.append(("C02/objids-union", eunion, ounion, "union of get_objids() is not the set of defined numbers"))
    # -- catalog / info
    ecat = exp["values"][exp["root"]]
    if obs["catalog"] != ecat:
        cats = [n for n in exp["values"] if n == 1 or 30 <= n < 34]
        stale = any(obs["catalog"] == v for n in cats for v in [exp["values"][n]] + exp["older"].get(n, []))
        out.append((f"C02/catalog-{'stale' if stale else 'wrong'}@{tag}", ecat, obs["catalog"], "catalog is not the newest revision's /Root"))
    einfo = exp["values"][exp["info"]]
    oinfo = obs["info"][0] if obs["info"] else None
    if oinfo != einfo:
        out.append((f"C02/info-wrong@{tag}", einfo, oinfo, "info[0] is not the newest revision's /Info"))
    # -- objects
    for n in sorted(exp["values"]):
        e, o = exp["values"][n], obs["objs"][n]
        if o == e:
            continue
        if o in exp["older"].get(n, []):
            sig = f"C02/getobj-stale@{case.get('def_form', {}).get(n, tag)}"
            what = f"getobj({n}) returns an older revision's value"
        elif o == ("NF",):
            sig = f"C02/getobj-notfound@{case.get('def_form', {}).get(n, tag)}"
            what = f"getobj({n}) raises PDFObjectNotFound for a defined object"
        elif isinstance(o, tuple) and o and o[0] == "EXC":
            sig = f"C02/getobj-exception:{o[1]}"
            what = f"getobj({n}) raises"
        else:
            sig = f"C02/getobj-wrong@{case.get('def_form', {}).get(n, tag)}"
            what = f"getobj({n}) returns a value that was never written for {n}"
        out.append((sig, e, o, what))
        break
    for n in exp["undefined"]:
        o = obs["objs"][n]
        if o != ("NF",):
            out.append(("C02/getobj-undefined-resolves", ("NF",), o, f"getobj({n}) answers for a number no revision defines"))
            break
    for n, old in sorted(exp.get("freed", {}).items()):
        # Not decided by the statement: "the most recent revision that defines n" (the older value) vs 7.5.4 (the free
        # entry deletes n -> not found).  Either is accepted; anything else (another object's value, an exception) is not.
        o = obs["objs"][n]
        if o != old and o != ("NF",):
            out.append((f"C02/freed-object-unexpected-answer@{tag}", [old, ("NF",)], o,
                        f"getobj({n}) of a number whose newest entry is free is neither its last defined value nor 'not found'"))
            break
    if obs["again"]:
        n = sorted(obs["again"])[0]
        out.append((f"C02/getobj-not-repeatable:caching={case['caching']}", obs["objs"][n], obs["again"][n], f"second getobj({n}) differs from the first"))
    return out


def _runs(nums):
    runs = []
    for n in nums:
        if runs and runs[-1][-1] == n - 1:
            runs[-1].append(n)
        else:
            runs.append([n])
    return runs


def answers_key(obs: Dict[str, Any], logical_nums: Sequence[int]) -> Any:
    if "open_exc" in obs:
        return ("open_exc", obs["open_exc"])
    return (tuple((n, obs["objs"].get(n)) for n in logical_nums), obs["catalog"], tuple(obs["info"][:1]))


def form_tag(ph) -> str:
    form, pack = ph[0], ph[1]
    xf = ph[4] if len(ph) > 4 else None
    return form + ("+o" if pack else "") + (f"~{xf}" if xf and form != "T" else "")


def freed_kinds(obs: Dict[str, Any], exp: Dict[str, Any]) -> Any:
    if "open_exc" in obs:
        return None
    return tuple((n, "notfound" if obs["objs"][n] == ("NF",) else "last-defined" if obs["objs"][n] == old else "other")
                 for n, old in sorted(exp.get("freed", {}).items()))


def check_document(st, defs_list, metas, phys, configs, diff: Dict[Any, Any], sample: bool = False,
                   frees_list=None, genmode: str = "zero", values=None) -> None:
    assert configs[0] == REF_CONFIG
    try:
        revs = build_history(defs_list, metas, phys, frees_list, genmode, values)
        data, model = write_history(revs)
    except NotExpressible:
        st.not_judged["physical form cannot express the revision"] += 1
        return
    exp = expectation(model)
    nums = sorted(exp["values"]) + list(exp["undefined"]) + sorted(exp["freed"])
    newest_section = set(model["sections"][-1][0][1])
    nontrivial = any(n not in newest_section for n in exp["values"]) or bool(exp["freed"])
    # which physical form holds the newest definition of each number
    def_form: Dict[int, str] = {}
    for r, rev in enumerate(revs):
        for n in model["offsets"][r]:
            def_form[n] = form_tag(phys[r])
    desc = {"defs": [list(d) for d in defs_list], "metas": list(metas), "phys": [[p[0], p[1], p[2], list(p[3])] + list(p[4:]) for p in phys],
            "frees": [list(f) for f in frees_list] if frees_list else None, "generations": genmode}
    logical = (tuple(map(tuple, defs_list)), tuple(metas), tuple(map(tuple, frees_list or ())), genmode)
    logical_nums = [n for n in sorted(exp["values"]) if n < 40]
    st.states += 1
    first_obs = None
    ref_ok = True
    for caching, bufsiz in configs:
        obs = observe(data, caching, bufsiz, nums)
        st.transitions += 1
        case = {
            "part": "history", "data": data, "caching": caching, "bufsiz": bufsiz, "expect": exp,
            "newest_form": form_tag(phys[-1]), "def_form": def_form, "desc": desc,
        }
        res = judge_history(case, obs)
        if first_obs is None:
            first_obs = obs
            ref_ok = not res
        for sig, e, o, what in res:
            st.violation(with_prefix(config_prefix(ref_ok, caching, bufsiz), sig), case, e, o, what)
        # form-vs-form and config-vs-config agreement: every opening is compared with the same model value, so two
        # openings that both pass necessarily agree; the logical answers are hashed into the outcome below.
        # The one answer the model leaves open (a freed number) is compared between openings explicitly.
        if exp["freed"] and not res:
            kinds = freed_kinds(obs, exp)
            st.not_judged["value of getobj(n) for a number whose newest entry is free (last defined value or not found)"] += len(exp["freed"])
            for k in kinds:
                st.add("freed_lookup_" + k[1], 1)
            if logical not in diff:
                diff[logical] = (kinds, {"data": data, "caching": caching, "bufsiz": bufsiz, "form": [form_tag(p) for p in phys]})
            elif diff[logical][0] != kinds:
                other = diff[logical][1]
                same_doc = other["data"] == data
                sig = "C02/freed-object-config-dependent" if same_doc else "C02/freed-object-form-dependent"
                st.violation(sig, {**case, "other": other}, diff[logical][0], kinds,
                             "the lookup of a freed number answers differently in two physical forms / configurations of one logical history")
    st.traces += 1
    st.case(None, nontrivial=nontrivial, outcome=h64(answers_key(first_obs, logical_nums), tuple(k for k, _ in first_obs.get("sections", [])), freed_kinds(first_obs, exp)))
    st.add("openings", len(configs))
    if sample:
        st.sample({"desc": desc, "bytes": len(data), "data_head": data[:160], "objects": len(exp["values"]), "sections": exp["sections"]})


# --------------------------------------------------------------------------- damage
_L1 = b"BT /F1 12 Tf 40 120 Td (Hello C02) Tj"
_L2 = b"0 -16 Td (second line) Tj"
_L3 = b"0 -16 Td (last shown) Tj ET"
# (content stream data, bytes between the data and the keyword 'endstream'); /Length is always exact
STREAM_VARIANTS = (
    (_L1 + b"\n" + _L2 + b"\n" + _L3, b""),  # data directly followed by endstream
    (_L1 + b"\n" + _L2 + b"\n" + _L3 + b"\n", b""),  # data ends in LF, no further EOL
    (_L1 + b"\n" + _L2 + b"\n" + _L3 + b"\r", b""),  # data ends in CR
    (_L1 + b"\n" + _L2 + b"\n" + _L3 + b"\r\n", b""),  # data ends in CR LF
    (_L1 + b"\n\n" + _L2 + b"\r\n\r\n" + _L3, b""),  # blank lines inside
    (_L1 + b"\r" + _L2 + b"\r" + _L3, b""),  # CR line ends inside
    (b"BT /F1 12 Tf 40 120 Td (Hello C02) Tj (only line) Tj ET", b""),  # one line, no EOL at all
    (_L1 + b"\n" + _L2 + b"\n" + _L3, b"\n"),  # conventional: EOL before endstream
    (_L1 + b"\n" + _L2 + b"\n" + _L3 + b"\r", b"\n"),  # data ends in CR, then LF before endstream
    (_L1 + b"\n" + _L2 + b"\n" + _L3, b"\r\n"),  # CR LF before endstream
)
FIRST_VARIANT_SEED = 2  # seeds 2.. are seed 0 with content stream variant (which - 2)
REDUCED_KINDS = ("sx-operand", "tbl-keyword", "tbl-header")


def seed_ids(tier: str):
    """(seed, damage kinds).  Quick: the two base seeds and the first variant get every damage kind, the other
    stream-ending variants the kinds that need no per-byte sweep; thorough: everything for every seed."""
    out = [(0, DAMAGE_KINDS), (1, DAMAGE_KINDS)]
    for v in range(len(STREAM_VARIANTS)):
        full = tier == "thorough" or v == 0
        out.append((FIRST_VARIANT_SEED + v, DAMAGE_KINDS if full else REDUCED_KINDS))
    return out


def seed_doc(which: int):
    """Single-revision classic-table seeds.  Returns (data, layout)."""
    out = bytearray(b"%PDF-1.4\n%\xe2\xe3\xcf\xd3\n")
    variant = None
    if which >= FIRST_VARIANT_SEED:
        variant = STREAM_VARIANTS[which - FIRST_VARIANT_SEED]
        which = 0
    if which == 0:
        eol, nl = b" \n", b"\n"
        objs = {
            1: {"Type": N("Catalog"), "Pages": Ref(2)},
            2: {"Type": N("Pages"), "Kids": [Ref(3)], "Count": 1},
            3: {"Type": N("Page"), "Parent": Ref(2), "MediaBox": [0, 0, 300, 200], "Resources": {"Font": {"F1": Ref(5)}}, "Contents": Ref(4)},
            4: Stream({}, b"BT /F1 12 Tf 40 120 Td (Hello C02) Tj ET"),
            5: {"Type": N("Font"), "Subtype": N("Type1"), "BaseFont": N("Helvetica")},
        }
        if variant is not None:
            objs[4] = Stream({}, variant[0], eol_before=variant[1])
        order = [1, 2, 3, 4, 5]
        tr = {"Size": 6, "Root": Ref(1)}
    else:
        eol, nl = b"\r\n", b"\r\n"
        objs = {
            1: {"Type": N("Catalog"), "Pages": Ref(2)},
            2: {"Type": N("Pages"), "Kids": [Ref(3), Ref(7)], "Count": 2, "MediaBox": [0, 0, 300, 200], "Resources": {"Font": {"F1": Ref(9)}}},
            3: {"Type": N("Page"), "Parent": Ref(2), "Contents": Ref(4)},
            4: Stream({}, b"BT /F1 12 Tf 40 120 Td (first page) Tj ET\n"),
            7: {"Type": N("Page"), "Parent": Ref(2), "Contents": Ref(8)},
            8: Stream({}, b"BT /F1 10 Tf 1 0 0 1 30 50 Tm (second) Tj 0 -14 Td (page xref) Tj ET"),
            9: {"Type": N("Font"), "Subtype": N("Type1"), "BaseFont": N("Courier")},
            12: {"Title": b"seed two", "Producer": b"verif"},
        }
        order = [9, 1, 12, 4, 2, 3, 8, 7]
        tr = {"Size": 13, "Root": Ref(1), "Info": Ref(12)}
    offs: Dict[int, int] = {}
    values: Dict[int, Any] = {}
    for n in order:
        v = objs[n]
        if isinstance(v, Stream):
            d = dict(v.d)
            d["Length"] = len(v.data)
            v = Stream(d, v.data, eol_before=v.eol_before)
        values[n] = v
        offs[n] = len(out)
        if which == 0:
            out += b"%d 0 obj\n" % n + ser(v) + b"\nendobj\n"
        else:
            # value on the header line: "n 0 obj <<...>>" and, for every second object, "n 0 obj<<...>>"
            out += b"%d 0 obj" % n + (b" " if order.index(n) % 2 == 0 else b"") + ser(v).replace(b"\nstream\n", b"\r\nstream\r\n") + b"\r\nendobj\r\n"
    xpos = len(out)
    table = table_bytes(offs, [0], eol)
    if which == 1:
        table = table.replace(b"xref\n", b"xref\r\n", 1)
        table = re.sub(rb"(?m)^(\d+ \d+)\n", rb"\1\r\n", table)
    out += table
    tpos = len(out)
    out += b"trailer" + nl + ser(tr) + nl
    sxpos = len(out)
    out += b"startxref" + nl + b"%d" % xpos + nl + b"%%EOF" + nl
    layout = {"xref": xpos, "table_end": tpos, "startxref": sxpos, "nl": nl, "values": values, "len": len(out)}
    return bytes(out), layout


def with_operand(data: bytes, lay: Dict[str, Any], operand: Optional[bytes]) -> bytes:
    nl = lay["nl"]
    head = data[: lay["startxref"]]
    if operand is None:
        return head + b"startxref" + nl + b"%%EOF" + nl
    return head + b"startxref" + nl + operand + nl + b"%%EOF" + nl


LINE_SPLIT = re.compile(rb"\r\n|\r|\n")


def table_reading(tbl: bytes):
    """Tolerant reading of a classic table section: keyword ``xref``, subsection headers of two integers, entries of
    three white-space separated fields ``digits digits n|f`` (any EOL), ended by a line that starts with ``trailer``.
    ``tbl`` runs from the section start to the end of the file.  Returns (entries, None) or (None, defect)."""
    lines = [ln.strip() for ln in LINE_SPLIT.split(tbl)]
    lines = [ln for ln in lines if ln]
    if not lines or lines[0] != b"xref":
        return None, "keyword"
    i = 1
    ents: List[Tuple[int, int, bytes]] = []
    while True:
        if i >= len(lines):
            return None, "no-trailer"
        if lines[i].startswith(b"trailer"):
            break
        f = lines[i].split()
        if len(f) != 2 or not all(x.isdigit() for x in f):
            return None, "header"
        start, cnt = int(f[0]), int(f[1])
        i += 1
        for k in range(cnt):
            if i >= len(lines):
                return None, "entry-count"
            g = lines[i].split()
            if len(g) != 3:
                return None, "entry-fields"
            if not g[0].isdigit() or not g[1].isdigit():
                return None, "entry-nonint"
            if g[2] not in (b"n", b"f"):
                return None, "entry-type"
            ents.append((start + k, int(g[0]), g[2]))
            i += 1
    return ents, None


def offset_region(v: int, lay: Dict[str, Any]) -> str:
    if v < lay["xref"]:
        return "body"
    if v < lay["table_end"]:
        return "table"
    if v < lay["startxref"]:
        return "trailer"
    if v < lay["len"]:
        return "startxref-section"
    return "beyond-eof"


def damages(which: int, kind: str):
    """Yield (label, damage class, damaged_bytes, judged) for one damage kind of one seed."""
    data, lay = seed_doc(which)
    if kind == "sx-offset":
        for v in range(0, lay["len"] + 9):
            yield (f"startxref={v}", "startxref:" + offset_region(v, lay), with_operand(data, lay, b"%d" % v), True)
        return
    if kind == "sx-operand":
        for op, cls in ((None, "missing"), (b"", "empty"), (b"abc", "nondigit"), (b"-1", "nondigit"), (b"12a", "nondigit"),
                        (b"1.5", "nondigit"), (b"+7", "nondigit"), (b"0x10", "nondigit"), (b"99999999999999999999", "huge"),
                        (b"%d" % (2**63 - 1), "huge"), (b"%d" % 2**63, "huge"), (b"00000000000000000000017", "body")):
            yield (f"startxref operand {op!r}", "startxref:operand-" + cls, with_operand(data, lay, op), True)
        return
    tbl = data[lay["xref"] : lay["table_end"]]
    rest = data[lay["table_end"] :]
    base, _ = table_reading(tbl + rest)
    assert base is not None

    def emit(label, newtbl):
        r, defect = table_reading(newtbl + rest)
        if r is None:
            judged, cls = True, "table:" + defect  # unreadable: the body scan must recover everything
        elif r == base:
            judged, cls = True, "table:harmless"  # reads the same: must behave as the undamaged file
        else:
            judged, cls = False, "table:wellformed-different"  # not judged
        return (label, cls, data[: lay["xref"]] + newtbl + data[lay["table_end"] :], judged)

    if kind == "tbl-keyword":
        for kw in (b"xreg", b"Xref", b"xre", b"xreff", b"x ref", b""):
            yield emit(f"xref keyword {kw!r}", kw + tbl[4:])
        return
    lines = [(m.start(), m.end(), m.group(0)) for m in re.finditer(rb"[^\r\n]*(?:\r\n|\r|\n)", tbl)]
    headers = [(s, e, ln) for s, e, ln in lines[1:] if len(ln.split()) == 2]
    entries = [(s, e, ln) for s, e, ln in lines[1:] if len(ln.split()) == 3]
    assert all(len(ln) == 20 for _, _, ln in entries) and len(entries) == len(base)
    if kind == "tbl-header":
        for hi, (s, e, ln) in enumerate(headers):
            a, b = ln.split()
            eolb = ln[len(ln.rstrip(b"\r\n")) :]
            for new in (a, a + b" " + b + b" 1", b"a " + b, a + b" x", a + b"," + b, b""):
                yield emit(f"subsection header {hi} -> {new!r}", tbl[:s] + new + eolb + tbl[e:])
        return
    if kind == "tbl-entry-del":
        for ei, (s, e, ln) in enumerate(entries):
            for p in range(len(ln)):
                yield emit(f"entry {ei} byte {p} deleted", tbl[: s + p] + tbl[s + p + 1 :])
        return
    if kind == "tbl-entry-ins":
        # positions 0..19: inside the 20-byte entry (position 20 is position 0 of the following line)
        for ei, (s, e, ln) in enumerate(entries):
            for p in range(len(ln)):
                for ch in (b"0", b" ", b"x"):
                    yield emit(f"entry {ei} byte {ch!r} inserted at {p}", tbl[: s + p] + ch + tbl[s + p :])
        return
    raise ValueError(kind)


DAMAGE_KINDS = ("sx-offset", "sx-operand", "tbl-keyword", "tbl-header", "tbl-entry-del", "tbl-entry-ins")
_REFTEXT: Dict[int, str] = {}


def extract(data: bytes, bufsiz: int):
    from pdfminer.high_level import extract_text
    from pdfminer.psparser import PSBaseParser

    old = PSBaseParser.BUFSIZ
    try:
        if bufsiz != 4096:
            PSBaseParser.BUFSIZ = bufsiz
        try:
            return extract_text(io.BytesIO(data))
        except Exception as e:  # noqa
            return ("EXC", exc_name(e))
    finally:
        PSBaseParser.BUFSIZ = old


def ref_text(which: int) -> str:
    if which not in _REFTEXT:
        data, lay = seed_doc(which)
        t = extract(data, 4096)
        if which == 0:
            words: Tuple[str, ...] = ("Hello C02",)
        elif which == 1:
            words = ("first page", "second", "page xref")
        elif which - FIRST_VARIANT_SEED == 6:
            words = ("Hello C02", "only line")
        else:
            words = ("Hello C02", "second line", "last shown")
        assert isinstance(t, str) and all(w in t for w in words), t
        # the undamaged file must read back exactly what was written (no tolerance): the model *is* the intact file
        exp = {n: canon_model(v) for n, v in lay["values"].items()}
        obs = observe(data, True, 4096, sorted(exp))
        assert obs.get("objs") == exp, (which, obs)
        _REFTEXT[which] = t
    return _REFTEXT[which]


def stream_tolerant_equal(e: Any, o: Any) -> bool:
    """Equality, except that a stream found by scanning may keep the EOL before 'endstream'."""
    if e == o:
        return True
    if isinstance(e, tuple) and isinstance(o, tuple) and e and o and e[0] == "S" and o[0] == "S" and e[1] == o[1]:
        return isinstance(o[2], bytes) and o[2] in (e[2] + b"\n", e[2] + b"\r\n", e[2] + b"\r")
    return False


def damage_cause(case: Dict[str, Any], obs: Dict[str, Any]) -> str:
    """Signature = what was damaged (class from the layout model) + how the reader went wrong."""
    fam, cls = case["cls"].split(":", 1)
    if "open_exc" in obs:
        if obs["open_exc"] == "PDFSyntaxError@__init__" and not any(
            ln.startswith(b"trailer") for ln in LINE_SPLIT.split(case["data"])
        ):
            return f"C02/damage-{fam}:fallback-needs-trailer-at-line-start"
        return f"C02/damage-{fam}:open:{obs['open_exc']}"
    kinds = "".join(k for k, _ in obs.get("sections", []))
    if "F" not in kinds:
        # the damaged section was accepted as if it were intact
        return f"C02/damage-{fam}:{cls}-accepted:sections={kinds}"
    return f"C02/damage-{fam}:{cls}:fallback-incomplete"


def judge_damage(case: Dict[str, Any]) -> List[Tuple[str, Any, Any, str]]:
    exp = case["expect_objs"]
    nums = sorted(exp)
    obs = observe(case["data"], True, case["bufsiz"], nums)
    text = extract(case["data"], case["bufsiz"])
    bad = None
    if "open_exc" in obs:
        bad = ("document opens and every object is found", obs["open_exc"])
    else:
        for n in nums:
            if not stream_tolerant_equal(exp[n], obs["objs"][n]):
                bad = ({n: exp[n]}, {n: obs["objs"][n]})
                break
    out = []
    cause = damage_cause(case, obs)
    if bad is not None and isinstance(bad[0], dict) and cause.endswith(":fallback-incomplete"):
        (n, e), o = next(iter(bad[0].items())), next(iter(bad[1].values()))
        if (isinstance(e, tuple) and isinstance(o, tuple) and e[:1] == ("S",) and o[:1] == ("S",) and isinstance(o[2], bytes)
                and len(o[2]) < len(e[2]) and e[2].startswith(o[2])):
            # the body scan found the stream but lost the tail of its data: one cause whatever the damage was
            cause = "C02/damage:fallback-stream-data-truncated"
    if bad is not None:
        out.append((cause, bad[0], bad[1], f"{case['label']}: not every object is found after damage"))
    if text != case["expect_text"]:
        sig = cause + ("" if bad is not None else ":text")
        if bad is None:
            out.append((sig, case["expect_text"], text, f"{case['label']}: extracted text differs from the undamaged file's"))
        else:
            out[0] = (out[0][0], {"objects": out[0][1], "text": case["expect_text"]}, {"objects": out[0][2], "text": text}, out[0][3])
    case["_obs_kinds"] = "".join(k for k, _ in obs.get("sections", [])) if "open_exc" not in obs else "exc"
    return out


def run_damage(st, which: int, kind: str, tier: str, lo: int = 0, hi: Optional[int] = None) -> None:
    data0, lay = seed_doc(which)
    exp = {n: canon_model(v) for n, v in lay["values"].items()}
    rt = ref_text(which)
    for i, (label, cls, data, judged) in enumerate(damages(which, kind)):
        if i < lo or (hi is not None and i >= hi):
            continue
        if not judged:
            st.not_judged["table still well-formed but with different offsets"] += 1
            continue
        st.states += 1
        kinds = set()
        for bufsiz in BOUNDS[tier]["damage_bufsiz"]:
            case = {"part": "damage", "seed": which, "label": label, "cls": cls, "data": data, "bufsiz": bufsiz, "expect_objs": exp, "expect_text": rt}
            res = judge_damage(case)
            kinds.add(case.pop("_obs_kinds"))
            st.transitions += 1
            for sig, e, o, what in res:
                st.violation(sig, case, e, o, what)
        st.traces += 1
        st.case(None, nontrivial=True, outcome=("damage", cls, tuple(sorted(kinds))))
        if i == lo and lo == 0 and kind in ("sx-offset", "tbl-entry-del"):
            st.sample({"seed": which, "damage": label, "bytes": len(data), "tail": data[-60:]})


# ------------------------------------------------------------------- long histories
LONG_REVISIONS = (50, 600, 1500, 3000)
LONG_FORMS = ("tables", "streams", "alternating")
LONG_CYCLE = (10, 11, 13)  # content streams of the three pages; revision r redefines LONG_CYCLE[r % 3]
LONG_W = (1, 3, 2)  # offsets beyond 64 kB


def long_revs(nrev: int, formmode: str):
    """Initial body + nrev-1 incremental updates (plain loop).  Revision r > 0 redefines one of the three content
    streams; every 500th revision also adds a new object and redefines the catalog; the last one redefines /Info."""

    def content(r):
        return Stream({}, b"BT /F1 9 Tf 20 20 Td (r%d) Tj ET" % r)

    revs = []
    for r in range(nrev):
        objs: Dict[int, Any] = {}
        if r == 0:
            objs[1] = catalog(0)
            objs[2] = {"Title": b"rev 0"}
            objs[3] = {"Type": N("Pages"), "Kids": [Ref(5), Ref(7), Ref(9)], "Count": 3, "MediaBox": [0, 0, 100, 60],
                       "Resources": {"Font": {"F1": Ref(4)}}}
            objs[4] = {"Type": N("Font"), "Subtype": N("Type1"), "BaseFont": N("Helvetica")}
            for page, c in zip((5, 7, 9), LONG_CYCLE):
                objs[page] = {"Type": N("Page"), "Parent": Ref(3), "Contents": Ref(c)}
                objs[c] = content(0)
        else:
            objs[LONG_CYCLE[r % 3]] = content(r)
            if r % 500 == 0:
                objs[20 + r // 500 - 1] = {"AddedIn": r, "K": N("New%d" % r)}
                objs[1] = catalog(r)
        if r == nrev - 1 and r:
            objs[2] = {"Title": b"rev %d" % r}
        if formmode == "tables":
            form = "T"
        elif formmode == "streams":
            form = "S"
        else:
            form = "TSH"[(r + r // 3) % 3]
        revs.append({"objs": objs, "root": 1, "info": 2, "form": form, "pack": False, "eol": EOLS[0], "W": LONG_W})
    return revs


def long_expected_text(nrev: int) -> List[str]:
    newest = {}
    for r in range(nrev):
        for c in (LONG_CYCLE if r == 0 else (LONG_CYCLE[r % 3],)):
            newest[c] = r
    return ["r%d" % newest[c] for c in LONG_CYCLE]


def recursion_site(e: BaseException) -> str:
    """The pdfminer function that recurses: most frequent among the innermost pdfminer frames."""
    import collections

    names = [f.name for f in traceback.extract_tb(e.__traceback__) if "/pdfminer/" in f.filename.replace("\\", "/")]
    return collections.Counter(names[-80:]).most_common(1)[0][0] if names else "?"


def exc_name(e: BaseException) -> str:
    if isinstance(e, RecursionError):
        return f"RecursionError@{recursion_site(e)}"
    tb = traceback.extract_tb(e.__traceback__)
    return f"{type(e).__name__}@{tb[-1].name}"


def long_sig(sig: str) -> str:
    rest = sig[len("C02/") :]
    if rest.startswith("open:RecursionError@"):
        rest = rest[len("open:") :]
    return "C02/long-history:" + rest


def judge_long(case: Dict[str, Any]) -> List[Tuple[str, Any, Any, str]]:
    nrev, formmode = case["params"]
    data = case["data"]
    revs = long_revs(nrev, formmode)
    data2, model = write_history(revs, every_prefix=False)
    exp = expectation(model)
    # probes: every logical object, and the container objects of the first, last and every 500th revision
    containers = sorted(n for n in exp["values"] if n >= 40)
    probe = [n for n in exp["values"] if n < 40] + containers[:2] + containers[-2:] + [n for n in containers if ((n - 40) // 2) % 500 == 0]
    exp["values"] = {n: exp["values"][n] for n in sorted(set(probe))}
    tag = f"{nrev} revisions, {formmode}"
    out: List[Tuple[str, Any, Any, str]] = []
    stats = case.setdefault("_stats", {})
    for caching in (True, False):
        c = {"part": "history", "data": data, "caching": caching, "bufsiz": 4096, "expect": exp, "newest_form": formmode, "def_form": {}}
        res = judge_history(c)
        stats[f"caching={caching}"] = res[0][0] if res else "ok"
        for sig, e, o, what in res:
            sig = long_sig(sig)
            if not any(x[0] == sig for x in out):
                # keep the artefact small: the section lists of thousands of revisions are summarised
                if isinstance(e, list) and len(e) > 12:
                    e, o = {"sections": len(e)}, {"sections": len(o) if isinstance(o, list) else o}
                out.append((sig, e, o, f"{tag}, caching={caching}: {what}"))
    text = extract(data, 4096)
    etext = long_expected_text(nrev)
    if isinstance(text, tuple):
        sig = "C02/long-history:" + (text[1] if text[1].startswith("RecursionError@") else "extract_text:" + text[1])
        stats["extract_text"] = sig
        if not any(x[0] == sig for x in out):
            out.append((sig, etext, text[1], f"{tag}: extract_text raised"))
    else:
        labels = [chunk.strip() for chunk in text.split("\x0c")[:-1]]
        stats["extract_text"] = "ok" if labels == etext else "text"
        if labels != etext:
            out.append(("C02/long-history:text-not-newest", etext, labels, f"{tag}: the pages do not show the content written by the newest revision that defines it"))
    return out


def fam_long(st, tier, nrev, formmode):
    revs = long_revs(nrev, formmode)
    data, model = write_history(revs, every_prefix=False)
    case = {"part": "long", "params": (nrev, formmode), "data": data}
    res = judge_long(case)
    stats = case.pop("_stats", {})
    for sig, e, o, what in res:
        st.violation(sig, case, e, o, what)
    st.case(None, nontrivial=True, outcome=("long", nrev, formmode, tuple(sorted(stats.items()))))
    st.states += nrev
    st.transitions += 2 * nrev
    st.traces += 1
    st.add("openings", 2)
    st.add("long_history_revisions", nrev)
    if nrev == 600:
        st.sample({"long_history": True, "revisions": nrev, "forms": formmode, "bytes": len(data), "sections": len(model["sections"][-1]),
                   "expected_text": long_expected_text(nrev), "results": stats})


# ---------------------------------------------------------------------------- shards
REF_CONFIG = (True, 4096)


def configs_full():
    return [REF_CONFIG] + [(c, b) for c in (True, False) for b in BUFSIZES if (c, b) != REF_CONFIG]


def config_prefix(ref_ok: bool, caching: bool, bufsiz: int) -> str:
    """A failure that the reference configuration (caching on, BUFSIZ 4096) does not show is a configuration dependence."""
    if not ref_ok or (caching, bufsiz) == REF_CONFIG:
        return ""
    if bufsiz != REF_CONFIG[1]:
        return "C02/bufsiz-dependent:"
    return "C02/caching-dependent:"


def with_prefix(pre: str, sig: str) -> str:
    return pre + sig[len("C02/") :] if pre else sig


CONFIGS_SMALL = [(True, 4096), (False, 4096), (True, 3), (False, 1)]


def major_phys(m):
    return (m[0], m[1], EOLS[0], WS[0])


def l2p_logicals(users):
    u = tuple(users)
    base = [
        ((u, u), ("none", "recat")),
        (((u[0], u[2]), (u[1],)), ("none", "newroot")),
        ((u, (u[0], u[2])), ("none", "none")),
        (((u[1],), u), ("none", "recat")),
        ((u[:2], u[1:]), ("none", "newroot")),
        (((u[0],), (u[0],)), ("none", "none")),
    ]
    return base


def shards(tier):
    b = BOUNDS[tier]
    subs = subsets(b["users"])
    out: List[Any] = []
    out += [("L1", i) for i in range(len(subs))]
    out += [("L2", i, j, m) for i in range(len(subs)) for j in range(len(subs)) for m in range(len(META1))]
    for li in range(b["L2P_logical"]):
        for pi in range(len(all_phys(0))):
            out.append(("L2P", li, pi))
    s3 = b["L3_subsets"]
    out += [("L3", i, j, k) for i in range(len(s3)) for j in range(len(s3)) for k in range(len(s3))]
    if b["L4"]:
        s4 = BOUNDS["quick"]["L3_subsets"]
        out += [("L4", i, j, k, l) for i in range(len(s4)) for j in range(len(s4)) for k in range(len(s4)) for l in range(len(s4))]
    xu = b["X_users"]
    out += [("X1", i) for i in range(len(subsets(xu)))]
    out += [("X2", i) for i in range(sum(1 for _ in state_vectors(xu)))]
    v2 = list(state_vectors((10, 11)))
    out += [("X3", i, j) for i in range(len(v2)) for j in range(len(v2))]
    if b["X4"]:
        v4 = [v for v in state_vectors((10, 11)) if v[1] != "f"]
        out += [("X4", i, j, k) for i in range(len(v4)) for j in range(len(v4)) for k in range(len(v4))]
    out += [("WG", i) for i in range(len(W_GRID))]
    out += [("REF", i) for i in range(len(REF_POSITIONS))]
    out += [("XV", i) for i in range(len(FIELD_WIDTHS))]
    out += [("LONG", nrev, fm) for nrev in LONG_REVISIONS for fm in LONG_FORMS]
    for which, kinds in seed_ids(tier):
        n = seed_doc(which)[1]["len"] + 9
        step = 40
        if "sx-offset" in kinds:
            out += [("DMG", which, "sx-offset", lo, min(lo + step, n)) for lo in range(0, n, step)]
        for kind in kinds:
            if kind == "sx-offset":
                continue
            if kind.startswith("tbl-entry"):
                total = sum(1 for _ in damages(which, kind))
                out += [("DMG", which, kind, lo, min(lo + 60, total)) for lo in range(0, total, 60)]
            else:
                out.append(("DMG", which, kind, 0, None))
    return out


def state_vectors(users: Sequence[int], states: str = "udf"):
    """per user object one of u(ntouched) d(efined again) f(reed); the all-untouched vector is left out"""
    for vec in itertools.product(states, repeat=len(users)):
        if any(c != "u" for c in vec):
            yield vec


def split_vector(users, vec):
    return tuple(n for n, c in zip(users, vec) if c == "d"), tuple(n for n, c in zip(users, vec) if c == "f")


def phys5(m, xf, W=WS[0], eol=EOLS[0]):
    return (m[0], m[1], eol, W, xf)


W_GRID = tuple((a, b, c) for a in (0, 1, 2) for b in (2, 3, 4) for c in (0, 1, 2, 4))


def fam_wgrid(st, tier, W, diff):
    """every /W triple (type width 0..2, second field 2..4, third field 0, 1, 2, 4; a zero width means the default:
    type 1 / value 0) on the newer revision of a two-revision history, for stream and hybrid forms with and without an
    object stream, one or three redefined objects (a lone member has index 0, the only index W[2]=0 can express)"""
    users = BOUNDS[tier]["X_users"][:3]
    for d1 in ((users[1],), (users[2],), (users[0],), tuple(users)):
        for m0 in (MAJOR[0], MAJOR[2]):
            for m1 in MAJOR[1:]:
                for xf in (None, "png"):
                    check_document(st, [tuple(users), d1], ["none", "none"], [phys5(m0, None), phys5(m1, xf, W)],
                                   [CONFIGS_SMALL[0], CONFIGS_SMALL[3]], diff,
                                   sample=(W == (1, 2, 0) and d1 == (users[1],) and m1 == MAJOR[2] and m0 == MAJOR[0] and xf is None))


FIELD_VALUES = (0, 1, 0x7F, 0x80, 0xFF, 0x100, 0x7FFF, 0x8000, 0xFFFF, 0x10000, 0x7FFFFF, 0x800000, 0xFFFFFF, 0x1000000,
                0x7FFFFFFF, 0x80000000, 0xFFFFFFFF)
FIELD_WIDTHS = tuple((a, b, c) for a in (1, 2) for b in (1, 2, 3, 4) for c in (0, 1, 2, 3, 4))


def xv_entries(W):
    """entries numbered 1.. : every pair of boundary values that fits fields 2 and 3, as a type-1 entry (offset,
    generation) and as a type-2 entry (object stream number, index)"""
    f2 = [v for v in FIELD_VALUES if v < 1 << (8 * W[1])]
    f3 = [v for v in FIELD_VALUES if v < 1 << (8 * W[2])] if W[2] else [0]
    ents: Dict[int, Tuple[int, int, int]] = {}
    n = 1
    for t in (1, 2):
        for a in f2:
            for b in f3:
                ents[n] = (t, a, b)
                n += 1
    return ents


def judge_fieldvalues(case: Dict[str, Any]) -> List[Tuple[str, Any, Any, str]]:
    """A cross-reference stream section read on its own: get_pos(n) gives back exactly the field values written,
    for values at every byte-width boundary (a real file would need 2 GiB offsets for the upper ones)."""
    from pdfminer.pdfdocument import PDFXRefStream
    from pdfminer.pdfparser import PDFParser

    class _NoDoc:
        decipher = None

    W = tuple(case["W"])
    ents = xv_entries(W)
    parser = PDFParser(io.BytesIO(case["data"]))
    parser.set_document(_NoDoc())  # type: ignore[arg-type]
    x = PDFXRefStream()
    try:
        x.load(parser)
    except Exception as e:  # noqa
        return [(f"C02/xref-stream-fields:load:{exc_name(e)}", "section loads", exc_name(e), f"/W {list(W)}: loading the section raised")]
    for n, (t, a, b) in ents.items():
        exp = (None, a, b) if t == 1 else (a, b, 0)
        try:
            got: Any = tuple(x.get_pos(n))
        except Exception as e:  # noqa
            got = ("EXC", exc_name(e))
        if got != exp:
            width = 4 if (a >= 1 << 24 or b >= 1 << 24) else 0
            neg = isinstance(got, tuple) and any(isinstance(v, int) and v < 0 for v in got)
            sig = "C02/xref-stream-fields:4-byte-field-read-signed" if (neg and width == 4) else f"C02/xref-stream-fields:wrong-value:W={list(W)}"
            return [(sig, exp, got, f"/W {list(W)}, entry {n} (type {t}, fields {a:#x}, {b:#x}): get_pos does not return the values written")]
    ids = sorted(x.get_objids())
    if ids != sorted(ents):
        return [("C02/xref-stream-fields:objids", len(ents), len(ids), f"/W {list(W)}: get_objids does not list the in-use entries")]
    return []


def fam_fieldvalues(st, tier, W):
    from mc.refs.xrefhist import stream_with_length, xref_stream

    ents = xv_entries(W)
    first = True
    for xf in XFILTERS:
        xs = stream_with_length(xref_stream(dict(ents), W, {}, max(ents) + 1, xf))
        data = b"9 0 obj\n" + ser(xs) + b"\nendobj\n"
        case = {"part": "fields", "W": W, "xfilter": xf, "data": data}
        res = judge_fieldvalues(case)
        for sig, e, o, what in res:
            st.violation(sig, case, e, o, what)
        st.case(None, nontrivial=True, outcome=("fields", W, xf, bool(res)))
        st.states += len(ents)
        st.transitions += len(ents)
        st.traces += 1
        st.add("xref_stream_entries_read_back", len(ents))
        if first and W == (1, 4, 2):
            st.sample({"field_values": True, "W": W, "entries": len(ents), "bytes": len(data)})
            first = False


REF_POSITIONS = ("first", "middle", "last", "only")


def fam_bareref(st, tier, pos, diff):
    """objects whose whole value is an indirect reference ("3 0 R"), stored directly and as first / middle / last / only
    member of an object stream, in the initial body and in an update"""
    users = (10, 11, 13)
    others = {10: {"K": N("ten")}, 11: 1100, 13: b"thirteen"}
    d1 = users if pos != "only" else (11,)
    refobj = {"first": 10, "middle": 11, "last": 13, "only": 11}[pos]
    values: Dict[Tuple[int, int], Any] = {(0, n): v for n, v in others.items()}
    values[(0, 11)] = Ref(2)  # a bare reference in the middle of the initial body's members
    for n in d1:
        values[(1, n)] = Ref(3) if n == refobj else (others[n] if not isinstance(others[n], int) else others[n] + 1)
    if pos == "last":
        values[(0, 13)] = Ref(1)
        values[(0, 11)] = 1100
    for m0, m1 in itertools.product(MAJOR, MAJOR):
        check_document(st, [users, d1], ["none", "none"], [major_phys(m0), major_phys(m1)], CONFIGS_SMALL, diff, values=values,
                       sample=(pos == "first" and m0 == MAJOR[0] and m1 == MAJOR[2]))


def fam_x1(st, tier, defs, diff):
    """one revision: compressed cross-reference streams (Flate, Flate + PNG-Up predictor) x W x generations"""
    for genmode in ("zero", "map"):
        for m in MAJOR:
            if m[0] == "T":
                if genmode == "map":
                    for eol in EOLS:
                        check_document(st, [defs], ["none"], [phys5(m, None, eol=eol)], CONFIGS_SMALL, diff, genmode=genmode)
                continue
            for W in WS:
                for xf in XFILTERS:
                    if xf is None and genmode == "zero":
                        continue  # family L1
                    if not phys_valid(0, m[0], m[1], EOLS[0], W):
                        continue
                    check_document(st, [defs], ["none"], [phys5(m, xf, W)], CONFIGS_SMALL, diff, genmode=genmode,
                                   sample=(xf == "png" and W == WS[1] and m == MAJOR[2] and genmode == "map" and len(defs) == 3))


def fam_x2(st, tier, users, vec, diff):
    """two revisions: every user object defined, then each one untouched / defined again / freed"""
    d1, f1 = split_vector(users, vec)
    for xf, genmode in BOUNDS[tier]["X2_modes"]:
        for m0, m1 in itertools.product(MAJOR, MAJOR):
            cfgs = CONFIGS_SMALL if tier == "thorough" else [CONFIGS_SMALL[0], CONFIGS_SMALL[3]]
            check_document(st, [tuple(users), d1], ["none", "none"], [phys5(m0, xf), phys5(m1, xf)], cfgs, diff,
                           frees_list=[(), f1], genmode=genmode, sample=(vec == ("f", "d", "u") and m0 == MAJOR[1] and m1 == MAJOR[4] and xf == "png"))


def fam_xn(st, tier, nrev, users, vecs, metas, modes, maxdev, diff):
    """/Prev chains of nrev revisions mixing definitions, free entries, generations and compressed xref streams"""
    defs_list, frees_list = [tuple(BOUNDS[tier]["X_users"][:3])], [()]
    for vec in vecs:
        d, f = split_vector(users, vec)
        defs_list.append(d)
        frees_list.append(f)
    for xf, genmode in modes:
        for fv in major_vectors(nrev, maxdev):
            check_document(st, defs_list, list(metas), [phys5(MAJOR[v], xf) for v in fv], [CONFIGS_SMALL[0], CONFIGS_SMALL[3]], diff,
                           frees_list=frees_list, genmode=genmode)


def major_vectors(nrev: int, maxdev: int):
    for vec in itertools.product(range(len(MAJOR)), repeat=nrev):
        if sum(1 for v in vec if v) <= maxdev:
            yield vec


def run_shard(shard, tier, st):
    b = BOUNDS[tier]
    subs = subsets(b["users"])
    fam = shard[0]
    diff: Dict[Any, Any] = {}
    if fam == "L1":
        defs = subs[shard[1]]
        for i, ph in enumerate(all_phys(0, seps=True)):
            check_document(st, [defs], ["none"], [ph], configs_full(), diff, sample=(shard[1] == len(subs) - 1 and i == 5))
    elif fam == "L2":
        d0, d1, meta = subs[shard[1]], subs[shard[2]], META1[shard[3]]
        for i, (m0, m1) in enumerate(itertools.product(MAJOR, MAJOR)):
            check_document(st, [d0, d1], ["none", meta], [major_phys(m0), major_phys(m1)], configs_full(), diff,
                           sample=(shard[1:] == (len(subs) - 1, 1, 2) and i == 14))
    elif fam == "L2P":
        (defs_list, metas) = l2p_logicals(b["users"][:3])[shard[1]]
        p0 = all_phys(0)[shard[2]]
        for j, p1 in enumerate(all_phys(1, seps=True)):
            check_document(st, list(defs_list), list(metas), [p0, p1], CONFIGS_SMALL, diff, sample=(shard[2] == 0 and j == 25))
        if tier == "thorough" and p0[0] in ("T", "H") and p0[2] == EOLS[0] and p0[3] == WS[0]:
            # the older revision's trailer on the keyword's line too
            for sep in TRAILER_SEPS:
                for p1 in all_phys(1, seps=True):
                    check_document(st, list(defs_list), list(metas), [p0[:4] + (None, sep), p1], CONFIGS_SMALL, diff)
    elif fam in ("L3", "L4"):
        s = b["L3_subsets"] if fam == "L3" else BOUNDS["quick"]["L3_subsets"]
        defs_list = [s[i] for i in shard[1:]]
        nrev = len(defs_list)
        maxdev = b["L3_major_dev"] if fam == "L3" else 2
        metasets = [("none", "none", "none"), ("none", "recat", "none"), ("none", "none", "newroot"), ("none", "recat", "newroot")]
        if fam == "L4":
            metasets = [("none", "none", "newroot", "none"), ("none", "recat", "none", "recat")]
        cfgs = CONFIGS_SMALL if fam == "L3" else CONFIGS_SMALL[:2]
        for metas in metasets:
            for vec in major_vectors(nrev, maxdev):
                # vectors with more than two non-table revisions (thorough only) get the two extreme configurations
                c = cfgs if sum(1 for v in vec if v) <= 2 else [CONFIGS_SMALL[0], CONFIGS_SMALL[3]]
                check_document(st, defs_list, list(metas), [major_phys(MAJOR[v]) for v in vec], c, diff)
    elif fam == "X1":
        fam_x1(st, tier, subsets(b["X_users"])[shard[1]], diff)
    elif fam == "X2":
        fam_x2(st, tier, b["X_users"], list(state_vectors(b["X_users"]))[shard[1]], diff)
    elif fam == "X3":
        v2 = list(state_vectors((10, 11)))
        fam_xn(st, tier, 3, (10, 11), [v2[shard[1]], v2[shard[2]]], ("none", "none", "newroot"), b["X3_modes"], b["X3_major_dev"], diff)
    elif fam == "X4":
        v4 = [v for v in state_vectors((10, 11)) if v[1] != "f"]
        fam_xn(st, tier, 4, (10, 11), [v4[i] for i in shard[1:]], ("none", "recat", "none", "newroot"), MODES6[1::2] + MODES6[:1], 2, diff)
    elif fam == "WG":
        fam_wgrid(st, tier, W_GRID[shard[1]], diff)
    elif fam == "XV":
        fam_fieldvalues(st, tier, FIELD_WIDTHS[shard[1]])
    elif fam == "REF":
        fam_bareref(st, tier, REF_POSITIONS[shard[1]], diff)
    elif fam == "LONG":
        fam_long(st, tier, shard[1], shard[2])
    elif fam == "DMG":
        run_damage(st, shard[1], shard[2], tier, shard[3], shard[4])
    else:
        raise ValueError(shard)


def replay(case):
    if case.get("part") == "damage":
        res = judge_damage(case)
    elif case.get("part") == "fields":
        res = judge_fieldvalues(case)
    elif case.get("part") == "long":
        case["params"] = tuple(case["params"])
        res = judge_long(case)
    else:
        exp = case["expect"]
        # JSON round trip turns int keys of plain dicts back through $d; lists stay lists
        exp["sections"] = [(k, list(v)) for k, v in exp["sections"]]
        res = judge_history(case)
        if not res and case.get("other"):
            o = case["other"]
            nums = sorted(exp["values"]) + list(exp["undefined"]) + sorted(exp.get("freed", {}))
            k1 = freed_kinds(observe(case["data"], case["caching"], case["bufsiz"], nums), exp)
            k2 = freed_kinds(observe(o["data"], o["caching"], o["bufsiz"], nums), exp)
            if k1 != k2:
                sig = "C02/freed-object-config-dependent" if o["data"] == case["data"] else "C02/freed-object-form-dependent"
                res = [(sig, k2, k1, "")]
        if res and (case["caching"], case["bufsiz"]) != REF_CONFIG:
            ref_ok = not judge_history({**case, "caching": REF_CONFIG[0], "bufsiz": REF_CONFIG[1]})
            pre = "" if res[0][0].startswith("C02/freed-object-") and res[0][0].endswith("-dependent") else config_prefix(ref_ok, case["caching"], case["bufsiz"])
            res = [(with_prefix(pre, s), e, o, w) for s, e, o, w in res]
    return [{"signature": s, "expected": repr(e)[:1500], "observed": repr(o)[:1500]} for s, e, o, _ in res]


# --------------------------------------------------------------------------------------------------------------------
# Family "idxorder" (main session, after seeded defect C02_20 was missed): a cross-reference stream whose /Index lists its
# subsections in ANY order (ISO 32000-1 7.5.8.2 does not require ascending order; the entries follow the order of the array).
def _idx_doc(perm, W=(1, 2, 1)):
    """objects 1,2,3 and 5,6,7 plus the xref stream 8; subsections (0,4) (5,3) (8,1) written in the order `perm`"""
    out = bytearray(b"%PDF-1.5\n")
    offs = {}

    def obj(num, body):
        offs[num] = len(out)
        out.extend(b"%d 0 obj\n" % num + body + b"\nendobj\n")

    content = b"BT /F1 12 Tf 20 100 Td (Idx) Tj ET"
    obj(1, b"<</Type/Catalog/Pages 2 0 R/Marker/M1>>")
    obj(2, b"<</Type/Pages/Kids[3 0 R]/Count 1/Marker/M2>>")
    obj(3, b"<</Type/Page/Parent 2 0 R/MediaBox[0 0 300 300]/Resources<</Font<</F1 5 0 R>>>>/Contents 6 0 R/Marker/M3>>")
    obj(5, b"<</Type/Font/Subtype/Type1/BaseFont/Helvetica/Marker/M5>>")
    obj(6, b"<</Length %d>>\nstream\n" % len(content) + content + b"\nendstream")
    obj(7, b"<</Marker/M7>>")
    offs[8] = len(out)
    subs = [(0, 4), (5, 3), (8, 1)]

    def entry(n):
        t, a, b = (0, 0, 255) if n == 0 else (1, offs[n], 0)
        return b"".join(v.to_bytes(w, "big") for v, w in zip((t, a, b), W))

    data = b"".join(entry(s + i) for k in perm for (s, c) in [subs[k]] for i in range(c))
    index = b" ".join(b"%d %d" % subs[k] for k in perm)
    out.extend(b"8 0 obj\n<</Type/XRef/Size 9/Root 1 0 R/W[%d %d %d]/Index[%s]/Length %d>>\nstream\n" % (W + (index, len(data))) + data + b"\nendstream\nendobj\n")
    out.extend(b"startxref\n%d\n%%%%EOF\n" % offs[8])
    return bytes(out)


def judge_idxorder(case):
    import io as _io

    from pdfminer.high_level import extract_text
    from pdfminer.pdfdocument import PDFDocument
    from pdfminer.pdfparser import PDFParser
    from pdfminer.pdftypes import PDFStream

    perm = tuple(case["perm"])
    data = _idx_doc(perm)
    res = []
    for caching in (True, False):
        try:
            doc = PDFDocument(PDFParser(_io.BytesIO(data)), caching=caching)
            ids = sorted({i for x in doc.xrefs for i in x.get_objids()})
            if ids != [1, 2, 3, 5, 6, 7, 8]:
                res.append(("C02/index-order:objids", [1, 2, 3, 5, 6, 7, 8], ids, f"in-use object numbers with /Index order {perm}"))
            for n in (1, 2, 3, 5, 7):
                o = doc.getobj(n)
                m = o.get("Marker") if isinstance(o, dict) else None
                if getattr(m, "name", None) != "M%d" % n:
                    res.append(("C02/index-order:getobj-wrong", "M%d" % n, repr(o)[:120], f"getobj({n}) with /Index order {perm}, caching={caching}"))
            if not isinstance(doc.getobj(6), PDFStream):
                res.append(("C02/index-order:getobj-wrong", "stream", repr(doc.getobj(6))[:120], "getobj(6)"))
        except Exception as e:  # noqa
            res.append((f"C02/index-order:exception:{type(e).__name__}", "objects resolve", repr(e)[:200], f"/Index order {perm}, caching={caching}"))
    try:
        t = extract_text(_io.BytesIO(data))
        if "Idx" not in t:
            res.append(("C02/index-order:text", "Idx", repr(t), f"extract_text with /Index order {perm}"))
    except Exception as e:  # noqa
        res.append((f"C02/index-order:exception:{type(e).__name__}", "text", repr(e)[:200], f"extract_text, /Index order {perm}"))
    return res


_shards_before_idx, _run_shard_before_idx, _replay_before_idx = shards, run_shard, replay


def shards(tier):  # noqa: F811
    return _shards_before_idx(tier) + [("idxorder",)]


def run_shard(shard, tier, st):  # noqa: F811
    if shard[0] != "idxorder":
        return _run_shard_before_idx(shard, tier, st)
    import itertools as _it

    for perm in _it.permutations(range(3)):
        case = {"part": "idxorder", "perm": list(perm)}
        st.states += 1
        st.transitions += 9
        st.traces += 1
        res = judge_idxorder(case)
        st.case(("idxorder", perm), nontrivial=perm != (0, 1, 2), outcome=("idxorder", tuple(sorted(s for s, _, _, _ in res))))
        for sig, exp, obs, what in res:
            st.violation(sig, case, exp, obs, what)
    st.sample({"family": "idxorder", "subsections": [[0, 4], [5, 3], [8, 1]], "orders": 6})


def replay(case):  # noqa: F811
    if isinstance(case, dict) and case.get("part") == "idxorder":
        return [{"signature": s, "expected": repr(e)[:1500], "observed": repr(o)[:1500]} for s, e, o, _ in judge_idxorder(case)]
    return _replay_before_idx(case)


META["rule"] += (" idxorder: a cross-reference stream with three subsections written in each of the 6 orders of its /Index array (the entries follow the array): "
                 "in-use object numbers, every object, the catalog and the page text are the same for every order.")
