"""C18 -- images: exported files and inline image data reproduce the samples exactly.

Shape B.  Image XObjects and inline images are generated *from* a sample array, so the
expected pixels are known; the real extraction pipeline (``extract_text_to_fp`` with an
output directory, ``extract_pages``, the content-stream interpreter) is run on the generated
bytes.  Exported ``.bmp`` files are decoded with a strict reference BMP reader
(mc/refs/bmp.py) and compared pixel by pixel; ``.jpg`` files byte for byte; inline image
data byte for byte, and the glyphs painted after the image with the same program without it.
"""
from __future__ import annotations

import io
import itertools
import os
import re
import shutil
import tempfile
from typing import Any, Dict, List, Optional, Sequence, Tuple

from mc.pdfgen import Doc, N, Raw, Stream, type1_font
from mc.refs import bmp as bmpref
from mc.refs import c18_codecs as codecs

from pdfminer.converter import PDFPageAggregator
from pdfminer.high_level import extract_pages, extract_text_to_fp
from pdfminer.layout import LTChar, LTFigure, LTImage
from pdfminer.pdfdocument import PDFDocument
from pdfminer.pdfinterp import PDFContentParser, PDFPageInterpreter, PDFResourceManager
from pdfminer.pdfpage import PDFPage
from pdfminer.pdfparser import PDFParser
from pdfminer.pdftypes import PDFStream
from pdfminer.psparser import PSLiteral

ID = "C18"
LEVEL = "model_checking"

WIDTHS = [1, 2, 3, 4, 5, 8, 9]
HEIGHTS = [1, 2, 3]
COLOURS = ["G8", "RGB8", "G1"]
PATTERNS = ["ramp", "zeros", "ones", "alternating", "rows"]
CHAINS = ["none", "Fl", "LZW", "A85", "AHx", "RL", "A85+Fl", "Fl+PNG", "Fl+PNG10-14", "LZW+PNG12", "Fl+Pred1"]
G1_EXTRA_WIDTHS = [32, 33]  # 1-bit rows whose byte count crosses the 4-byte BMP stride
INLINE_SIGMA = [b"E", b"I", b" ", b"\n", b"\r", b"\x00", b"x", b"\xff"]

BOUNDS = {
    "quick": {"widths": WIDTHS + [7, 16, 17], "heights": HEIGHTS + [4], "inline_len": 4, "bufsizes": [1, 2, 3, 4, 5, 6, 7, 8, 9], "align": "every boundary position inside 'ID <data>\\nEI\\n'", "dup_names": [2, 3, 4, 5]},
    "thorough": {"widths": WIDTHS + [7, 16, 17, 31], "heights": HEIGHTS + [4], "inline_len": 5, "bufsizes": [1, 2, 3, 4, 5, 6, 7, 8, 9, 16], "align": "every boundary position inside 'ID <data>\\nEI\\n'", "dup_names": [2, 3, 4, 5, 6]},
}

META = {
    "rule": (
        "xobject: colour {DeviceGray 8, DeviceRGB 8, DeviceGray 1} x width (1-bit: also 32, 33) x height x sample pattern {ramp, all-0, all-FF, alternating, "
        "row-distinct} x filter chain {none, Fl, LZW, A85, AHx, RL, A85+Fl, Fl+PNG predictor 15, Fl+PNG predictor 10..14 (one value per pattern), LZW+PNG predictor 12, Fl+Predictor 1} (one document of five images per "
        "colour x geometry x chain; Fl+PNG only where the row decoder is within its C03-judged domain: 1-bit only at width 8); "
        "dct: 3 opaque JPEG byte strings x {DeviceGray, DeviceRGB} x chain {DCT, A85+DCT, Fl+DCT}; names: documents whose pages reuse one "
        "image name dup_names times (plus a name that collides with the uniquifier's own suffix, bmp/jpg side by side, the same image painted twice, and dup_names inline images on one page); "
        "lzw-early: noisy images whose LZW code width grows past 9 bits (40x40 and 64x8 gray, 24x24 RGB, 64x64 1-bit) x /EarlyChange {absent, 1, 0} x "
        "{LZW alone with a dictionary, A85+LZW with a [null dict] array}; parms: predictor {PNG 15, PNG 12, TIFF 2} x codec {Fl, LZW} x 4 geometries x "
        "/DecodeParms spelling {dict, [dict], ref, [ref], ref->[dict], ref->[ref], and after an ASCII85 filter [null dict], [null ref], ref->[null ref], and a single-NAME filter with [dict], [ref], ref->[dict]}; "
        "mask: stencil masks (/ImageMask true, no ColorSpace) x /BitsPerComponent {absent, 1} x {unfiltered, Fl} x widths {1, 8, 9, 16} x heights {1, 2}: exported as a 1-bit BMP of the stored samples; "
        "inline-a85-ei: inline images whose /F is a single ASCII85 name or a one-element array and whose ASCII85 text contains EI followed by "
        "white space {LF, SP, CR LF, TAB} (5 digit groups x 4 payloads), BUFSIZ {4096, 2}; "
        "calls: every sequence of 2 and 3 extract_text_to_fp calls into one output directory over 5 documents that all name an image Im0 "
        "(bmp; other bmp; jpg + bmp; two pages with Im0; other jpg) -- after each call no file of an earlier call has changed and every "
        "distinct image exported so far has a file decoding to it (states = calls made); "
        "inline-data: every byte string of length 1..inline_len over {E, I, SP, LF, CR, NUL, x, FF} that does not contain the end marker "
        "(first match of EI+white-space in data+LF+EI+LF is at len(data)+1), each run with PDFContentParser.BUFSIZ in bufsizes and 4096, "
        "and in a real document at every stream offset that puts the 4096-byte buffer boundary on each byte of 'ID <data>LF EI LF'; "
        "inline-filtered: the sample patterns as inline images with abbreviated keys through {none, AHx, A85, RL, LZW, Fl, A85+Fl, AHx+A85, A85+AHx, AHx+Fl}, exported; "
        "inline-streams: the program cut at operator boundaries into every 2- and 3-stream /Contents array (the image wholly inside one stream), "
        "3 payloads, BUFSIZ {4096, 1, 5}, also with the image's EI as the very last bytes of a non-last stream (the next stream starts with Q); "
        "inline-nosep: every admissible string of length 1..3 over the same alphabet, not ending in CR/LF, with EI directly after the last data "
        "byte (no separator), BUFSIZ {4096, 1, 3}; inline-variants: full key names, LF after ID, EI as the last bytes of the stream, '~>EI' without white-space, and the single white-space character after ID over all six {NUL, TAB, LF, FF, CR, SP} x data starting with {LF, CR, SP, NUL, TAB, FF, x, E} (2- and 3-byte data; ID CR + data LF.. is a separator plus a data byte), BUFSIZ {4096, 3, 1}; "
        "nameseq: every paint order of 1..4 (thorough 5) images over the names {Im0, Im0.0, Im0.1, Im0.0.0} (each other's uniquified forms), on one page and one page per painting: one file per painting, contents a bijection. "
        "A case = one image (or one inline program run); non-trivial = at least one pixel / data byte / following glyph was compared. "
        "states = generated documents and programs, transitions = individual observations compared with the model (one exported file, "
        "one LTImage attribute set, one inline payload, one glyph list), traces = cases whose every observation was compared."
    ),
    "bound": {k: str(v) for k, v in BOUNDS.items()},
    "assumptions": [
        "CMYK / ICC / Indexed colour, JBIG2, JPX (need Pillow, absent), Decode arrays, SMask and 2/4/16-bit samples are not generated; stencil masks are judged as their stored 1-bit samples (0 -> black, 1 -> white), not as painted",
        "JPEG data is opaque: only byte identity of the exported .jpg is judged, not decodability",
        "the BMP reader is my own strict reader validated on three hand-assembled files (24-bit bottom-up, 1-bit, 8-bit top-down)",
        "reference encoders (LZW, RunLength, ASCII85, ASCIIHex, PNG predictors) are validated by round trip through my own decoders and against the ISO LZW example",
        "PNG-predictor rows are limited to the part of apply_png_predictor that C03 judges correct (see rule); predictor defects belong to C03",
        "inline image data is followed by exactly one LF before EI (the convention of the design); data ending in CR is then indistinguishable from a CR LF separator -- see the known finding",
        "inline data longer than inline_len, filters whose encoded bytes happen to contain the end marker (skipped, counted), and images whose own bytes are split across content streams are not explored",
        "termination of the content parser is judged by a counted budget of 8*len+1024 fillbuf() calls per run (a livelock is reported as C18/inline-exception:Livelock...), not by time",
        "the interpreter's glyph rendering itself is judged by C05; here glyphs after an inline image are only compared with the same program without the image",
    ],
}

FONT = {"F1": type1_font("Helvetica")}


# ----------------------------------------------------------------------------------------------
# model: sample arrays
# ----------------------------------------------------------------------------------------------
def row_bytes(colour: str, w: int) -> int:
    return {"G8": w, "RGB8": 3 * w, "G1": (w + 7) // 8}[colour]


def make_samples(colour: str, w: int, h: int, pattern: str, salt: int = 0) -> bytes:
    rb = row_bytes(colour, w)
    out = bytearray()
    for y in range(h):
        for x in range(rb):
            i = y * rb + x
            if pattern == "ramp":
                v = (i * 37 + 11 + salt * 5) & 255
            elif pattern == "zeros":
                v = 0
            elif pattern == "ones":
                v = 255
            elif pattern == "alternating":
                v = (0xAA if (y + salt) % 2 == 0 else 0x55) if colour == "G1" else (255 if (i + salt) % 2 else 0)
            else:  # rows
                v = ((y + 1) * 40 + (x % 3) * 13 + salt) & 255 if colour == "RGB8" else ((y + 1) * 40 + salt) & 255
                if colour == "G1":
                    v = (0xF0, 0x0F, 0xC3, 0x3C)[(y + salt) % 4]
            out.append(v)
        if colour == "G1" and w % 8:
            # padding bits of a row are not samples: writers leave them zero
            out[-1] &= (0xFF << (8 - w % 8)) & 0xFF
    return bytes(out)


def expected_pixels(colour: str, w: int, h: int, data: bytes) -> List[List[Tuple[int, int, int]]]:
    rb = row_bytes(colour, w)
    rows = []
    for y in range(h):
        row = data[y * rb : (y + 1) * rb]
        if colour == "G8":
            rows.append([(v, v, v) for v in row])
        elif colour == "RGB8":
            rows.append([tuple(row[3 * x : 3 * x + 3]) for x in range(w)])
        else:
            rows.append([(255, 255, 255) if (row[x >> 3] >> (7 - (x & 7))) & 1 else (0, 0, 0) for x in range(w)])
    return rows


CS_NAME = {"G8": "DeviceGray", "RGB8": "DeviceRGB", "G1": "DeviceGray"}
CS_ABBR = {"G8": "G", "RGB8": "RGB", "G1": "G"}
BPC = {"G8": 8, "RGB8": 8, "G1": 1}
NCOMP = {"G8": 1, "RGB8": 3, "G1": 1}


def png_rows(colour: str) -> List[int]:
    # row filters inside the domain C03 judges correct for apply_png_predictor
    return {"G8": [4, 3, 2, 1], "RGB8": [1, 4, 3], "G1": [0, 2]}[colour]


def chain_supported(colour: str, w: int, chain: str) -> bool:
    if "+PNG" in chain and colour == "G1":
        return w == 8
    return True


def encode_chain(chain: str, data: bytes, colour: str, w: int, abbreviated: bool = False, variant: int = 0) -> Tuple[Any, Any, bytes]:
    """-> (Filter value or None, DecodeParms or None, encoded bytes)"""
    names = {
        "Fl": ("FlateDecode", "Fl"),
        "LZW": ("LZWDecode", "LZW"),
        "A85": ("ASCII85Decode", "A85"),
        "AHx": ("ASCIIHexDecode", "AHx"),
        "RL": ("RunLengthDecode", "RL"),
        "DCT": ("DCTDecode", "DCT"),
    }

    def nm(k):
        return N(names[k][1 if abbreviated else 0])

    if chain == "none":
        return None, None, data
    if chain == "Fl":
        return nm("Fl"), None, codecs.flate_encode(data)
    if chain == "LZW":
        return [nm("LZW")], None, codecs.lzw_encode(data)
    if chain == "A85":
        return nm("A85"), None, codecs.a85_encode(data)
    if chain == "AHx":
        return [nm("AHx")], None, codecs.ahx_encode(data)
    if chain == "RL":
        return nm("RL"), None, codecs.rl_encode(data)
    if chain == "A85+Fl":
        return [nm("A85"), nm("Fl")], None, codecs.a85_encode(codecs.flate_encode(data))
    if chain == "AHx+A85":  # ASCIIHex is the outermost (first decoded) filter: the encoded bytes are hex text ending in ">"
        return [nm("AHx"), nm("A85")], None, codecs.ahx_encode(codecs.a85_encode(data))
    if chain == "A85+AHx":  # ASCII85 outermost: the encoded bytes end in "~>"
        return [nm("A85"), nm("AHx")], None, codecs.a85_encode(codecs.ahx_encode(data))
    if chain == "AHx+Fl":
        return [nm("AHx"), nm("Fl")], None, codecs.ahx_encode(codecs.flate_encode(data))
    if chain in ("Fl+PNG", "Fl+PNG10-14", "LZW+PNG12"):
        # any Predictor value 10..15 selects the PNG scheme; the function used is tagged per row (ISO 7.4.4.4)
        predictor = {"Fl+PNG": 15, "Fl+PNG10-14": 10 + variant % 5, "LZW+PNG12": 12}[chain]
        rb = row_bytes(colour, w)
        bpp = max(1, NCOMP[colour] * BPC[colour] // 8)
        pred = codecs.png_predict(data, rb, bpp, png_rows(colour))
        parms = {"Predictor": predictor, "Colors": NCOMP[colour], "BitsPerComponent": BPC[colour], "Columns": w}
        if chain == "LZW+PNG12":
            return nm("LZW"), parms, codecs.lzw_encode(pred)
        return nm("Fl"), parms, codecs.flate_encode(pred)
    if chain == "Fl+Pred1":
        return nm("Fl"), {"Predictor": 1, "Columns": w}, codecs.flate_encode(data)
    if chain == "DCT":
        return nm("DCT"), None, data
    if chain == "A85+DCT":
        return [nm("A85"), nm("DCT")], None, codecs.a85_encode(data)
    if chain == "Fl+DCT":
        return [nm("Fl"), nm("DCT")], None, codecs.flate_encode(data)
    raise ValueError(chain)


JPEGS = [
    bytes.fromhex("ffd8ffe000104a46494600010100000100010000ffdb004300") + bytes(range(1, 65)) + bytes.fromhex("ffc0000b080001000101011100ffc4001400010000000000000000000000000000000affda0008010100003f00") + b"\x7f\xff\xd9",
    b"\xff\xd8\xff\xee\x00\x0eAdobe\x00d\x00\x00\x00\x00\x01" + b"EI \nEI\n\x00\r\n~>" + bytes(range(256)) + b"\xff\xd9",
    b"\xff\xd8\xff\xd9",
]


# ----------------------------------------------------------------------------------------------
# documents
# ----------------------------------------------------------------------------------------------
def image_xobject(colour: str, w: int, h: int, filt: Any, parms: Any, enc: bytes, mask: Optional[str] = None) -> Stream:
    d: Dict[str, Any] = {"Type": N("XObject"), "Subtype": N("Image"), "Width": w, "Height": h, "ColorSpace": N(CS_NAME[colour]), "BitsPerComponent": BPC[colour]}
    if mask is not None:
        # stencil mask (ISO 8.9.6.2): no ColorSpace; BitsPerComponent is optional and, if present, 1
        del d["ColorSpace"]
        d["ImageMask"] = True
        if mask == "no-bpc":
            del d["BitsPerComponent"]
    if filt is not None:
        d["Filter"] = filt
    if parms is not None:
        d["DecodeParms"] = parms
    return Stream(d, enc)


def doc_with_pages(pages: Sequence[Tuple[bytes, Dict[str, Stream]]], doc: Optional[Doc] = None) -> bytes:
    """pages: [(content, {xobject name: Stream})]; doc: a Doc that already holds objects the streams refer to"""
    d = doc or Doc()
    cat = d.reserve()
    root = d.reserve()
    font = d.add(FONT["F1"])
    kids = []
    for content, xobjs in pages:
        c = d.add(Stream({}, content))
        res: Dict[str, Any] = {"Font": {"F1": font}}
        if xobjs:
            res["XObject"] = {k: d.add(v) for k, v in xobjs.items()}
        kids.append(d.add({"Type": N("Page"), "Parent": root, "MediaBox": [0, 0, 200, 200], "Resources": res, "Contents": c}))
    d.set(root, {"Type": N("Pages"), "Kids": kids, "Count": len(kids)})
    d.set(cat, {"Type": N("Catalog"), "Pages": root})
    return d.write(cat)


def do_ops(names: Sequence[str]) -> bytes:
    return b"".join(b"q 20 0 0 20 %d 100 cm /%s Do Q\n" % (10 + 25 * i, n.encode()) for i, n in enumerate(names))


# ----------------------------------------------------------------------------------------------
# observation helpers
# ----------------------------------------------------------------------------------------------
def exc_sig(e: BaseException) -> str:
    import traceback

    tb = traceback.extract_tb(e.__traceback__)
    return f"{type(e).__name__}@{tb[-1].name if tb else '?'}"


def tmp_root() -> str:
    base = "/dev/shm" if os.path.isdir("/dev/shm") and os.access("/dev/shm", os.W_OK) else None
    return tempfile.mkdtemp(prefix="verif_c18_", dir=base)


def export_files(pdf: bytes) -> Tuple[Optional[str], Dict[str, bytes]]:
    """run the real export; -> (exception signature or None, {file name: bytes})"""
    set_budget(len(pdf))
    out = tmp_root()
    target = os.path.join(out, "img")
    err = None
    try:
        try:
            extract_text_to_fp(io.BytesIO(pdf), io.StringIO(), output_dir=target)
        except Exception as e:  # noqa
            err = exc_sig(e)
        files = {}
        if os.path.isdir(target):
            for fn in sorted(os.listdir(target)):
                with open(os.path.join(target, fn), "rb") as f:
                    files[fn] = f.read()
        return err, files
    finally:
        _BUDGET[0] = 1 << 60
        shutil.rmtree(out, ignore_errors=True)


def find_images(item) -> List[LTImage]:
    out = []
    if isinstance(item, LTImage):
        return [item]
    if hasattr(item, "__iter__"):
        for c in item:
            out += find_images(c)
    return out


def lt_images(pdf: bytes) -> List[LTImage]:
    out = []
    set_budget(len(pdf))
    try:
        for page in extract_pages(io.BytesIO(pdf)):
            out += find_images(page)
    finally:
        _BUDGET[0] = 1 << 60
    return out


def cs_names(img: LTImage) -> List[str]:
    return [c.name if isinstance(c, PSLiteral) else repr(c) for c in img.colorspace]


CS_EQUIV = {"G": "DeviceGray", "RGB": "DeviceRGB", "DeviceGray": "DeviceGray", "DeviceRGB": "DeviceRGB"}


def judge_bmp(name: str, blob: bytes, colour: str, w: int, h: int, samples: bytes) -> List[Tuple[str, Any, Any, str]]:
    viol = []
    problems, bw, bh, rows = bmpref.read_bmp(blob)
    want = expected_pixels(colour, w, h, samples)
    kinds = {k for k, _ in problems}
    if rows is None:
        return [("C18/bmp-unreadable:" + ",".join(sorted(kinds)), "a well-formed BMP", problems, f"{name}: header not readable")]
    if "truncated" in kinds:
        viol.append(("C18/bmp-file-shorter-than-header-declares", dict(problems)["truncated"][1], len(blob), f"{name}: pixel array truncated (padding of the last written row missing)"))
        kinds -= {"truncated", "bfSize-differs-from-file-length"}
    for k in sorted(kinds):
        viol.append((f"C18/bmp-structure:{k}", "strict BMP", dict(problems)[k], f"{name}: {k}"))
    if (bw, bh) != (w, h):
        viol.append(("C18/bmp-dimensions", (w, h), (bw, bh), name))
        return viol
    if rows != want:
        if colour == "RGB8" and rows == [[(b, g, r) for (r, g, b) in row] for row in want]:
            viol.append(("C18/bmp-24bit-channel-order", _px(want), _px(rows), f"{name}: red and blue swapped (rows written R,G,B; BMP stores B,G,R)"))
        elif rows == want[::-1]:
            viol.append(("C18/bmp-row-order", _px(want), _px(rows), f"{name}: rows upside down"))
        elif colour == "G1" and rows == [[(255 - r, 255 - g, 255 - b) for (r, g, b) in row] for row in want]:
            viol.append(("C18/bmp-1bit-inverted", _px(want), _px(rows), f"{name}: black and white exchanged"))
        else:
            viol.append((f"C18/bmp-pixels:{colour}", _px(want), _px(rows), f"{name}: decoded pixels differ from the stored samples"))
    return viol


def _px(rows):
    return [r[:6] for r in rows[:3]]


# ----------------------------------------------------------------------------------------------
# judges
# ----------------------------------------------------------------------------------------------
def judge_xobject_doc(pdf: bytes, images: List[Dict[str, Any]]):
    """images: [{name, colour, w, h, samples, ext, (jpeg)}] in paint order, names distinct.
    -> (violations, outcome abstraction, observations compared)"""
    viol: List[Tuple[str, Any, Any, str]] = []
    ncmp = 0
    err, files = export_files(pdf)
    outcome: List[Any] = [err, tuple(sorted(files))]
    if err is not None:
        unf = any(im.get("chain") == "none" for im in images)
        sig = "C18/export-unfiltered-image-IndexError" if err.startswith("IndexError@export_image") and unf else f"C18/export-exception:{err}"
        viol.append((sig, [im["name"] + im["ext"] for im in images], {"exception": err, "files": sorted(files)}, "exporting the images raised"))
    else:
        for im in images:
            fn = im["name"] + im["ext"]
            ncmp += 1
            if fn not in files:
                viol.append(("C18/export-file-missing", fn, sorted(files), "expected exported file not written"))
                continue
            if im["ext"] == ".jpg":
                if files[fn] != im["samples"]:
                    viol.append(("C18/jpeg-bytes-differ", im["samples"], files[fn], f"{fn}: exported JPEG is not the stored DCT data"))
            else:
                viol += judge_bmp(fn, files[fn], im["colour"], im["w"], im["h"], im["samples"])
        extra = sorted(set(files) - {im["name"] + im["ext"] for im in images})
        if extra:
            viol.append(("C18/export-unexpected-file", [im["name"] + im["ext"] for im in images], extra, "files nobody asked for"))
    # the LTImage view
    try:
        lts = lt_images(pdf)
        ncmp += 1
        got = [(i.name, tuple(i.srcsize), i.bits, tuple(CS_EQUIV.get(c, c) for c in cs_names(i))) for i in lts]
        want = [(im["name"], (im["w"], im["h"]), BPC[im["colour"]], tuple(im.get("cs") or (CS_NAME[im["colour"]],))) for im in images]
        outcome.append(tuple(got))
        if got != want:
            viol.append(("C18/ltimage-attributes", want, got, "LTImage name/srcsize/bits/colorspace differ"))
        else:
            for i, im in zip(lts, images):
                ncmp += 1
                data = i.stream.get_data()
                if data != im["samples"]:
                    viol.append((f"C18/ltimage-stream-data:{im.get('chain')}", im["samples"], data, f"{im['name']}: LTImage.stream.get_data() differs from the stored samples (filter chain {im.get('chain')})"))
    except Exception as e:  # noqa
        viol.append((f"C18/ltimage-exception:{exc_sig(e)}", "LTImage items", f"{type(e).__name__}: {e}", "extract_pages raised"))
    return viol, tuple(outcome), ncmp


def judge_names_doc(pdf: bytes, images: List[Dict[str, Any]]):
    """images may share names; expected: one file per image, distinct names, contents a bijection"""
    viol: List[Tuple[str, Any, Any, str]] = []
    err, files = export_files(pdf)
    if err is not None:
        return [(f"C18/export-exception:{err}", len(images), {"exception": err, "files": sorted(files)}, "exporting raised")], (err,), 1
    ncmp = 1
    if len(files) != len(images):
        viol.append(("C18/export-name-collision", f"{len(images)} distinct files", sorted(files), "distinct images did not get distinct file names (a file was overwritten)"))
    decoded = []
    for fn, blob in files.items():
        ncmp += 1
        if fn.endswith(".jpg"):
            decoded.append(("jpg", blob))
        else:
            problems, bw, bh, rows = bmpref.read_bmp(blob)
            decoded.append(("bmp", repr(rows)))
        stem = fn.split(".")[0]
        if all(im["name"] is not None for im in images) and stem not in {im["name"].split(".")[0] for im in images}:
            viol.append(("C18/export-file-name-unrelated", sorted({im["name"] for im in images}), fn, "file name does not start with the image name"))
    want = []
    for im in images:
        if im["ext"] == ".jpg":
            want.append(("jpg", im["samples"]))
        else:
            want.append(("bmp", repr(expected_pixels(im["colour"], im["w"], im["h"], im["samples"]))))
    if sorted(decoded) != sorted(want) and not viol:
        viol.append(("C18/export-contents-not-a-bijection", len(want), sorted(files), "exported files do not decode to the set of images"))
    return viol, (tuple(sorted(files)),), ncmp


# ---- long LZW data with every /EarlyChange spelling; /DecodeParms spellings with predictors
def noisy_samples(colour: str, w: int, h: int, salt: int) -> bytes:
    n = row_bytes(colour, w) * h
    out = bytearray()
    x = 12345 + salt * 7919
    for i in range(n):
        x = (x * 1103515245 + 12345) & 0x7FFFFFFF
        # mostly noise, with some runs so that table entries of different lengths are used
        out.append((x >> 16) & 255 if (i // 7) % 5 else (i // 7) & 255)
    return bytes(out)


LZW_GEOMS = [("G8", 40, 40), ("RGB8", 24, 24), ("G8", 64, 8), ("G1", 64, 64)]
EARLY = (None, 1, 0)


def lzw_early_doc(colour: str, w: int, h: int):
    images = []
    xobjs = {}
    grew = 0
    for ei, early in enumerate(EARLY):
        for variant in range(2):
            samples = noisy_samples(colour, w, h, ei * 2 + variant)
            e = 1 if early is None else early
            enc = codecs.lzw_encode(samples, e)
            if codecs.lzw_encode(samples, 0) != codecs.lzw_encode(samples, 1):
                grew += 1  # the code width grows inside this payload: the two settings give different bytes
            filt: Any = N("LZWDecode") if variant == 0 else [N("A85"), N("LZW")]
            parms: Any = None if early is None else {"EarlyChange": early}
            if variant == 1:
                enc = codecs.a85_encode(enc)
                parms = None if early is None else [None, {"EarlyChange": early}]
            name = "L%d%d" % (ei, variant)
            xobjs[name] = image_xobject(colour, w, h, filt, parms, enc)
            images.append({"name": name, "colour": colour, "w": w, "h": h, "samples": samples, "ext": ".bmp", "chain": "LZW/EarlyChange=%r" % (early,)})
    pdf = doc_with_pages([(do_ops([im["name"] for im in images]), xobjs)])
    return pdf, images, grew


PARM_SPELLINGS = ("dict", "[dict]", "ref", "[ref]", "ref->[dict]", "ref->[ref]", "A85:[null dict]", "A85:[null ref]", "A85:ref->[null ref]", "name:[dict]", "name:[ref]", "name:ref->[dict]")
PREDICTORS = ("PNG15", "PNG12", "TIFF2")


def parms_doc(colour: str, w: int, h: int, predictor: str, codec: str):
    """one image per /DecodeParms spelling"""
    d = Doc()
    images = []
    xobjs = {}
    rb = row_bytes(colour, w)
    bpp = max(1, NCOMP[colour] * BPC[colour] // 8)
    for si, spelling in enumerate(PARM_SPELLINGS):
        samples = make_samples(colour, w, h, "ramp", salt=si + 1)
        if predictor == "TIFF2":
            pred = codecs.tiff_predict(samples, rb, bpp)
            pd: Dict[str, Any] = {"Predictor": 2, "Colors": NCOMP[colour], "BitsPerComponent": 8, "Columns": w}
        else:
            pred = codecs.png_predict(samples, rb, bpp, png_rows(colour))
            pd = {"Predictor": int(predictor[3:]), "Colors": NCOMP[colour], "BitsPerComponent": 8, "Columns": w}
        enc = codecs.flate_encode(pred) if codec == "Fl" else codecs.lzw_encode(pred)
        fname = N("FlateDecode" if codec == "Fl" else "LZWDecode")
        a85 = spelling.startswith("A85:")
        name_filter = spelling.startswith("name:")  # /Filter is a single name although /DecodeParms is a one-element array
        sp = spelling[4:] if a85 else (spelling[5:] if name_filter else spelling)
        if a85:
            enc = codecs.a85_encode(enc)
            filt: Any = [N("ASCII85Decode"), fname]
        else:
            filt = [fname] if "[" in sp else fname
        lead = [None] if a85 else []
        parms: Any = {
            "dict": pd,
            "[dict]": lead + [pd],
            "[null dict]": lead + [pd],
            "ref": None,
            "[ref]": None,
            "[null ref]": None,
            "ref->[dict]": None,
            "ref->[ref]": None,
            "ref->[null ref]": None,
        }[sp]
        if parms is None:
            if sp == "ref":
                parms = d.add(pd)
            elif sp in ("[ref]", "[null ref]"):
                parms = lead + [d.add(pd)]
            elif sp == "ref->[dict]":
                parms = d.add(lead + [pd])
            else:
                parms = d.add(lead + [d.add(pd)])
        if (sp == "ref" or name_filter) and filt is not fname:
            filt = fname
        name = "P%d" % si
        xobjs[name] = image_xobject(colour, w, h, filt, parms, enc)
        images.append({"name": name, "colour": colour, "w": w, "h": h, "samples": samples, "ext": ".bmp", "chain": f"{codec}+{predictor} DecodeParms {spelling}"})
    pdf = doc_with_pages([(do_ops([im["name"] for im in images]), xobjs)], doc=d)
    return pdf, images


def a85_with_ei(raw: bytes, ws: bytes) -> Optional[bytes]:
    """ASCII85 text of `raw` with white space inserted after every 'EI' (white space is ignored by the filter);
    None if the text has no 'EI'"""
    text = codecs.a85_encode(raw)[:-2]
    if b"EI" not in text:
        return None
    return text.replace(b"EI", b"EI" + ws) + b"~>"


# ---- successive extraction calls into one output directory (one ImageWriter per call)
def call_pool():
    """-> [(label, pdf, images)]: documents that all name an image /Im0"""
    def bmp_im(name, salt, pattern="ramp"):
        samples = make_samples("G8", 4, 2, pattern, salt=salt)
        filt, parms, enc = encode_chain("Fl", samples, "G8", 4)
        return image_xobject("G8", 4, 2, filt, parms, enc), {"name": name, "colour": "G8", "w": 4, "h": 2, "samples": samples, "ext": ".bmp"}

    def jpg_im(name, ji):
        filt, parms, enc = encode_chain("DCT", JPEGS[ji], "G8", 1)
        return image_xobject("G8", 1, 1, filt, parms, enc), {"name": name, "colour": "G8", "w": 1, "h": 1, "samples": JPEGS[ji], "ext": ".jpg"}

    pool = []
    x, im = bmp_im("Im0", 31)
    pool.append(("A:Im0.bmp", doc_with_pages([(do_ops(["Im0"]), {"Im0": x})]), [im]))
    x, im = bmp_im("Im0", 32, "rows")
    pool.append(("B:Im0.bmp", doc_with_pages([(do_ops(["Im0"]), {"Im0": x})]), [im]))
    xj, imj = jpg_im("Im0", 0)
    xb, imb = bmp_im("Im1", 33)
    pool.append(("C:Im0.jpg+Im1.bmp", doc_with_pages([(do_ops(["Im0", "Im1"]), {"Im0": xj, "Im1": xb})]), [imj, imb]))
    x1, im1 = bmp_im("Im0", 34)
    x2, im2 = bmp_im("Im0", 35, "alternating")
    pool.append(("D:Im0.bmp,Im0.bmp", doc_with_pages([(do_ops(["Im0"]), {"Im0": x1}), (do_ops(["Im0"]), {"Im0": x2})]), [im1, im2]))
    xj, imj = jpg_im("Im0", 2)
    pool.append(("E:Im0.jpg", doc_with_pages([(do_ops(["Im0"]), {"Im0": xj})]), [imj]))
    return pool


def _image_key(im) -> Tuple[str, str]:
    if im["ext"] == ".jpg":
        return ("jpg", repr(bytes(im["samples"])))
    return ("bmp", repr(expected_pixels(im["colour"], im["w"], im["h"], im["samples"])))


def _file_key(fn: str, blob: bytes) -> Tuple[str, str]:
    if fn.endswith(".jpg"):
        return ("jpg", repr(blob))
    problems, bw, bh, rows = bmpref.read_bmp(blob)
    return ("bmp", repr(rows) if not problems else "unreadable:" + repr(problems))


def judge_calls(pdfs: Sequence[bytes], images: Sequence[Sequence[Dict[str, Any]]]):
    """extract_text_to_fp(pdf_k, output_dir=D) for k = 1..n with one D.  After every call: no file written by an
    earlier call has changed, and every distinct image exported so far has a file of its own decoding to it."""
    viol: List[Tuple[str, Any, Any, str]] = []
    out = tmp_root()
    target = os.path.join(out, "img")
    history: List[Any] = []
    ncmp = 0
    try:
        prev: Dict[str, bytes] = {}
        wanted: List[Tuple[str, str]] = []
        for k, (pdf, ims) in enumerate(zip(pdfs, images)):
            set_budget(len(pdf))
            try:
                extract_text_to_fp(io.BytesIO(pdf), io.StringIO(), output_dir=target)
            except Exception as e:  # noqa
                viol.append((f"C18/export-exception:{exc_sig(e)}", f"call {k + 1} exports {len(ims)} image(s)", f"{type(e).__name__}: {e}", "exporting raised"))
                break
            finally:
                _BUDGET[0] = 1 << 60
            files: Dict[str, bytes] = {}
            for fn in sorted(os.listdir(target)) if os.path.isdir(target) else []:
                with open(os.path.join(target, fn), "rb") as f:
                    files[fn] = f.read()
            history.append(tuple(sorted(files)))
            ncmp += 1
            changed = sorted(fn for fn, blob in prev.items() if files.get(fn) != blob)
            if changed:
                viol.append(("C18/export-overwrites-file-of-an-earlier-call", {"call": k + 1, "files kept unchanged": sorted(prev)}, {"call": k + 1, "changed or removed": changed, "files": sorted(files)}, f"call {k + 1} into the same output_dir overwrote {changed}: distinct images did not get distinct file names"))
            for im in ims:
                key = _image_key(im)
                if key not in wanted:
                    wanted.append(key)
            have = [_file_key(fn, blob) for fn, blob in files.items()]
            ncmp += len(wanted)
            missing = [i for i, key in enumerate(wanted) if key not in have]
            if missing and not changed:
                viol.append(("C18/export-image-without-file-after-successive-calls", f"{len(wanted)} distinct images, each with a file", {"call": k + 1, "files": sorted(files), "images without a file (export order)": missing}, "an exported image has no file decoding to it"))
            if len(files) < len(wanted) and not changed and not missing:
                viol.append(("C18/export-name-collision", len(wanted), sorted(files), "fewer files than distinct images"))
            prev = files
            if viol:
                break
        return viol, tuple(history), ncmp
    finally:
        shutil.rmtree(out, ignore_errors=True)


# ---- termination is judged by a counted budget of buffer refills, not by a timer (cf. CountingParser in C14):
# every iteration of the inline-data scanner and of the tokenizer loop calls fillbuf() once.
class Livelock(Exception):
    pass


_BUDGET = [1 << 60]
_orig_fillbuf = PDFContentParser.fillbuf


def _counting_fillbuf(self) -> None:
    _BUDGET[0] -= 1
    if _BUDGET[0] < 0:
        raise Livelock("content parser exceeded its refill budget")
    return _orig_fillbuf(self)


PDFContentParser.fillbuf = _counting_fillbuf  # type: ignore[method-assign]


def set_budget(content_len: int) -> None:
    _BUDGET[0] = 8 * content_len + 1024


# ---- inline images: fast path on a live page object
class InlineRig:
    """One parsed document whose page content is swapped per case (the interpreter, the content parser and the
    device are the real ones; only the file-structure parse is not repeated)."""

    def __init__(self) -> None:
        pdf = doc_with_pages([(b"", {})])
        self.doc = PDFDocument(PDFParser(io.BytesIO(pdf)))
        self.page = next(PDFPage.create_pages(self.doc))
        self.rsrc = PDFResourceManager()

    def run(self, content, bufsiz: int = 4096):
        """content: bytes, or a list of bytes = the streams of a /Contents array"""
        dev = PDFPageAggregator(self.rsrc, laparams=None)
        interp = PDFPageInterpreter(self.rsrc, dev)
        streams = [content] if isinstance(content, (bytes, bytearray)) else list(content)
        self.page.contents = [PDFStream({}, bytes(c)) for c in streams]
        old = PDFContentParser.BUFSIZ
        PDFContentParser.BUFSIZ = bufsiz
        set_budget(sum(len(c) for c in streams) + 64 * len(streams))
        try:
            interp.process_page(self.page)
        finally:
            PDFContentParser.BUFSIZ = old
            _BUDGET[0] = 1 << 60
        return observe_layout(dev.get_result())


def observe_layout(ltpage):
    imgs = find_images(ltpage)
    chars = []

    def walk(it):
        if isinstance(it, LTChar):
            chars.append((it.get_text(), tuple(round(v, 6) for v in it.bbox)))
        elif hasattr(it, "__iter__"):
            for c in it:
                walk(c)

    walk(ltpage)
    return imgs, chars


PDF_WS = b"\x00\t\n\x0c\r "
_END = re.compile(rb"EI[\x00\t\n\x0c\r ]")


def data_admissible(data: bytes) -> bool:
    m = _END.search(data + b"\nEI\n")
    return m is not None and m.start() == len(data) + 1


PRE = b"BT /F1 10 Tf 10 50 Td (A) Tj ET\n"
POST = b"BT /F1 10 Tf 10 20 Td (Z) Tj ET\nq 1 0 0 1 5 5 cm BT /F1 8 Tf (q) Tj ET Q\n"


def inline_program(data: bytes, w: int, h: int, colour: str = "G8", filt: Any = None, pad: int = 0, id_sep: bytes = b" ", before_ei: bytes = b"\n", after_ei: bytes = b"\n", full_keys: bool = False, parms: Any = None, post: bytes = POST) -> bytes:
    from mc.pdfgen import ser

    if full_keys:
        d = b"/Width %d /Height %d /BitsPerComponent %d /ColorSpace /%s" % (w, h, BPC[colour], CS_NAME[colour].encode())
        fk, pk = b"/Filter", b"/DecodeParms"
    else:
        d = b"/W %d /H %d /BPC %d /CS /%s" % (w, h, BPC[colour], CS_ABBR[colour].encode())
        fk, pk = b"/F", b"/DP"
    if filt is not None:
        d += b" " + fk + b" " + ser(filt)
    if parms is not None:
        d += b" " + pk + b" " + ser(parms)
    return PRE + b" " * pad + b"q 30 0 0 30 50 50 cm\nBI " + d + b" ID" + id_sep + data + before_ei + b"EI" + after_ei + b"Q\n" + post


def judge_inline(obs, ref_chars, data: bytes, w: int, h: int, colour: str, decoded: Optional[bytes] = None, context: str = ""):
    """obs = (imgs, chars) or an exception; data = the bytes between ID<ws> and <LF>EI; decoded = the samples (filtered case)"""
    viol: List[Tuple[str, Any, Any, str]] = []
    if isinstance(obs, BaseException):
        return [(f"C18/inline-exception:{exc_sig(obs)}{context}", "one image, then the following operators", f"{type(obs).__name__}: {obs}", "interpreting the content raised")], ("exc", type(obs).__name__)
    imgs, chars = obs
    outcome: Tuple = (len(imgs), tuple(c[0] for c in chars))
    if len(imgs) != 1:
        viol.append((f"C18/inline-image-count{context}", 1, len(imgs), "inline image not delivered exactly once"))
    else:
        im = imgs[0]
        try:
            got = im.stream.get_data()
        except Exception as e:  # noqa
            got = None
            viol.append((f"C18/inline-decode-exception:{exc_sig(e)}{context}", decoded if decoded is not None else data, f"{type(e).__name__}: {e}", "decoding the inline image raised"))
        outcome += (got,)
        want = decoded if decoded is not None else data
        if got is not None and got != want:
            if decoded is None and data.endswith(b"\r") and got == data[:-1]:
                sig = "C18/inline-data-trailing-CR-taken-for-EOL"
            elif decoded is None and want[-1:] == b"\n" and want.startswith(got) and not want[len(got):].strip(b"\r\n"):
                sig = "C18/inline-data-trailing-LF-stripped-with-separator"
            elif decoded is None and want.startswith(got):
                sig = "C18/inline-data-truncated"
            elif decoded is None and got.startswith(want):
                sig = "C18/inline-data-overrun"
            else:
                sig = "C18/inline-data-differs"
            viol.append((sig + context, want, got, "captured inline image data differs from the bytes between ID and EI"))
        attrs = (tuple(im.srcsize), im.bits, tuple(CS_EQUIV.get(c, c) for c in cs_names(im)))
        wattrs = ((w, h), BPC[colour], (CS_NAME[colour],))
        if attrs != wattrs:
            viol.append((f"C18/inline-attributes{context}", wattrs, attrs, "LTImage srcsize/bits/colorspace of the inline image differ"))
    if chars != ref_chars:
        if len(imgs) == 0 and chars == ref_chars[: len(chars)]:
            # one cause: the end marker was never recognised, so the rest of the stream went into the image that was then dropped
            viol[-1] = (viol[-1][0], {"images": 1, "glyphs": [c[0] for c in ref_chars]}, {"images": 0, "glyphs": [c[0] for c in chars]}, "end of inline image not recognised: image and the operators after it are lost")
        else:
            viol.append((f"C18/inline-following-operators{context}", ref_chars, chars, "glyphs differ from the same program without the inline image"))
    return viol, outcome


# ----------------------------------------------------------------------------------------------
# shards
# ----------------------------------------------------------------------------------------------
# ---- inline image inside one stream of a /Contents array (the image itself is never split)
NAMESEQ_POOL = ["Im0", "Im0.0", "Im0.1", "Im0.0.0"]
NAMESEQ_LEN = {"quick": 4, "thorough": 5}
STREAM_DATA = [b"ab", b"E I\x00\xff", b"\n\xff\n"]


def stream_pieces(data: bytes) -> List[bytes]:
    img = b"BI /W %d /H 1 /BPC 8 /CS /G ID " % len(data) + data + b"\nEI"
    return [b"BT", b"/F1 10 Tf", b"10 50 Td", b"(A) Tj", b"ET", b"q 30 0 0 30 50 50 cm", img, b"Q", b"BT", b"/F1 10 Tf", b"10 20 Td", b"(Z) Tj", b"ET", b"q 1 0 0 1 5 5 cm", b"BT", b"/F1 8 Tf", b"(q) Tj", b"ET", b"Q"]


def inline_data_strings(maxlen: int) -> List[bytes]:
    out = []
    for n in range(1, maxlen + 1):
        for t in itertools.product(INLINE_SIGMA, repeat=n):
            out.append(b"".join(t))
    return out


def shards(tier):
    b = BOUNDS[tier]
    out: List[Tuple] = []
    for c in COLOURS:
        for w in b["widths"] + (G1_EXTRA_WIDTHS if c == "G1" else []):
            for h in b["heights"]:
                out.append(("xobject", c, w, h))
    out.append(("dct",))
    out.append(("mask",))
    for gi in range(len(LZW_GEOMS)):
        out.append(("lzw-early", gi))
    for pi in range(len(PREDICTORS)):
        for codec in ("Fl", "LZW"):
            out.append(("parms", pi, codec))
    out.append(("inline-a85-ei",))
    for n in b["dup_names"]:
        out.append(("names", n))
    for first in range(len(NAMESEQ_POOL)):
        out.append(("nameseq", first))
    for first in range(5):
        out.append(("calls", first))
    for i in range(len(INLINE_SIGMA)):
        for j in range(len(INLINE_SIGMA)):
            out.append(("inline-data", i, j))
    for i in range(len(INLINE_SIGMA)):
        for j in range(-1, len(INLINE_SIGMA)):
            out.append(("inline-align", i, j))
    for c in COLOURS:
        out.append(("inline-filtered", c))
    out.append(("inline-variants",))
    for i in range(len(INLINE_SIGMA)):
        out.append(("inline-nosep", i))
    for di in range(len(STREAM_DATA)):
        for nstreams in (2, 3):
            out.append(("inline-streams", di, nstreams))
    return out


def _record(st, viols, case):
    for sig, exp, obs, what in viols:
        st.violation(sig, case, exp, obs, what)


def xobject_doc(colour, w, h, chain):
    images = []
    xobjs = {}
    for pi, pat in enumerate(PATTERNS):
        samples = make_samples(colour, w, h, pat)
        filt, parms, enc = encode_chain(chain, samples, colour, w, variant=pi)
        name = "Im%d" % pi
        xobjs[name] = image_xobject(colour, w, h, filt, parms, enc)
        images.append({"name": name, "colour": colour, "w": w, "h": h, "samples": samples, "ext": ".bmp", "chain": chain, "pattern": pat})
    pdf = doc_with_pages([(PRE + do_ops([im["name"] for im in images]) + POST, xobjs)])
    return pdf, images


def run_shard(shard, tier, st):
    b = BOUNDS[tier]
    fam = shard[0]
    if fam == "xobject":
        _, colour, w, h = shard
        for chain in CHAINS:
            if not chain_supported(colour, w, chain):
                st.not_judged["1-bit PNG-predicted rows whose width is not 8 (outside the predictor domain C03 judges)"] += len(PATTERNS)
                continue
            pdf, images = xobject_doc(colour, w, h, chain)
            viols, outcome, ncmp = judge_xobject_doc(pdf, images)
            st.states += 1
            st.transitions += ncmp
            st.traces += len(images)
            st.case(None, nontrivial=True, outcome=outcome, n=len(images))
            _record(st, viols, {"family": fam, "pdf": pdf, "images": images})
        if shard[1:] in (("RGB8", 3, 2), ("G1", 9, 3)):
            st.sample({"family": fam, "colour": colour, "width": w, "height": h, "chain": chain, "pattern": images[0]["pattern"], "samples": images[0]["samples"]})
    elif fam == "dct":
        for ji, jpg in enumerate(JPEGS):
            for colour in ("G8", "RGB8"):
                for chain in ("DCT", "A85+DCT", "Fl+DCT"):
                    filt, parms, enc = encode_chain(chain, jpg, colour, 1)
                    name = "J%d" % ji
                    x = image_xobject(colour, 1, 1, filt, parms, enc)
                    images = [{"name": name, "colour": colour, "w": 1, "h": 1, "samples": jpg, "ext": ".jpg", "chain": chain}]
                    pdf = doc_with_pages([(PRE + do_ops([name]) + POST, {name: x})])
                    viols, outcome, ncmp = judge_xobject_doc(pdf, images)
                    st.states += 1
                    st.transitions += ncmp
                    st.traces += 1
                    st.case(None, nontrivial=True, outcome=outcome)
                    _record(st, viols, {"family": "xobject", "pdf": pdf, "images": images})
        st.sample({"family": fam, "chain": chain, "jpeg_bytes": len(jpg)})
    elif fam == "mask":
        for w in (1, 8, 9, 16):
            for h in (1, 2):
                images = []
                xobjs = {}
                k = 0
                for bpc in ("no-bpc", "bpc-1"):
                    for chain in ("none", "Fl"):
                        samples = make_samples("G1", w, h, ("ramp", "rows", "alternating", "ones")[k % 4], salt=k)
                        filt, parms, enc = encode_chain(chain, samples, "G1", w)
                        name = "M%d" % k
                        xobjs[name] = image_xobject("G1", w, h, filt, parms, enc, mask=bpc)
                        images.append({"name": name, "colour": "G1", "w": w, "h": h, "samples": samples, "ext": ".bmp", "chain": chain, "cs": ("None",), "mask": bpc})
                        k += 1
                pdf = doc_with_pages([(PRE + do_ops([im["name"] for im in images]) + POST, xobjs)])
                viols, outcome, ncmp = judge_xobject_doc(pdf, images)
                st.states += 1
                st.transitions += ncmp
                st.traces += len(images)
                st.case(None, nontrivial=True, outcome=outcome, n=len(images))
                _record(st, viols, {"family": "xobject", "pdf": pdf, "images": images})
        st.sample({"family": fam, "width": w, "height": h, "bits_per_component": ("absent", 1), "chains": ("none", "Fl")})
    elif fam == "lzw-early":
        colour, w, h = LZW_GEOMS[shard[1]]
        pdf, images, grew = lzw_early_doc(colour, w, h)
        st.add("lzw_payloads_whose_code_width_grows", grew)
        viols, outcome, ncmp = judge_xobject_doc(pdf, images)
        st.states += 1
        st.transitions += ncmp
        st.traces += len(images)
        st.case(None, nontrivial=grew > 0, outcome=outcome, n=len(images))
        _record(st, viols, {"family": "xobject", "pdf": pdf, "images": images})
        if shard[1] == 0:
            st.sample({"family": fam, "geometry": (colour, w, h), "early_change": EARLY, "payloads_with_width_growth": grew})
    elif fam == "parms":
        predictor, codec = PREDICTORS[shard[1]], shard[2]
        for colour, w, h in (("G8", 5, 3), ("RGB8", 4, 3), ("G8", 8, 2), ("RGB8", 1, 2)):
            pdf, images = parms_doc(colour, w, h, predictor, codec)
            viols, outcome, ncmp = judge_xobject_doc(pdf, images)
            st.states += 1
            st.transitions += ncmp
            st.traces += len(images)
            st.case(None, nontrivial=True, outcome=outcome, n=len(images))
            _record(st, viols, {"family": "xobject", "pdf": pdf, "images": images})
        if shard[1:] == (2, "Fl"):
            st.sample({"family": fam, "predictor": predictor, "codec": codec, "spellings": PARM_SPELLINGS})
    elif fam == "inline-a85-ei":
        rig = InlineRig()
        ref = rig.run(PRE + b"q 30 0 0 30 50 50 cm\nQ\n" + POST)[1]
        import base64 as _b64

        seeds = [b"56EI7", b"EI!!!", b"!EI!!", b"!!!EI", b"EIEIE"]
        n_gen = 0
        for seed in seeds:
            group = _b64.a85decode(seed)
            for raw in (group, b"\x01\x02\x03\x04" + group, group + b"\xfe\xfd", group + group):
                for ws in (b"\n", b" ", b"\r\n", b"\t"):
                    text = a85_with_ei(raw, ws)
                    assert text is not None and (b"EI" + ws) in text
                    for fspell in (N("A85"), N("ASCII85Decode"), [N("A85")], [N("ASCII85Decode")]):
                        for before_ei in (b"\n", b""):
                            prog = inline_program(text, len(raw), 1, "G8", filt=fspell, before_ei=before_ei)
                            for bs in (4096, 2):
                                try:
                                    obs = rig.run(prog, bs)
                                except Exception as e:  # noqa
                                    obs = e
                                viols, outcome = judge_inline(obs, ref, text, len(raw), 1, "G8", decoded=raw, context=":A85-text-containing-EI")
                                n_gen += 1
                                st.states += 1
                                st.transitions += 2
                                st.traces += 1
                                st.case(None, nontrivial=True, outcome=outcome)
                                _record(st, viols, {"family": "inline", "program": prog, "bufsiz": bs, "data": text, "w": len(raw), "h": 1, "colour": "G8", "decoded": raw, "full_doc": False, "context": ":A85-text-containing-EI"})
        st.sample({"family": fam, "program": prog, "cases": n_gen})
    elif fam == "names":
        n = shard[1]
        for variant in range(5):
            colour, w, h = ("G8", 4, 2) if variant != 3 else ("G1", 32, 2)
            pages = []
            images = []
            if variant == 4:
                # n inline images on one page (their names derive from object ids, which may be reused) next to an XObject
                prog = b""
                for p in range(n):
                    samples = make_samples(colour, w, h, "ramp", salt=20 + p)
                    prog += inline_program(codecs.ahx_encode(samples), w, h, colour, filt=N("AHx"), post=b"")
                    images.append({"name": None, "colour": colour, "w": w, "h": h, "samples": samples, "ext": ".bmp"})
                pdf = doc_with_pages([(prog, {})])
                viols, outcome, ncmp = judge_names_doc(pdf, images)
                st.states += 1
                st.transitions += ncmp
                st.traces += 1
                st.case(None, nontrivial=True, outcome=(len(outcome[0]),), n=len(images))
                _record(st, viols, {"family": fam, "pdf": pdf, "images": images})
                continue
            for p in range(n):
                samples = make_samples(colour, w, h, "ramp", salt=p + 1)
                filt, parms, enc = encode_chain("Fl", samples, colour, w)
                xo = {"Im0": image_xobject(colour, w, h, filt, parms, enc)}
                images.append({"name": "Im0", "colour": colour, "w": w, "h": h, "samples": samples, "ext": ".bmp"})
                names = ["Im0"]
                if variant == 1 and p == 1:
                    # a resource name equal to what the uniquifier would generate next
                    s2 = make_samples(colour, w, h, "rows", salt=9)
                    f2, p2, e2 = encode_chain("Fl", s2, colour, w)
                    xo["Im0.0"] = image_xobject(colour, w, h, f2, p2, e2)
                    images.append({"name": "Im0.0", "colour": colour, "w": w, "h": h, "samples": s2, "ext": ".bmp"})
                    names.append("Im0.0")
                if variant == 2 and p == 0:
                    f2, p2, e2 = encode_chain("DCT", JPEGS[0], "G8", 1)
                    xo["Im1"] = image_xobject("G8", 1, 1, f2, p2, e2)
                    images.append({"name": "Im1", "colour": "G8", "w": 1, "h": 1, "samples": JPEGS[0], "ext": ".jpg"})
                    s3 = make_samples(colour, w, h, "alternating", salt=3)
                    f3, p3, e3 = encode_chain("Fl", s3, colour, w)
                    xo["Im2"] = image_xobject(colour, w, h, f3, p3, e3)
                    images.append({"name": "Im2", "colour": colour, "w": w, "h": h, "samples": s3, "ext": ".bmp"})
                    names += ["Im1", "Im2", "Im2"]  # the same image painted twice is exported twice
                    images.append({"name": "Im2", "colour": colour, "w": w, "h": h, "samples": s3, "ext": ".bmp"})
                pages.append((do_ops(names), xo))
            pdf = doc_with_pages(pages)
            viols, outcome, ncmp = judge_names_doc(pdf, images)
            st.states += 1
            st.transitions += ncmp
            st.traces += 1
            st.case(None, nontrivial=True, outcome=outcome, n=len(images))
            _record(st, viols, {"family": fam, "pdf": pdf, "images": images})
        if n == 3:
            st.sample({"family": fam, "pages": n, "names": [im["name"] for im in images]})
    elif fam == "nameseq":
        # every paint order of up to NAMESEQ_LEN[tier] images over names that are each other's uniquified forms: whatever
        # was exported before, a later export never lands on a file that is already there
        colour, w, h = "G8", 4, 2
        xo, smp = {}, {}
        for k, nm in enumerate(NAMESEQ_POOL):
            smp[nm] = make_samples(colour, w, h, "ramp", salt=40 + k)
            f2, p2, e2 = encode_chain("Fl", smp[nm], colour, w)
            xo[nm] = image_xobject(colour, w, h, f2, p2, e2)
        for L in range(1, NAMESEQ_LEN[tier] + 1):
            for tail in itertools.product(NAMESEQ_POOL, repeat=L - 1):
                seq = (NAMESEQ_POOL[shard[1]],) + tail
                images = [{"name": nm, "colour": colour, "w": w, "h": h, "samples": smp[nm], "ext": ".bmp"} for nm in seq]
                for split in ((False, True) if L > 1 else (False,)):
                    # one page, or one page per painting (same writer, later pages)
                    pages = [(do_ops([nm]), {nm: xo[nm]}) for nm in seq] if split else [(do_ops(seq), {nm: xo[nm] for nm in set(seq)})]
                    pdf = doc_with_pages(pages)
                    viols, outcome, ncmp = judge_names_doc(pdf, images)
                    st.states += 1
                    st.transitions += ncmp
                    st.traces += 1
                    st.case(None, nontrivial=L > 1, outcome=outcome, n=len(images))
                    _record(st, viols, {"family": "names", "pdf": pdf, "images": images})
        if shard[1] == 0:
            st.sample({"family": fam, "last_sequence": list(seq)})
    elif fam == "calls":
        pool = call_pool()
        first = shard[1]
        hists = [(first, j) for j in range(len(pool))] + [(first, j, k) for j in range(len(pool)) for k in range(len(pool))]
        for hist in hists:
            pdfs = [pool[i][1] for i in hist]
            images = [pool[i][2] for i in hist]
            viols, outcome, ncmp = judge_calls(pdfs, images)
            st.states += len(hist)
            st.transitions += ncmp
            st.traces += 1
            st.case(None, nontrivial=True, outcome=outcome, n=sum(len(x) for x in images))
            _record(st, viols, {"family": fam, "pdfs": pdfs, "images": images, "history": [pool[i][0] for i in hist]})
        if first == 2:
            st.sample({"family": fam, "history": [pool[i][0] for i in hist], "files_after_each_call": outcome})
    elif fam == "inline-data":
        rig = InlineRig()
        ref = rig.run(PRE + b"q 30 0 0 30 50 50 cm\nQ\n" + POST)[1]
        prefix = INLINE_SIGMA[shard[1]] + INLINE_SIGMA[shard[2]]
        cands = [INLINE_SIGMA[shard[1]]] if shard[2] == 0 else []
        cands += [prefix + b"".join(t) for n in range(0, b["inline_len"] - 1) for t in itertools.product(INLINE_SIGMA, repeat=n)]
        for data in cands:
            if not data_admissible(data):
                st.add("inline_strings_containing_end_marker_not_generated", 1)
                continue
            prog = inline_program(data, len(data), 1)
            for bs in b["bufsizes"] + [4096]:
                try:
                    obs = rig.run(prog, bs)
                except Exception as e:  # noqa
                    obs = e
                viols, outcome = judge_inline(obs, ref, data, len(data), 1, "G8")
                st.states += 1
                st.transitions += 2
                st.traces += 1
                st.case(None, nontrivial=True, outcome=outcome)
                _record(st, viols, {"family": "inline", "program": prog, "bufsiz": bs, "data": data, "w": len(data), "h": 1, "colour": "G8", "decoded": None, "full_doc": False, "context": ""})
        if shard[1:] == (0, 1):
            st.sample({"family": fam, "data": data, "program": prog, "bufsizes": b["bufsizes"] + [4096]})
    elif fam == "inline-align":
        # real documents, default buffer: the 4096 boundary is put on every byte of "ID <data>\nEI\n" (and one before / after)
        ref = observe_layout(list(extract_pages(io.BytesIO(doc_with_pages([(PRE + b"q 30 0 0 30 50 50 cm\nQ\n" + POST, {})]))))[0])[1]
        first = INLINE_SIGMA[shard[1]]
        maxlen = min(b["inline_len"], 3)
        if shard[2] < 0:
            cands = [first]
        else:
            cands = [first + INLINE_SIGMA[shard[2]] + b"".join(t) for n in range(0, maxlen - 1) for t in itertools.product(INLINE_SIGMA, repeat=n)]
        for data in cands:
            if not data_admissible(data):
                continue
            base = inline_program(data, len(data), 1)
            id_at = base.index(b" ID ") + 1
            span = len(b"ID ") + len(data) + len(b"\nEI\n")
            for k in range(-1, span + 1):
                pad = 4096 - (id_at + k)
                prog = inline_program(data, len(data), 1, pad=pad)
                assert prog.index(b" ID ") + 1 + k == 4096
                pdf = doc_with_pages([(prog, {})])
                set_budget(len(prog))
                try:
                    pages = list(extract_pages(io.BytesIO(pdf)))
                    obs = observe_layout(pages[0])
                except Exception as e:  # noqa
                    obs = e
                _BUDGET[0] = 1 << 60
                viols, outcome = judge_inline(obs, ref, data, len(data), 1, "G8")
                st.states += 1
                st.transitions += 2
                st.traces += 1
                st.case(None, nontrivial=True, outcome=outcome + (k,))
                _record(st, viols, {"family": "inline", "program": prog, "bufsiz": 4096, "data": data, "w": len(data), "h": 1, "colour": "G8", "decoded": None, "full_doc": True, "context": ""})
        if shard[1:] == (6, 3):
            st.sample({"family": fam, "data": data, "boundary_offsets_relative_to_ID": [-1, span]})
    elif fam == "inline-filtered":
        colour = shard[1]
        rig = InlineRig()
        ref = rig.run(PRE + b"q 30 0 0 30 50 50 cm\nQ\n" + POST)[1]
        for w in (1, 3, 8, 9):
            for h in (1, 2):
                for pat in PATTERNS:
                    samples = make_samples(colour, w, h, pat)
                    for chain in ("none", "AHx", "A85", "RL", "LZW", "Fl", "A85+Fl", "AHx+A85", "A85+AHx", "AHx+Fl"):
                        filt, parms, enc = encode_chain(chain, samples, colour, w, abbreviated=True)
                        ascii_tail = chain in ("AHx", "A85", "A85+Fl", "AHx+A85", "A85+AHx", "AHx+Fl")
                        if not ascii_tail and (not data_admissible(enc) or enc.endswith(b"\r")):
                            st.add("inline_filtered_payload_containing_end_marker_not_generated", 1)
                            continue
                        prog = inline_program(enc, w, h, colour, filt=filt)
                        try:
                            obs = rig.run(prog)
                        except Exception as e:  # noqa
                            obs = e
                        want_raw = enc
                        viols, outcome = judge_inline(obs, ref, want_raw, w, h, colour, decoded=samples, context="")
                        st.states += 1
                        st.transitions += 2
                        st.traces += 1
                        st.case(None, nontrivial=True, outcome=outcome)
                        case = {"family": "inline", "program": prog, "bufsiz": 4096, "data": enc, "w": w, "h": h, "colour": colour, "decoded": samples, "full_doc": False, "context": ""}
                        _record(st, viols, case)
                        # and through the exporter (file name is derived from the object's id: only content is judged)
                        if pat in ("ramp", "rows") and not isinstance(obs, BaseException):
                            pdf = doc_with_pages([(prog, {})])
                            err, files = export_files(pdf)
                            st.transitions += 1
                            ev = []
                            if err is not None:
                                unf = chain == "none"
                                ev.append(("C18/export-unfiltered-image-IndexError" if err.startswith("IndexError@export_image") and unf else f"C18/export-exception:{err}", "one .bmp", err, "exporting the inline image raised"))
                            elif len(files) != 1 or not list(files)[0].endswith(".bmp"):
                                ev.append(("C18/inline-export-files", "one .bmp", sorted(files), "inline image not exported as one BMP"))
                            else:
                                fn = list(files)[0]
                                ev += judge_bmp("<inline>.bmp", files[fn], colour, w, h, samples)
                            _record(st, ev, {"family": "inline-export", "pdf": pdf, "colour": colour, "w": w, "h": h, "samples": samples, "chain": chain})
        st.sample({"family": fam, "colour": colour, "chain": chain, "program": prog})
    elif fam == "inline-nosep":
        # EI directly after the last data byte (ISO 32000-1 8.9.7 asks for no separator); data ending in CR / LF is left
        # to the separator families (the EOL-stripping convention cannot serve both)
        rig = InlineRig()
        ref = rig.run(PRE + b"q 30 0 0 30 50 50 cm\nQ\n" + POST)[1]
        first = INLINE_SIGMA[shard[1]]
        maxlen = min(b["inline_len"], 3)
        cands = [first + b"".join(t) for n in range(0, maxlen) for t in itertools.product(INLINE_SIGMA, repeat=n)]
        for data in cands:
            if data[-1:] in (b"\r", b"\n"):
                continue
            mm = _END.search(data + b"EI\n")
            if mm is None or mm.start() != len(data):
                st.add("inline_strings_containing_end_marker_not_generated", 1)
                continue
            ctx = ":no-separator-before-EI" + (":data-ends-in-E-or-EI" if data.endswith((b"E", b"EI")) else "")
            prog = inline_program(data, len(data), 1, before_ei=b"")
            for bs in (4096, 1, 3):
                try:
                    obs = rig.run(prog, bs)
                except Exception as e:  # noqa
                    obs = e
                viols, outcome = judge_inline(obs, ref, data, len(data), 1, "G8", context=ctx)
                st.states += 1
                st.transitions += 2
                st.traces += 1
                st.case(None, nontrivial=True, outcome=outcome)
                _record(st, viols, {"family": "inline", "program": prog, "bufsiz": bs, "data": data, "w": len(data), "h": 1, "colour": "G8", "decoded": None, "full_doc": False, "context": ctx})
        if shard[1] == 0:
            st.sample({"family": fam, "data": data, "program": prog})
    elif fam == "inline-streams":
        rig = InlineRig()
        data = STREAM_DATA[shard[1]]
        pieces = stream_pieces(data)
        ref = rig.run(b"\n".join(p for p in pieces if not p.startswith(b"BI ")) + b"\n")[1]
        n = len(pieces)
        for cuts in itertools.combinations(range(1, n), shard[2] - 1):
            bounds = (0,) + cuts + (n,)
            streams = [b"\n".join(pieces[a:z]) + b"\n" for a, z in zip(bounds, bounds[1:])]
            layouts = [(streams, ":contents-array")]
            img_at = next(k for k, p_ in enumerate(pieces) if p_.startswith(b"BI "))
            if img_at + 1 in cuts:
                # the image's EI is the very last thing in a non-last stream; the next stream starts with "Q"
                k = list(bounds).index(img_at + 1) - 1
                bare = list(streams)
                bare[k] = bare[k][:-1]
                layouts.append((bare, ":EI-ends-a-non-last-stream"))
            for (streams, ctx), bs in itertools.product(layouts, (4096, 1, 5)):
                try:
                    obs = rig.run(streams, bs)
                except Exception as e:  # noqa
                    obs = e
                viols, outcome = judge_inline(obs, ref, data, len(data), 1, "G8", context=ctx)
                st.states += 1
                st.transitions += 2
                st.traces += 1
                st.case(None, nontrivial=True, outcome=outcome + (cuts, ctx))
                _record(st, viols, {"family": "inline", "program": streams, "bufsiz": bs, "data": data, "w": len(data), "h": 1, "colour": "G8", "decoded": None, "full_doc": False, "context": ctx, "ref_program": b"\n".join(p for p in pieces if not p.startswith(b"BI ")) + b"\n"})
        if shard[1:] == (1, 2):
            st.sample({"family": fam, "streams": streams, "data": data})
    elif fam == "inline-variants":
        rig = InlineRig()
        ref = rig.run(PRE + b"q 30 0 0 30 50 50 cm\nQ\n" + POST)[1]
        ref_nopost = rig.run(PRE + b"q 30 0 0 30 50 50 cm\nQ\n")[1]
        data = b"\x10\x80\xf0"
        a85 = codecs.a85_encode(data)
        variants = [
            (":LF-after-ID", inline_program(data, 3, 1, id_sep=b"\n"), data, None, ref),
            (":full-key-names", inline_program(data, 3, 1, full_keys=True), data, None, ref),
            (":EI-ends-the-stream", inline_program(data, 3, 1, after_ei=b"", post=b"")[: -len(b"Q\n")], data, None, ref_nopost),
            (":EI-then-EOL-ends-the-stream", inline_program(data, 3, 1, post=b"")[: -len(b"Q\n")], data, None, ref_nopost),
            (":A85-EOD-directly-before-EI", inline_program(a85, 3, 1, filt=N("A85"), before_ei=b""), a85, data, ref),
            (":A85-LF-before-EI", inline_program(a85, 3, 1, filt=N("A85")), a85, data, ref),
            (":A85-as-second-filter-name-array", inline_program(a85, 3, 1, filt=[N("A85")]), a85, data, ref),
            (":two-inline-images", None, data, None, ref),
        ]
        # the single white-space character after ID (ISO 32000-1 8.9.7) ranges over all six; the data may itself start with
        # white space -- in particular ID CR followed by data that starts with LF is a separator plus a data byte
        for sep in (b"\x00", b"\t", b"\n", b"\x0c", b"\r", b" "):
            for first in (b"\n", b"\r", b" ", b"\x00", b"\t", b"\x0c", b"x", b"E"):
                for rest in (b"\x80", b"\n\x80"):
                    d2 = first + rest
                    variants.append((":ID-sep-%s-data-starts-%s" % (sep.hex(), first.hex()), inline_program(d2, len(d2), 1, id_sep=sep), d2, None, ref))
        for ctx, prog, raw, decoded, r in variants:
            if prog is None:
                continue
            for bs in (4096, 3, 1):
                try:
                    obs = rig.run(prog, bs)
                except Exception as e:  # noqa
                    obs = e
                wv = 3 if decoded is not None else len(raw)
                viols, outcome = judge_inline(obs, r, raw, wv, 1, "G8", decoded=decoded, context=ctx)
                st.states += 1
                st.transitions += 2
                st.traces += 1
                st.case(None, nontrivial=True, outcome=outcome + (ctx,))
                _record(st, viols, {"family": "inline", "program": prog, "bufsiz": bs, "data": raw, "w": wv, "h": 1, "colour": "G8", "decoded": decoded, "full_doc": False, "context": ctx, "nopost": r is ref_nopost})
        # two inline images in one stream, with text between: both delivered, in order
        p1 = inline_program(b"ab", 2, 1, post=b"")
        p2 = inline_program(b"\x00\xffE", 3, 1)
        try:
            imgs, chars = rig.run(p1 + p2)
            got = [i.stream.get_data() for i in imgs]
        except Exception as e:  # noqa
            got = exc_sig(e)
        st.states += 1
        st.transitions += 1
        st.traces += 1
        st.case(None, nontrivial=True, outcome=("two", repr(got)))
        if got != [b"ab", b"\x00\xffE"]:
            st.violation("C18/inline-two-images", {"family": "inline-two", "program": p1 + p2}, [b"ab", b"\x00\xffE"], got, "two inline images in one stream")
    else:
        raise ValueError(shard)


# ----------------------------------------------------------------------------------------------
def replay(case):
    fam = case["family"]
    if fam == "xobject":
        viols, _, _ = judge_xobject_doc(case["pdf"], case["images"])
    elif fam == "names":
        viols, _, _ = judge_names_doc(case["pdf"], case["images"])
    elif fam == "calls":
        viols, _, _ = judge_calls(case["pdfs"], case["images"])
    elif fam == "inline":
        rig = InlineRig()
        body = PRE + b"q 30 0 0 30 50 50 cm\nQ\n" + (b"" if case.get("nopost") else POST)
        if case.get("ref_program") is not None:
            body = case["ref_program"]
        ref = rig.run(body)[1]
        try:
            if case.get("full_doc"):
                ref = observe_layout(list(extract_pages(io.BytesIO(doc_with_pages([(body, {})]))))[0])[1]
                pdf = doc_with_pages([(case["program"], {})])
                set_budget(len(case["program"]))
                obs = observe_layout(list(extract_pages(io.BytesIO(pdf)))[0])
            else:
                obs = rig.run(case["program"], case["bufsiz"])
        except Exception as e:  # noqa
            obs = e
        viols, _ = judge_inline(obs, ref, case["data"], case["w"], case["h"], case["colour"], decoded=case.get("decoded"), context=case.get("context", ""))
    elif fam == "inline-export":
        err, files = export_files(case["pdf"])
        viols = []
        if err is not None:
            unf = case["chain"] == "none"
            viols.append(("C18/export-unfiltered-image-IndexError" if err.startswith("IndexError@export_image") and unf else f"C18/export-exception:{err}", "one .bmp", err, ""))
        elif len(files) != 1 or not list(files)[0].endswith(".bmp"):
            viols.append(("C18/inline-export-files", "one .bmp", sorted(files), ""))
        else:
            viols += judge_bmp("<inline>.bmp", files[list(files)[0]], case["colour"], case["w"], case["h"], case["samples"])
    elif fam == "inline-two":
        rig = InlineRig()
        try:
            imgs, chars = rig.run(case["program"])
            got = [i.stream.get_data() for i in imgs]
        except Exception as e:  # noqa
            got = exc_sig(e)
        viols = [] if got == [b"ab", b"\x00\xffE"] else [("C18/inline-two-images", [b"ab", b"\x00\xffE"], got, "")]
    else:
        raise ValueError(fam)
    return [{"signature": s, "expected": repr(e), "observed": repr(o)} for s, e, o, _ in viols]
