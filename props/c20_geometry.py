"""C20 -- affine algebra of the matrix helpers; Plane == brute force.

Algebra (shape B): all pairs and triples over a pool of structured exact
matrices x points x rectangles, against an independent 3x3 reference and the
laws of the statement.  Index (shape A): explicit-state BFS over add/remove
histories on the real ``Plane``; in every state all query boxes of a
half-integer lattice are compared with brute force, and iteration/len/in with a
list model.
"""
from __future__ import annotations

import itertools
from fractions import Fraction as Fr

from pdfminer import utils
from mc.explore import bfs

ID = "C20"
LEVEL = "model_checking"

H = Fr(1, 2)


def _pool():
    ms = [(Fr(1), Fr(0), Fr(0), Fr(1), Fr(0), Fr(0))]
    vals = [Fr(-2), Fr(-1), -H, H, Fr(1), Fr(3)]
    # translations
    for e, f in [(1, 0), (0, -2), (H, 3), (-H, -1), (3, H), (-2, -2)]:
        ms.append((Fr(1), Fr(0), Fr(0), Fr(1), Fr(e), Fr(f)))
    # scalings (incl. reflections), some with translation
    for a, d in [(2, 2), (H, H), (-1, 1), (1, -1), (-2, H), (3, -H), (-H, -H), (2, H)]:
        ms.append((Fr(a), Fr(0), Fr(0), Fr(d), Fr(0), Fr(0)))
    for a, d, e, f in [(2, H, 1, -1), (-1, -1, H, H), (H, 3, -2, 1)]:
        ms.append((Fr(a), Fr(0), Fr(0), Fr(d), Fr(e), Fr(f)))
    # rotations by multiples of 90 degrees, scaled and translated
    rots = [(0, 1, -1, 0), (-1, 0, 0, -1), (0, -1, 1, 0)]
    for (a, b, c, d) in rots:
        for s, e, f in [(1, 0, 0), (2, 1, -1), (H, -H, 3)]:
            ms.append((Fr(a) * s, Fr(b) * s, Fr(c) * s, Fr(d) * s, Fr(e), Fr(f)))
    # shears and general invertible
    for a, b, c, d, e, f in [
        (1, H, 0, 1, 0, 0), (1, 0, -2, 1, 0, 0), (1, 1, 1, -1, 0, 0), (2, 1, 1, 1, H, -H),
        (1, -H, H, 1, 1, 1), (3, 1, -1, 2, -2, 3), (-H, 1, 1, H, 0, -1), (1, 3, 0, -2, 1, 0),
    ]:
        ms.append(tuple(Fr(x) for x in (a, b, c, d, e, f)))
    # every sign pattern of the linear part (each rectangle corner is the unique extreme point for some of them)
    for sa in (1, -1):
        for sb in (1, -1):
            for sc in (1, -1):
                for sd in (1, -1):
                    ms.append((Fr(sa), sb * H, sc * H, Fr(sd) * 2, Fr(0), Fr(0)))
                    ms.append((sa * H, Fr(sb) * 3, Fr(sc), sd * H, Fr(1), -H))
    # singular
    for a, b, c, d, e, f in [
        (0, 0, 0, 0, 0, 0), (1, 0, 0, 0, 0, 0), (0, 0, 0, 1, 1, 1), (1, 1, 1, 1, 0, 0), (2, -1, -2, 1, H, 0),
        (0, 1, 0, 0, 0, 0), (0, 0, 3, 0, -1, 2), (1, 2, H, 1, 3, 3),
    ]:
        ms.append(tuple(Fr(x) for x in (a, b, c, d, e, f)))
    return ms


POOL = _pool()
POINTS = [(Fr(x), Fr(y)) for x, y in [(0, 0), (1, 0), (0, 1), (-1, -1), (H, 3), (-2, H), (3, -H), (5, 7), (-H, -H)]]
# the last four are written with their corners in another order (x0 > x1 and/or y0 > y1), as a /BBox or /Rect may be
# (added after seeded defect C20_14, a corner-order-blind fast path, was missed)
RECTS = [tuple(Fr(v) for v in r) for r in [(0, 0, 1, 1), (-1, -2, 3, H), (H, H, 2, 5), (-3, -3, -1, -H), (0, 0, 0, 0),
                                           (3, 5, 1, 2), (3, 2, 1, 5), (1, 5, 3, 2), (0, 0, 0, -3)]]

META = {
    "rule": (
        "algebra: every ordered pair (quick) / pair and triple (thorough: all; quick: triples over the first-index shard "
        "x a 14-matrix sub-pool) of a pool of structured exact-rational matrices (identity, translations, scalings/"
        "reflections, 90-degree rotations, shears, singular) x 9 points x 5 rectangles, compared with an independent "
        "3x3 reference and the stated laws; index: BFS over add/remove/re-add histories of an 8-box pool (incl. a zero-width rule and a point on grid lines) on the real "
        "Plane for 3 bounds (one with x0 != y0) x 3 grid sizes, canonical state = (_seq ids, _objs ids, sorted grid), in every state 100 "
        "query boxes (one covering the whole plane) compared with brute force plus iter/len/in against a list model. non-trivial = algebra case with "
        "a non-identity, non-zero factor, or index state with at least one live object; states/transitions = BFS "
        "states/edges + algebra tuples; traces = histories replayed on a fresh Plane + algebra tuples compared."
    ),
    "bound": {"quick": "pool=%d matrices: all pairs, triples with 2nd/3rd factor from 14; index depth 5" % len(POOL),
              "thorough": "all pairs and all triples; index depth 7"},
    "assumptions": [
        "Plane is specified over its constructor bounds: objects or queries that do not properly overlap the bounds are not judged for find()",
        "zero-width/zero-height boxes are judged with the strict-inequality reading of 'properly overlap' (o.x0 < q.x1 and q.x0 < o.x1, same for y); adding an object that is already live is not generated (statement silent)",
        "matrix entries outside the pool, and float round-off, are not explored (components are exact Fractions as the statement says)",
    ],
}


# ------------------------------------------------------------------ reference
def ref_mat3(m):
    a, b, c, d, e, f = m
    return ((a, b, Fr(0)), (c, d, Fr(0)), (e, f, Fr(1)))


def ref_mul3(A, B):
    return tuple(tuple(sum(A[i][k] * B[k][j] for k in range(3)) for j in range(3)) for i in range(3))


def ref_mult(m1, m0):
    """row-vector convention: apply m1 first, then m0  ->  M1 x M0"""
    P = ref_mul3(ref_mat3(m1), ref_mat3(m0))
    return (P[0][0], P[0][1], P[1][0], P[1][1], P[2][0], P[2][1])


def ref_apply(m, p):
    M = ref_mat3(m)
    v = (p[0], p[1], Fr(1))
    return tuple(sum(v[k] * M[k][j] for k in range(3)) for j in range(2))


def algebra_pair(i, j, st):
    m1, m0 = POOL[i], POOL[j]
    case = {"kind": "pair", "m1": m1, "m0": m0}
    prod = tuple(utils.mult_matrix(m1, m0))
    exp = ref_mult(m1, m0)
    st.states += 1
    st.transitions += 1
    st.traces += 1
    st.case(None, nontrivial=(i != 0 and j != 0), outcome=prod)
    if prod != exp:
        st.violation("C20/mult_matrix-vs-3x3-reference", case, exp, prod, "mult_matrix(m1,m0) != M1*M0")
    if i == 0:
        if tuple(utils.mult_matrix(m1, m0)) != m0 or tuple(utils.mult_matrix(m0, m1)) != m0:
            st.violation("C20/identity-law", case, m0, prod, "identity is not a unit")
    for p in POINTS:
        got = tuple(utils.apply_matrix_pt(prod, p))
        via = tuple(utils.apply_matrix_pt(m0, utils.apply_matrix_pt(m1, p)))
        if got != via:
            st.violation("C20/apply-composed", {**case, "p": p}, via, got, "apply(mult(m1,m0),p) != apply(m0,apply(m1,p))")
    if j == 0:
        # single-matrix laws, once per m1
        for p in POINTS:
            got = tuple(utils.apply_matrix_pt(m1, p))
            if got != ref_apply(m1, p):
                st.violation("C20/apply_matrix_pt", {"kind": "single", "m": m1, "p": p}, ref_apply(m1, p), got, "apply_matrix_pt")
            n = tuple(utils.apply_matrix_norm(m1, p))
            o = ref_apply(m1, (Fr(0), Fr(0)))
            q = ref_apply(m1, p)
            if n != (q[0] - o[0], q[1] - o[1]):
                st.violation("C20/apply_matrix_norm", {"kind": "single", "m": m1, "p": p}, (q[0] - o[0], q[1] - o[1]), n, "norm")
            t = tuple(utils.translate_matrix(m1, p))
            et = ref_mult((Fr(1), Fr(0), Fr(0), Fr(1), p[0], p[1]), m1)
            if t != et:
                st.violation("C20/translate_matrix", {"kind": "single", "m": m1, "p": p}, et, t, "translate inside the projection")
        for r in RECTS:
            got = tuple(utils.apply_matrix_rect(m1, r))
            cs = [ref_apply(m1, c) for c in ((r[0], r[1]), (r[2], r[1]), (r[2], r[3]), (r[0], r[3]))]
            exp_r = (min(c[0] for c in cs), min(c[1] for c in cs), max(c[0] for c in cs), max(c[1] for c in cs))
            st.case(None, nontrivial=True, outcome=got)
            if got != exp_r:
                st.violation("C20/apply_matrix_rect", {"kind": "single", "m": m1, "r": r}, exp_r, got, "hull of four corners")


def algebra_triple(i, j, k, st):
    a, b, c = POOL[i], POOL[j], POOL[k]
    l = tuple(utils.mult_matrix(utils.mult_matrix(a, b), c))
    r = tuple(utils.mult_matrix(a, utils.mult_matrix(b, c)))
    exp = ref_mult(ref_mult(a, b), c)
    st.states += 1
    st.transitions += 1
    st.traces += 1
    st.case(None, nontrivial=(i != 0 and j != 0 and k != 0), outcome=l)
    if l != r or l != exp:
        st.violation("C20/associativity", {"kind": "triple", "a": a, "b": b, "c": c}, exp, [l, r], "(ab)c != a(bc) or != reference")


# ----------------------------------------------------------------------- index
class Box:
    __slots__ = ("x0", "y0", "x1", "y1", "name")

    def __init__(self, name, x0, y0, x1, y1):
        self.name, self.x0, self.y0, self.x1, self.y1 = name, x0, y0, x1, y1

    def __repr__(self):
        return self.name


BOXES = [
    ("A", -3.5, -3.5, -0.5, -0.5),  # ends at a negative fractional coordinate
    ("B", 0.5, 0.5, 1.5, 1.5),  # inside one cell
    ("C", -1.0, -1.0, 2.0, 2.0),  # across the origin, on cell edges
    ("D", 3.0, 3.0, 6.0, 6.0),  # across the first bounds' edge
    ("E", 5.0, 5.0, 7.0, 7.0),  # outside the first bounds, inside the second
    ("F", -0.5, 1.0, 0.5, 3.0),  # straddles coordinate 0 with fractional ends
    ("V", 2.0, 0.5, 2.0, 2.5),  # zero-width rule lying exactly on a grid line of every grid size... (2 = 1*2 = 2*1)
    ("Z", 6.0, 1.0, 6.0, 1.0),  # a point on a grid line (6 is a multiple of 1, 2 and 3)
]
# the third has x0 > y0 and x1 != y1 (added after seeded defect C20_5, a y/x mix-up invisible on square-origin bounds, was missed)
BOUNDS = [(-4.0, -4.0, 4.0, 4.0), (0.0, 0.0, 8.0, 8.0), (1.0, -3.0, 7.0, 5.0)]
GRIDS = [1, 2, 3]
# the last interval covers every bounds entirely (added after seeded defect C20_6, a whole-plane shortcut in find(), was missed)
INTERVALS = [(-5.0, -3.5), (-3.0, -0.5), (-0.7, 0.0), (-0.7, 2.0), (-0.5, 0.5), (0.5, 1.5), (1.5, 3.0), (2.0, 8.5), (5.5, 9.0), (-5.0, 9.0)]
QUERIES = [(ax[0], ay[0], ax[1], ay[1]) for ax in INTERVALS for ay in INTERVALS]
# degenerate query boxes: probe lines and probe points (added after seeded defect C20_12, an "empty search area" shortcut, was missed).
# Under the index's own overlap predicate a zero-width query still meets every object whose interior it crosses.
DEGEN = [(1.0, 1.0), (-2.0, -2.0), (5.5, 5.5), (2.0, 2.0)]
SOME = [(-0.7, 2.0), (0.5, 1.5), (2.0, 8.5), (-5.0, 9.0)]
QUERIES += [(ax[0], ay[0], ax[1], ay[1]) for ax in DEGEN for ay in DEGEN]
QUERIES += [(ax[0], ay[0], ax[1], ay[1]) for ax in DEGEN for ay in SOME] + [(ax[0], ay[0], ax[1], ay[1]) for ax in SOME for ay in DEGEN]
# pairs of queries whose iterators are consumed interleaved (added after seeded defect C20_7 was missed)
INTERLEAVED = [((-5.0, -5.0, 9.0, 9.0), (-5.0, -5.0, 9.0, 9.0)), ((-5.0, -5.0, 9.0, 9.0), (0.5, 0.5, 1.5, 1.5)), ((-0.7, -0.7, 2.0, 2.0), (-5.0, -5.0, 9.0, 9.0))]


def proper(a, b):
    return a[0] < b[2] and b[0] < a[2] and a[1] < b[3] and b[1] < a[3]


def build_plane(bounds, grid, hist, observe=None):
    """observe=k: look at the plane (iteration, len, repr, one find) once, just before operation k - an observation must not
    change what later operations and observations see (added after seeded defect C20_15, a stale iteration snapshot, was missed)"""
    objs = {n: Box(n, *c) for (n, *c) in BOXES}
    pl = utils.Plane(bounds, gridsize=grid)
    live = []
    pl._verif_errors = []  # exceptions raised by add/remove on legal calls (judged in check_plane)
    for k, (op, n) in enumerate(hist):
        if observe == k:
            list(pl), len(pl), repr(pl), list(pl.find(bounds))
        try:
            if op == "add":
                pl.add(objs[n])
            elif op == "extg":  # extend() with a one-shot iterator (added after seeded defect C20_11 was missed)
                pl.extend(o for o in [objs[n]])
            elif op == "extl":
                pl.extend([objs[n]])
            elif op == "rmx":
                # removing an object that is not in the plane is rejected and must leave the plane as it was
                # (added after seeded defect C20_21 was missed)
                try:
                    pl.remove(objs[n])
                except KeyError:
                    pass
                continue
            else:
                pl.remove(objs[n])
        except Exception as e:  # noqa
            pl._verif_errors.append(f"{op} {n}: {type(e).__name__}")
        if op == "rmx":
            pass
        elif op != "remove":
            live.append(n)
        else:
            live.remove(n)
    return pl, objs, live


def canon_plane(state):
    pl, objs, live = state
    if not all(hasattr(pl, a) for a in ("_seq", "_objs", "_grid")):
        # representation changed: fall back to the publicly observable state (finer or equal; never merges wrongly)
        return (tuple(o.name for o in pl), tuple(tuple(sorted(o.name for o in pl.find(q))) for q in QUERIES))
    return (
        tuple(o.name for o in pl._seq),
        tuple(sorted(o.name for o in pl._objs)),
        tuple(sorted((k, tuple(o.name for o in v)) for k, v in pl._grid.items() if v)),
    )


def check_plane(bounds, grid, state, hist, st):
    pl, objs, live = state
    case = {"kind": "plane", "bounds": bounds, "grid": grid, "hist": list(hist)}
    st.case(None, nontrivial=bool(live), outcome=(tuple(live)))
    for err in getattr(pl, "_verif_errors", []):
        st.violation("C20/plane-operation-raises:" + err.split(": ")[1], case, "no exception", err, "add/remove of a legal object raised")
    # two find() iterators consumed interleaved must not disturb each other
    for qa, qb in INTERLEAVED:
        if proper(qa, bounds) and proper(qb, bounds):
            alone = [o.name for o in pl.find(qa)]
            it = pl.find(qa)
            first = [o.name for o in itertools.islice(it, 1)]
            list(pl.find(qb))
            mixed = first + [o.name for o in it]
            if mixed != alone:
                st.violation("C20/plane-find-interleaved-iterators", {**case, "query": qa, "other": qb}, alone, mixed, "a find() in progress is disturbed by another find()")
    got_iter = [o.name for o in pl]
    if got_iter != live:
        st.violation("C20/plane-iter-order-or-duplicates", case, live, got_iter, "iteration != live objects in insertion order, each once")
    if len(pl) != len(live):
        st.violation("C20/plane-len", case, len(live), len(pl), "len")
    for n, o in objs.items():
        if (o in pl) != (n in live):
            st.violation("C20/plane-contains", {**case, "obj": n}, n in live, o in pl, "in")
    for q in QUERIES + [tuple(bounds)]:  # also the query that is exactly the plane
        if not proper(q, bounds):
            st.not_judged["query outside bounds"] += 1
            continue
        got = [o.name for o in pl.find(q)]
        boxes = {n: (objs[n].x0, objs[n].y0, objs[n].x1, objs[n].y1) for n in live}
        exp = sorted(n for n in live if proper(boxes[n], q) and proper(boxes[n], bounds))
        amb = [n for n in live if proper(boxes[n], q) and not proper(boxes[n], bounds)]
        st.add("find_queries", 1)
        if sorted(got) != exp or len(set(got)) != len(got):
            extra = [n for n in got if n not in exp and n not in amb]
            missing = [n for n in exp if n not in got]
            dup = len(set(got)) != len(got)
            if not extra and not missing and not dup:
                continue  # only objects outside the bounds differ: not judged
            neg = any(v < 0 and v != int(v) for n in missing for v in boxes[n]) or any(v < 0 and v != int(v) for v in q)
            sig = "C20/plane-find-" + ("duplicate" if dup else "missing-negative-fractional" if missing and neg and not extra else "missing" if missing else "extra")
            st.violation(sig, {**case, "query": q}, exp, got, "find != brute-force proper overlap")


# ---- planes with far more than 1000 grid cells (added after seeded defect C20_13, a cell budget in _getrange, was missed)
BIG_BOUNDS = [(0.0, 0.0, 2000.0, 2000.0, 50), (-300.0, -100.0, 150.0, 200.0, 5), (0.0, 0.0, 90.0, 40.0, 1)]
BIG_BOXES = [("bg", 0.0, 0.0, 1.0, 1.0), ("hi", 0.95, 0.95, 0.955, 0.955), ("lo", 0.005, 0.005, 0.01, 0.01), ("band", 0.0, 0.6, 1.0, 0.62), ("col", 0.7, 0.0, 0.72, 1.0)]
BIG_Q = [0.0, 0.004, 0.3, 0.61, 0.71, 0.952, 1.0]


def run_bigplane(bi, st):
    x0, y0, x1, y1, grid = BIG_BOUNDS[bi]
    w, h = x1 - x0, y1 - y0
    objs = {n: Box(n, x0 + a * w, y0 + b * h, x0 + c * w, y0 + d * h) for (n, a, b, c, d) in BIG_BOXES}
    names = list(objs)
    queries = [(x0 + a * w, y0 + b * h, x0 + c * w, y0 + d * h) for a in BIG_Q for c in BIG_Q if a < c for b in BIG_Q for d in BIG_Q if b < d]
    for order in itertools.permutations(names):
        for removed in [None] + names:
            pl = utils.Plane((x0, y0, x1, y1), gridsize=grid)
            hist = []
            for n in order:
                pl.add(objs[n])
                hist.append(("add", n))
            live = list(order)
            if removed:
                pl.remove(objs[removed])
                live.remove(removed)
                hist.append(("remove", removed))
            st.states += 1
            st.transitions += len(hist)
            st.traces += 1
            st.case(None, nontrivial=True, outcome=("big", bi, tuple(live)))
            case = {"kind": "bigplane", "bounds": bi, "hist": hist}
            if [o.name for o in pl] != live:
                st.violation("C20/plane-iter-order-or-duplicates", case, live, [o.name for o in pl], "iteration != live objects in insertion order")
            # one order is enough for the full query grid (find does not depend on insertion order beyond the result order)
            if order != tuple(names) and removed is not None:
                continue
            for q in queries:
                got = sorted(o.name for o in pl.find(q))
                exp = sorted(n for n in live if proper((objs[n].x0, objs[n].y0, objs[n].x1, objs[n].y1), q))
                st.add("find_queries", 1)
                if got != exp:
                    st.violation("C20/plane-find-missing" if set(exp) - set(got) else "C20/plane-find-extra", {**case, "query": q}, exp, got, "find != brute-force proper overlap (plane of more than 1000 cells)")
                    return


def run_crossplanes(grid, st):
    """Two planes with different bounds in ONE process, holding the same box objects: the second must answer as if the first had
    never existed (added after seeded defect C20_19, a cell cache shared between planes, was missed)"""
    names = [b[0] for b in BOXES]
    for ba, bb in itertools.permutations(BOUNDS, 2):
        for order in (names, names[::-1]):
            hist = tuple(("add", n) for n in order)
            first = build_plane(ba, grid, hist)
            for q in QUERIES[:40]:
                if proper(q, ba):
                    list(first[0].find(q))
            state = build_plane(bb, grid, hist)
            st.states += 2
            st.transitions += 2 * len(hist)
            st.traces += 1
            n0 = len(st.violations)
            check_plane(bb, grid, state, hist, st)
            for v in st.violations[n0:]:
                v["case"] = {"kind": "crossplanes", "grid": grid}
                v["signature"] = v["signature"] + ":after-another-plane"


def run_index(bounds, grid, first, depth, st):
    names = [b[0] for b in BOXES]

    def build(h):
        return build_plane(bounds, grid, h)

    def enabled(state, h):
        live = state[2]
        for n in names:
            if n not in live:
                yield ("add", n)
                yield ("extg", n)
                yield ("extl", n)
                yield ("rmx", n)
        for n in live:
            yield ("remove", n)

    def check(state, h):
        check_plane(bounds, grid, state, h, st)
        st.traces += 1
        # the same history with ONE observation at any earlier point must end in the same observable state
        pl1 = state[0]
        exp = ([o.name for o in pl1], len(pl1), sorted(o.name for o in pl1.find(bounds)))
        for k in range(1, len(h)):
            pl2, objs2, live2 = build_plane(bounds, grid, h, observe=k)
            got = ([o.name for o in pl2], len(pl2), sorted(o.name for o in pl2.find(bounds)))
            st.transitions += len(h)
            if got != exp or got[0] != live2:
                st.violation("C20/plane-observation-changes-state", {"kind": "plane", "bounds": bounds, "grid": grid, "hist": list(h), "observed": k}, exp, got,
                             "looking at the plane between two operations changes what is seen afterwards")
                break

    r = bfs([("add", first)], enabled, build, canon_plane, check, depth - 1)
    st.states += r["states"]
    st.transitions += r["transitions"]
    st.add("index_states", r["states"])
    st.add("index_frontier_at_bound", r["frontier_at_bound"])
    return r


SUB = [0, 2, 5, 8, 10, 15, 18, 21, 24, 27, 30, 34, 38, 41, 44, 51, 58, 65]


def shards(tier):
    out = [("pairs", i) for i in range(len(POOL))]
    out += [("triples", i) for i in range(len(POOL))]
    out += [("bigplane", i) for i in range(len(BIG_BOUNDS))]
    out += [("crossplanes", g) for g in GRIDS]
    depth = 5 if tier == "quick" else 7
    for b in range(len(BOUNDS)):
        for g in GRIDS:
            for n in [x[0] for x in BOXES]:
                out.append(("index", b, g, n, depth))
    return out


# the same numbers in another numeric type: a product asked for with floats (whose product is NOT representable: the
# components are 1 +- 2**-30) and then with equal Fractions / ints -- the exact call gets the exact product
EPS = Fr(1, 2 ** 30)
MIXED = [
    ((1 + EPS, Fr(0), Fr(0), 1 - EPS, Fr(0), Fr(0)), (1 + EPS, Fr(0), Fr(0), 1 + EPS, Fr(1), Fr(2))),
    ((1 - EPS, EPS, -EPS, 1 + EPS, Fr(3), Fr(0)), (1 - EPS, Fr(0), Fr(0), 1 - EPS, Fr(0), 1 + EPS)),
    ((Fr(2), Fr(0), Fr(0), Fr(3), Fr(1), Fr(1)), (Fr(5), Fr(1), Fr(0), Fr(7), Fr(2), Fr(0))),
]


def run_mixed(st):
    for m1, m0 in MIXED:
        for first in ("float", "int-or-float"):
            f1, f0 = tuple(float(x) for x in m1), tuple(float(x) for x in m0)
            if first == "int-or-float":
                f1 = tuple(int(x) if x.denominator == 1 else float(x) for x in m1)
            utils.mult_matrix(f1, f0)  # history: the same numbers, another type
            prod = tuple(utils.mult_matrix(m1, m0))
            exp = ref_mult(m1, m0)
            st.states += 1
            st.transitions += 2
            st.traces += 1
            st.case(None, nontrivial=True, outcome=prod)
            if prod != exp or any(type(x) is not type(y) for x, y in zip(prod, exp)):
                st.violation("C20/mult_matrix-depends-on-earlier-call-with-other-number-type", {"kind": "mixed", "m1": m1, "m0": m0}, exp, prod,
                             "mult_matrix on exact numbers after the same call with equal floats")


def run_shard(shard, tier, st):
    if shard[0] == "pairs":
        i = shard[1]
        if i == 0:
            run_mixed(st)
        for j in range(len(POOL)):
            algebra_pair(i, j, st)
        if i in (3, 20):
            st.sample({"pair": [POOL[i], POOL[7]], "product": tuple(utils.mult_matrix(POOL[i], POOL[7]))})
    elif shard[0] == "triples":
        i = shard[1]
        js = range(len(POOL)) if tier == "thorough" else SUB
        for j in js:
            for k in js:
                algebra_triple(i, j, k, st)
    elif shard[0] == "crossplanes":
        run_crossplanes(shard[1], st)
        if shard[1] == 1:
            st.sample({"family": "crossplanes", "bounds_pairs": 6, "grid": 1})
    elif shard[0] == "bigplane":
        run_bigplane(shard[1], st)
        if shard[1] == 0:
            st.sample({"family": "bigplane", "bounds": BIG_BOUNDS, "boxes": [b[0] for b in BIG_BOXES]})
    else:
        _, b, g, n, depth = shard
        r = run_index(BOUNDS[b], g, n, depth, st)
        if (b, g, n) == (0, 1, "A"):
            st.sample({"bounds": BOUNDS[b], "gridsize": g, "history": [["add", "A"], ["add", "C"], ["remove", "A"], ["add", "A"]],
                       "queries_per_state": len(QUERIES), "bfs": r})


def replay(case):
    from mc.core import Stats

    st = Stats()
    k = case["kind"]
    if k == "crossplanes":
        run_crossplanes(case["grid"], st)
        return [{"signature": v["signature"], "expected": repr(v["expected"]), "observed": repr(v["observed"])} for v in st.violations]
    if k == "bigplane":
        run_bigplane(case["bounds"], st)
        return [{"signature": v["signature"], "expected": repr(v["expected"]), "observed": repr(v["observed"])} for v in st.violations]
    if k == "plane":
        hist = tuple(tuple(x) for x in case["hist"])
        state = build_plane(tuple(case["bounds"]), case["grid"], hist)
        check_plane(tuple(case["bounds"]), case["grid"], state, hist, st)
        if case.get("observed"):
            b = tuple(case["bounds"])
            pl2, _, live2 = build_plane(b, case["grid"], hist, observe=case["observed"])
            got = ([o.name for o in pl2], len(pl2), sorted(o.name for o in pl2.find(b)))
            exp = ([o.name for o in state[0]], len(state[0]), sorted(o.name for o in state[0].find(b)))
            if got != exp or got[0] != live2:
                st.violation("C20/plane-observation-changes-state", case, exp, got, "observation changes state")
    elif k == "mixed":
        run_mixed(st)
    elif k == "pair":
        i, j = POOL.index(tuple(case["m1"])), POOL.index(tuple(case["m0"]))
        algebra_pair(i, j, st)
    elif k == "single":
        algebra_pair(POOL.index(tuple(case["m"])), 0, st)
    else:
        algebra_triple(POOL.index(tuple(case["a"])), POOL.index(tuple(case["b"])), POOL.index(tuple(case["c"])), st)
    return [{"signature": v["signature"], "expected": v["expected"], "observed": v["observed"]} for v in st.violations]
