"""C11 -- converters: text output is the tree's text; XML is well-formed and faithful.

Shape B.  A fixed two-page document skeleton (two-line text box, further boxes,
a TJ gap, rectangle, line, curve, image XObject, form XObject with text and a
nested form, vertical glyph stack) has six *slots* that take document
controlled strings: two adjacent glyphs' ToUnicode values, a glyph inside the
form, the font name, the form XObject name and the image XObject name.  Every
slot ranges over an alphabet of XML-special / control / non-ASCII strings;
choice vectors are enumerated deviation-bounded (<= 1 or <= 2 non-default
slots).  Every document is converted under every LAParams variant x
{text, xml} x {StringIO, BytesIO+codec} x strip_control and compared with the
LTPage trees that ``extract_pages`` returns for the same bytes and parameters.
XML well-formedness is judged by expat.
"""
from __future__ import annotations

import io
import os
import re
import tempfile
import traceback
import xml.etree.ElementTree as ET
from xml.parsers import expat

from mc.core import h64
from mc.explore import Chooser
from mc.pdfgen import Doc, N, Ref, Stream, tounicode_cmap
from mc.refs.forkrun import fork_call

ID = "C11"
LEVEL = "model_checking"
DEADLINE = {"quick": 1200, "thorough": 3 * 3600}

# ----------------------------------------------------------------- alphabets
# index 0 of every slot is the plain default
TEXT_SPECIALS = [
    "&", "<", ">", '"', "'", "]]>", "&amp;", "&#65;", "<b>", "<!--", "<?x",
    "\t", "\n", "\r", "\x00", "\x01", "\x08", "\x0b", "\x0c", "\x0e", "\x1f", "\x7f", "\x85", "\xa0",
    "\xe9", "\u20ac", "\U0001F600", "e\u0301", "\ufeff", "\u2028", "\ufffd", "\uffff",
    " ", "%s", "{0}", "\\",
    "\u3042",  # representable in the stateful codecs below: the ASCII that follows it is written while the encoder is shifted
]
NAME_SPECIALS = [
    b"A&B", b"A<B", b"A>B", b'A"B', b"A'B", b"A]]>B", b"A&amp;B", b'A"><x y="B', b'A"/><figure name="B',
    b"A\tB", b"A\nB", b"A\rB", b"A\x01B", b"A\x0bB", b"A\x1fB", b"A\x7fB",
    "A\xe9B".encode(), "A\u20acB".encode(), "A\U0001F600B".encode(), "A\uffffB".encode(), b"A\xffB",
    b"A B", b"A%sB", b"A#B", b"A/B", b"A{0}B", b"A\\B", b"A+B",
]
TEXT_SMALL = ["&", "<", '"', "\x0b", "\r", "\U0001F600"]
NAME_SMALL = [b"A&B", b"A<B", b'A"/><figure name="B', b"A\x0bB", b"A\rB", "A\U0001F600B".encode()]
PAGE2 = ["vertical-stack+text", "rect-only", "empty", "no /Contents entry", "/Contents []"]

LAPARAMS = [None, {}, {"boxes_flow": None}, {"all_texts": True}, {"detect_vertical": True, "all_texts": True}]
CODECS = ["utf-8", "utf-16", "utf-32", "latin-1"]
# codecs whose encoder carries a shift state from one write to the next (ISO-2022 escape sequences, UTF-7 base64 runs):
# what reaches a binary sink must still decode, as one stream, to the same characters (default LAParams only)
STATEFUL_CODECS = ["iso2022_jp", "utf-7"]

BOUNDS = {
    "quick": "all single-slot deviations over the full alphabets (36 text / 28 name specials, 3 page-2 variants) + all "
             "slot pairs over the 6-element core alphabets; all ordered pairs of 9 documents with equal object numbers but different fonts converted one after the other in one process (4 entry points); option grid: 5 LAParams x {extract_text(), text, xml x strip_control} x {StringIO, BytesIO x 4 codecs (+ the stateful codecs iso2022_jp and utf-7 under the default LAParams)} "
             "for documents with <= 1 special slot; for two-slot documents the BytesIO x codec part only under the default LAParams",
    "thorough": "all choice vectors with <= 2 non-default slots over the full alphabets; same option grids and document pairs; "
                "text sinks (StringIO, extract_text) additionally with codec in {utf-8, latin-1, ascii} under the default LAParams (both tiers); "
                "XML with an image writer (output_dir in a private temp dir; one-slot documents, default LAParams): well-formed, structure as the tree, every <image src> is an exported file; "
                "page 2 also without /Contents and with /Contents [] (single deviations); converters constructed directly and driven through PDFPageInterpreter (2 documents x first page number {1,7} x {StringIO,BytesIO}): "
                "TextConverter(showpageno) and XMLConverter(stripcontrol) x LAParams {None, default}; HTMLConverter(showpageno x layoutmode x scale/fontscale/pagemargin x rect/text colours) "
                "- HTML only for nesting, page anchors and text content (both tiers); rotation: 2 documents x page /Rotate in {0,90,180,270} (page 2: +90) x extract_text_to_fp(rotation=) in {0,90,180,270,360,450,-90} x LAParams {None, default} x "
                "{text, xml} x {StringIO, BytesIO}, each compared with rotation=0 on the hand-rotated document and with its tree (both tiers); "
                "for documents with <= 1 special slot also real files (wb, w+b, r+b, ab, TemporaryFile, w, w+) compared with BytesIO/StringIO (both tiers)",
}

META = {
    "rule": (
        "documents = choice vectors over 7 choice points (6 string slots + page-2 variant), deviation-bounded; each "
        "document x LAParams variant x output x sink/codec x strip_control is one evaluation (one call of "
        "extract_text_to_fp compared with the tree from extract_pages). non-trivial = the document has at least one "
        "non-default slot and the conversion produced output. states/transitions = nodes/edges of the choice tree, "
        "traces = documents whose every conversion was compared. outcome = hash of the produced output. Every document "
        "is converted in its own forked process (state: pdfminer imported, nothing converted), so a stored case replays "
        "alone: its history is the document's earlier rows, which replay re-runs. The pair family converts document A "
        "then document B through the same entry point and compares B's output with B's own tree."
    ),
    "bound": BOUNDS,
    "assumptions": [
        "expat (xml.etree) is the judge of well-formedness; XML 1.0 character range as implemented by expat",
        "the LTPage tree returned by extract_pages (PDFPageAggregator for laparams=None) is trusted as the hierarchy (C05-C09 judge it)",
        "well-formedness of XML in presence of characters XML 1.0 cannot represent (C0 controls, U+FFFF) is required only under strip_control=True; with strip_control=False such documents are not judged for XML",
        "HTML is not named by the statement: HTMLConverter output is checked only for element nesting, one anchor per page id and (normal/loose mode) text content modulo line breaks; its footer links and styles are not judged",
        "hocr and tag outputs, the content of exported image files (C18) and inline images (figure name is id()-derived, see C12) are not generated",
        "only the one document skeleton; strings longer than the alphabet entries and more than two special slots at once are not explored",
        "linewidth, colourspace and ncolour attributes are not compared (not named by the statement)",
    ],
}

XML_FORBIDDEN = re.compile("[\x00-\x08\x0b\x0c\x0e-\x1f\ufffe\uffff]")


# ------------------------------------------------------------------ document
def name_to_str(b: bytes) -> str:
    """What a PDF name with these bytes means as text (UTF-8 per ISO 32000-1 7.3.5), for classification only."""
    try:
        return b.decode("utf-8")
    except UnicodeDecodeError:
        return repr(b)


def build_pdf(m: dict) -> bytes:
    d = Doc()
    cat, pages, p1, p2 = d.reserve(), d.reserve(), d.reserve(), d.reserve()
    codes = {c: chr(c) for c in list(range(65, 91)) + [32]}
    codes[ord("A")] = m["tA"]
    codes[ord("B")] = m["tB"]
    codes[ord("X")] = m["tX"]
    tu = d.add(Stream({}, tounicode_cmap(bfchars=[(bytes([c]), s) for c, s in sorted(codes.items())])))
    fname = N(m["font"])
    font = d.add({
        "Type": N("Font"), "Subtype": N("Type1"), "BaseFont": fname, "FirstChar": 32, "LastChar": 126,
        "Widths": [500] * 95, "ToUnicode": tu,
        "FontDescriptor": {"Type": N("FontDescriptor"), "FontName": fname, "Flags": 32, "FontBBox": [0, -200, 1000, 800],
                           "Ascent": 800, "Descent": -200, "ItalicAngle": 0, "CapHeight": 700, "StemV": 80},
    })
    img = d.add(Stream({"Type": N("XObject"), "Subtype": N("Image"), "Width": 2, "Height": 2, "ColorSpace": N("DeviceGray"),
                        "BitsPerComponent": 8}, b"\x00\x40\x80\xff"))
    fm2 = d.add(Stream({"Type": N("XObject"), "Subtype": N("Form"), "BBox": [0, 0, 50, 30],
                        "Resources": {"Font": {"F1": font}}}, b"BT /F1 8 Tf 4 6 Td (Z) Tj ET"))
    fm1 = d.add(Stream({"Type": N("XObject"), "Subtype": N("Form"), "BBox": [0, 0, 200, 100], "Matrix": [1, 0, 0, 1, 3, 5],
                        "Resources": {"Font": {"F1": font}, "XObject": {"Fm2": fm2}}},
                       b"BT /F1 10 Tf 10 50 Td (XY) Tj ET 5 5 20 10 re f q 1 0 0 1 120 20 cm /Fm2 Do Q"))
    # vertical writing with an advance that differs from the font size (LTChar.size = width != height), plus a
    # horizontally scaled glyph (width != size): the size attribute must come from LTChar.size
    tuv = d.add(Stream({}, tounicode_cmap(bfchars=[(b"\x00A", "V"), (b"\x00B", "W")], codespace=((b"\x00\x00", b"\xff\xff"),))))
    fontv = d.add({
        "Type": N("Font"), "Subtype": N("Type0"), "BaseFont": N("FontV"), "Encoding": N("Identity-V"), "ToUnicode": tuv,
        "DescendantFonts": [{
            "Type": N("Font"), "Subtype": N("CIDFontType0"), "BaseFont": N("FontV"),
            "CIDSystemInfo": {"Registry": b"Adobe", "Ordering": b"Identity", "Supplement": 0},
            "DW2": [880, -500], "W2": [66, [-750, 500, 880]],
            "FontDescriptor": {"Type": N("FontDescriptor"), "FontName": N("FontV"), "Flags": 4, "FontBBox": [0, -120, 1000, 880],
                               "Ascent": 880, "Descent": -120, "ItalicAngle": 0, "CapHeight": 700, "StemV": 80},
        }],
    })
    fmname, imname = m["form"], m["image"]
    from mc.pdfgen import ser_name

    c1 = (
        b"BT /F1 12 Tf 72 700 Td (AB C) Tj 0 -14 Td [(D) -900 (E)] TJ ET\n"
        b"BT /F1 12 Tf 72 600 Td (FG) Tj ET\n"
        b"BT /F1 9 Tf 310 503 Td (K) Tj ET\n"
        b"BT /FV 12 Tf 520 707 Td <00410042> Tj ET\n"
        b"BT /F1 10 Tf 50 Tz 72 421 Td (NO) Tj ET\n"
        b"0.5 w 100 100 50 40 re S\n"
        b"2 w 10 10 m 200 10 l S\n"
        b"10 20 m 30 40 50 20 70 40 c S\n"
        b"q 100 0 0 50 300 300 cm " + ser_name(imname) + b" Do Q\n"
        b"q 1 0 0 1 350 100 cm " + ser_name(fmname) + b" Do Q\n"
    )
    xobj = {}
    # Name keys must be written through ser_name; pdfgen's dict writer takes str or bytes keys
    xobj[fmname] = fm1
    if imname != fmname:
        xobj[imname] = img
    res1 = {"Font": {"F1": font, "FV": fontv}, "XObject": xobj}
    v = m["page2"]
    if v == 0:
        c2 = b"BT /F1 12 Tf 100 700 Td (H) Tj 0 -14 Td (I) Tj 0 -14 Td (J) Tj ET\nBT /F1 11 Tf 300 400 Td (LM) Tj ET\n"
    elif v == 1:
        c2 = b"20 30 40 50 re f\n"
    else:
        c2 = b""
    d.set(cat, {"Type": N("Catalog"), "Pages": pages})
    d.set(pages, {"Type": N("Pages"), "Kids": [p1, p2], "Count": 2, "MediaBox": [0, 0, 612, 792]})
    r1, r2 = m.get("rotate", (0, 0))
    rot1 = {"Rotate": r1} if r1 else {}
    rot2 = {"Rotate": r2} if r2 else {}
    d.set(p1, {"Type": N("Page"), "Parent": pages, "Resources": res1, "Contents": d.add(Stream({}, c1)), **rot1})
    cont2 = d.add(Stream({}, c2))
    cont2 = {} if v == 3 else {"Contents": []} if v == 4 else {"Contents": cont2}  # a page without content is still a page
    d.set(p2, {"Type": N("Page"), "Parent": pages, "Resources": {"Font": {"F1": font}}, **cont2, **rot2})
    return d.write(cat)


def make_program(ts, ns, npage2=len(PAGE2)):
    tA = ["A"] + list(ts)
    tB = ["B"] + list(ts)
    tX = ["X"] + list(ts)
    fn = [b"FontA"] + list(ns)
    fm = [b"Fm1"] + list(ns)
    im = [b"Im1"] + list(ns)

    def program(x: Chooser) -> dict:
        return {
            "tA": x.pick(tA, "ToUnicode(A)"),
            "tB": x.pick(tB, "ToUnicode(B)"),
            "font": x.pick(fn, "FontName"),
            "form": x.pick(fm, "form XObject name"),
            "image": x.pick(im, "image XObject name"),
            "tX": x.pick(tX, "ToUnicode(X) in form"),
            "page2": x.choose(npage2, "page 2 variant"),
        }

    return program


PROGRAMS = {
    "full": make_program(TEXT_SPECIALS, NAME_SPECIALS),
    "small": make_program(TEXT_SMALL, NAME_SMALL, 3),
}


def explore_from(program, prefix, bound, expand=True):
    """ChoiceExplorer restricted to the subtree below ``prefix`` (same order, same accounting)."""
    stack = [tuple(prefix)]
    counters = {"states": 0, "transitions": 0, "traces": 0}
    while stack:
        p = stack.pop()
        x = Chooser(p)
        case = program(x)
        new_edges = len(x.choices) - max(len(p) - 1, 0) if p else len(x.choices)
        counters["states"] += new_edges + (0 if p else 1)
        counters["transitions"] += new_edges
        counters["traces"] += 1
        yield case, x, counters
        if not expand:
            continue
        used = sum(1 for c in x.choices[: len(p)] if c)
        kids = []
        for i in range(len(p), len(x.choices)):
            if used + 1 > bound:
                break
            for alt in range(1, x.arity[i]):
                kids.append(tuple(x.choices[:i]) + (alt,))
        stack.extend(reversed(kids))


# -------------------------------------------------------------------- oracle
def _pdfminer():
    import pdfminer.high_level as hl
    import pdfminer.layout as lt
    from pdfminer.converter import PDFPageAggregator
    from pdfminer.pdfinterp import PDFPageInterpreter, PDFResourceManager
    from pdfminer.pdfpage import PDFPage

    return hl, lt, PDFPageAggregator, PDFPageInterpreter, PDFResourceManager, PDFPage


def oracle_pages(pdf: bytes, la):
    hl, lt, Agg, Interp, Rsrc, PDFPage = _pdfminer()
    if la is None:
        # extract_pages silently replaces laparams=None by LAParams(); the un-analysed tree comes from the aggregator
        rm = Rsrc()
        dev = Agg(rm, laparams=None)
        ip = Interp(rm, dev)
        out = []
        for page in PDFPage.get_pages(io.BytesIO(pdf)):
            ip.process_page(page)
            out.append(dev.get_result())
        return out
    return list(hl.extract_pages(io.BytesIO(pdf), laparams=lt.LAParams(**la)))


def tree_text(pages) -> str:
    _, lt, *_ = _pdfminer()
    out = []

    def walk(it):
        if isinstance(it, lt.LTTextBox):
            out.append(it.get_text())
            out.append("\n")
        elif isinstance(it, lt.LTContainer):
            for c in it:
                walk(c)
        elif isinstance(it, lt.LTText):
            out.append(it.get_text())

    for p in pages:
        walk(p)
        out.append("\f")
    return "".join(out)


def tree_strings(pages):
    """All document-controlled strings of the hierarchy: (kind, string)."""
    _, lt, *_ = _pdfminer()
    out = []

    def walk(it):
        if isinstance(it, lt.LTChar):
            out.append(("text", it.get_text()))
            out.append(("font", it.fontname if isinstance(it.fontname, str) else repr(it.fontname)))
        elif isinstance(it, lt.LTFigure):
            out.append(("figure", it.name))
        if isinstance(it, lt.LTContainer):
            for c in it:
                walk(c)

    for p in pages:
        walk(p)
    return out


def strip_forbidden(s: str) -> str:
    return XML_FORBIDDEN.sub("", s)


class Diff(Exception):
    def __init__(self, kind, path, expected, observed):
        self.kind, self.path, self.expected, self.observed = kind, path, expected, observed


def _nums(s, n, kind, path):
    try:
        v = [float(t) for t in s.split(",")]
    except (ValueError, AttributeError):
        raise Diff(kind, path, f"{n} comma separated numbers", s)
    if len(v) != n:
        raise Diff(kind, path, f"{n} numbers", s)
    return v


def _close(a, b):
    return abs(a - b) <= 0.00051 + 1e-9 * abs(b)


def compare_xml(root, pages, strip: bool):
    """Walk the parsed XML and the LTPage trees together; raise Diff at the first disagreement."""
    _, lt, *_ = _pdfminer()
    S = strip_forbidden if strip else (lambda s: s)

    def want_tag(el, tag, path):
        if el.tag != tag:
            raise Diff("structure", path, tag, el.tag)

    def want_bbox(el, item, path):
        v = _nums(el.get("bbox"), 4, "bbox", path)
        if not all(_close(a, b) for a, b in zip(v, item.bbox)):
            raise Diff("bbox", path, list(item.bbox), el.get("bbox"))

    def no_chardata(el, path):
        if (el.text or "").strip() != "":
            raise Diff("structure", path, "no character data in container element", el.text)
        for c in el:
            if (c.tail or "").strip() != "":
                raise Diff("structure", path, "no character data between elements", c.tail)

    def kids(el, items, path):
        no_chardata(el, path)
        ch = list(el)
        if len(ch) != len(items):
            raise Diff("structure", path, [type(i).__name__ for i in items], [c.tag for c in ch])
        for i, (c, it) in enumerate(zip(ch, items)):
            node(c, it, f"{path}/{i}")

    def group(el, g, path):
        if isinstance(g, lt.LTTextBox):
            want_tag(el, "textbox", path)
            if el.get("id") != str(g.index):
                raise Diff("structure", path, str(g.index), el.get("id"))
            want_bbox(el, g, path)
            if len(el):
                raise Diff("structure", path, "empty textbox reference in layout", [c.tag for c in el])
        else:
            want_tag(el, "textgroup", path)
            want_bbox(el, g, path)
            members = list(g)
            no_chardata(el, path)
            if len(el) != len(members):
                raise Diff("structure", path, len(members), len(el))
            for i, (c, m) in enumerate(zip(el, members)):
                group(c, m, f"{path}/g{i}")

    def node(el, it, path):
        if isinstance(it, lt.LTPage):
            want_tag(el, "page", path)
            if el.get("id") != str(it.pageid):
                raise Diff("structure", path, str(it.pageid), el.get("id"))
            want_bbox(el, it, path)
            items = list(it)
            ch = list(el)
            if it.groups is not None:
                if not ch or ch[-1].tag != "layout":
                    raise Diff("structure", path, "layout element", [c.tag for c in ch][-1:])
                lay = ch[-1]
                no_chardata(lay, path + "/layout")
                if len(lay) != len(it.groups):
                    raise Diff("structure", path + "/layout", len(it.groups), len(lay))
                for i, (c, g) in enumerate(zip(lay, it.groups)):
                    group(c, g, f"{path}/layout/{i}")
                ch = ch[:-1]
            no_chardata(el, path)
            if len(ch) != len(items):
                raise Diff("structure", path, [type(i).__name__ for i in items], [c.tag for c in ch])
            for i, (c, x) in enumerate(zip(ch, items)):
                node(c, x, f"{path}/{i}")
        elif isinstance(it, lt.LTTextBox):
            want_tag(el, "textbox", path)
            if el.get("id") != str(it.index):
                raise Diff("structure", path, str(it.index), el.get("id"))
            wm = "vertical" if isinstance(it, lt.LTTextBoxVertical) else None
            if el.get("wmode") != wm:
                raise Diff("structure", path, wm, el.get("wmode"))
            want_bbox(el, it, path)
            kids(el, list(it), path)
        elif isinstance(it, lt.LTTextLine):
            want_tag(el, "textline", path)
            want_bbox(el, it, path)
            kids(el, list(it), path)
        elif isinstance(it, lt.LTFigure):
            want_tag(el, "figure", path)
            if el.get("name") != S(it.name):
                raise Diff("figure-name", path, S(it.name), el.get("name"))
            want_bbox(el, it, path)
            kids(el, list(it), path)
        elif isinstance(it, lt.LTChar):
            want_tag(el, "text", path)
            if len(el):
                raise Diff("structure", path, "text element without children", [c.tag for c in el])
            fn = it.fontname if isinstance(it.fontname, str) else None
            if fn is not None and el.get("font") != S(fn):
                raise Diff("font", path, S(fn), el.get("font"))
            want_bbox(el, it, path)
            sz = _nums(el.get("size"), 1, "size", path)[0]
            if not _close(sz, it.size):
                raise Diff("size", path, it.size, el.get("size"))
            if (el.text or "") != S(it.get_text()):
                raise Diff("text", path, S(it.get_text()), el.text or "")
        elif isinstance(it, lt.LTAnno):
            want_tag(el, "text", path)
            if len(el) or el.attrib:
                raise Diff("structure", path, "bare text element", dict(el.attrib))
            if (el.text or "") != it.get_text():
                raise Diff("text", path, it.get_text(), el.text or "")
        elif isinstance(it, (lt.LTLine, lt.LTRect, lt.LTCurve)):
            tag = "line" if isinstance(it, lt.LTLine) else "rect" if isinstance(it, lt.LTRect) else "curve"
            want_tag(el, tag, path)
            want_bbox(el, it, path)
            if tag == "curve":
                v = _nums(el.get("pts"), 2 * len(it.pts), "pts", path)
                flat = [c for p in it.pts for c in p]
                if not all(_close(a, b) for a, b in zip(v, flat)):
                    raise Diff("pts", path, flat, el.get("pts"))
            if len(el) or (el.text or "").strip():
                raise Diff("structure", path, "empty element", el.text)
        elif isinstance(it, lt.LTImage):
            want_tag(el, "image", path)
            try:
                w, h = int(el.get("width")), int(el.get("height"))
            except (TypeError, ValueError):
                raise Diff("structure", path, "integer width/height", (el.get("width"), el.get("height")))
            if abs(w - it.width) >= 1 or abs(h - it.height) >= 1:
                raise Diff("bbox", path, (it.width, it.height), (w, h))
        else:
            raise Diff("structure", path, "known layout class", type(it).__name__)

    if root.tag != "pages":
        raise Diff("structure", "", "pages", root.tag)
    no_chardata(root, "")
    if len(root) != len(pages):
        raise Diff("structure", "", len(pages), len(root))
    for i, (el, p) in enumerate(zip(root, pages)):
        node(el, p, f"/{i}")


# --------------------------------------------------------------------- judge
FILE_SINKS_BINARY = ["file:wb", "file:w+b", "file:r+b", "file:ab", "file:tmp"]  # tmp = tempfile.TemporaryFile() (mode 'rb+')
FILE_SINKS_TEXT = ["file:w", "file:w+"]


def convert(pdf: bytes, la, output: str, sink: str, codec: str, strip: bool, rotation: int = 0):
    """Return ('ok', value) | ('unrepresentable', msg) | ('exc', signature-part, msg)."""
    hl, lt, *_ = _pdfminer()
    if sink == "return":  # high_level.extract_text: same option plumbing, result returned as str
        try:
            return ("ok", hl.extract_text(io.BytesIO(pdf), codec=codec, laparams=lt.LAParams(**la)))
        except Exception as e:  # noqa
            tb = traceback.extract_tb(e.__traceback__)
            return ("exc", f"{type(e).__name__}@{tb[-1].name}", f"{type(e).__name__}: {e}"[:200])
    tmpdir = None
    textual = sink == "str" or sink in FILE_SINKS_TEXT
    try:
        if sink.startswith("file:"):
            # a real file object in a private temporary directory (removed below)
            tmpdir = tempfile.TemporaryDirectory(prefix="c11_")
            path = os.path.join(tmpdir.name, "out")
            mode = sink[5:]
            if mode == "tmp":
                out = tempfile.TemporaryFile(dir=tmpdir.name)
            elif "b" in mode:
                if mode == "r+b":
                    open(path, "wb").close()
                out = open(path, mode)
            else:
                out = open(path, mode, encoding="utf-8", newline="")
        else:
            out = io.StringIO() if sink == "str" else io.BytesIO()
        extra = {}
        if sink == "imgdir":
            # XMLConverter with an ImageWriter: images are exported into a private directory (removed below)
            tmpdir = tempfile.TemporaryDirectory(prefix="c11_")
            imgdir = os.path.join(tmpdir.name, "img")
            extra["output_dir"] = imgdir
        c = codec
        if textual and output == "xml":
            c = ""  # XMLConverter requires "no codec" for a text sink
        try:
            hl.extract_text_to_fp(
                io.BytesIO(pdf), out, output_type=output, codec=c,
                laparams=None if la is None else lt.LAParams(**la), strip_control=strip,
                **({"rotation": rotation} if rotation else {}), **extra,
            )
        except UnicodeEncodeError as e:
            return ("unrepresentable", str(e)[:80])
        except Exception as e:  # noqa
            tb = traceback.extract_tb(e.__traceback__)
            return ("exc", f"{type(e).__name__}@{tb[-1].name}", f"{type(e).__name__}: {e}"[:200])
        if sink == "imgdir":
            return ("ok", (out.getvalue(), sorted(os.listdir(imgdir))))
        if not sink.startswith("file:"):
            return ("ok", out.getvalue())
        if sink == "file:tmp":
            out.seek(0)
            data = out.read()
            out.close()
        else:
            out.close()
            with open(path, "rb") as f:
                data = f.read()
        return ("ok", data.decode("utf-8") if textual else data)
    finally:
        if tmpdir is not None:
            if sink != "imgdir":
                try:
                    out.close()
                except Exception:  # noqa
                    pass
            tmpdir.cleanup()


def representable(s: str, codec: str) -> bool:
    try:
        s.encode(codec)
        return True
    except UnicodeEncodeError:
        return False


def xml_body(s: str) -> str:
    """XML output without its first line (the declaration differs between sinks by the encoding pseudo-attribute)."""
    i = s.find("\n")
    return s[i + 1:] if i >= 0 else s


class Ctx:
    """Per (document, laparams) cache of the oracle tree and the text-sink outputs."""

    def __init__(self, pdf, la):
        self.pdf, self.la = pdf, la
        self.pages = oracle_pages(pdf, la)
        self.strings = tree_strings(self.pages)
        self.has_forbidden = any(XML_FORBIDDEN.search(s) for _, s in self.strings)
        self._str = {}

    def bytes_output(self, output, strip):
        k = ("bytes", output, strip)
        if k not in self._str:
            self._str[k] = convert(self.pdf, self.la, output, "bytes", "utf-8", strip)
        return self._str[k]

    def str_output(self, output, strip):
        k = (output, strip)
        if k not in self._str:
            self._str[k] = convert(self.pdf, self.la, output, "str", "utf-8", strip)
        return self._str[k]


_C0 = "[\x00-\x08\x0b\x0c\x0e-\x1f]"
_NONCHAR = "[\ufffe\uffff]"


def classify_illformed(ctx: Ctx, text: str, err: str, strip: bool, codec: str) -> str:
    """Name the cause by what is actually present in the rejected output."""
    if codec in ("utf-16", "utf-32") and text.count("\ufeff") > sum(s.count("\ufeff") for _, s in ctx.strings):
        return "C11/xml-binary-sink-bom-per-write"
    if _raw_figure_name_in(ctx, text):
        return "C11/xml-figure-name-unescaped"
    for pat, what in ((_C0, "control-char"), (_NONCHAR, "noncharacter")):
        if re.search(pat, text):
            if re.search(r'<(?:figure name|text font)="[^"]*' + pat, text):
                return f"C11/xml-{what}-in-name-not-stripped"
            return f"C11/xml-{what}-in-text-not-stripped"
    return "C11/xml-not-wellformed:" + re.sub(r":? *line \d+, column \d+", "", err)


def _raw_figure_name_in(ctx: "Ctx", text: str) -> bool:
    return any(re.search('[&<"]', s) and f'<figure name="{s}" bbox=' in text for s in {s for k, s in ctx.strings if k == "figure"})


def classify_diff(d: Diff, ctx: "Ctx", text: str) -> str:
    e, o = d.expected, d.observed
    # an unescaped name that happens to stay well-formed: entity references are resolved, or markup is injected
    if d.kind in ("figure-name", "structure") and _raw_figure_name_in(ctx, text):
        return "C11/xml-figure-name-unescaped"
    if d.kind in ("text", "font", "figure-name") and isinstance(e, str) and isinstance(o, str):
        if d.kind == "text" and e.replace("\r\n", "\n").replace("\r", "\n") == o:
            return "C11/xml-cr-in-text-read-back-as-lf"
        if d.kind != "text" and re.sub("[\t\n\r]", " ", e) == o:
            return f"C11/xml-{d.kind}-whitespace-normalised-by-parser"
        if strip_forbidden(e) == o:
            return f"C11/xml-{d.kind}-control-chars-lost"
    return f"C11/xml-{d.kind}-mismatch"


def judge(ctx: Ctx, output: str, sink: str, codec: str, strip: bool):
    """Return (status, outcome, [violations]) where violations = (signature, expected, observed, what)."""
    pdf, la = ctx.pdf, ctx.la
    r = convert(pdf, la, output, sink, codec, strip)
    if r[0] == "unrepresentable":
        # judged only when the codec could have represented the characters (statement: "any codec able to represent them")
        ref = ctx.str_output(output, strip)
        if ref[0] == "ok" and representable(ref[1], codec):
            return ("judged", ("unrepresentable",), [(f"C11/{output}-encode-error-although-representable", "encodable", r[1], "UnicodeEncodeError although every character is representable")])
        return ("not-representable", None, [])
    if sink == "imgdir":
        if r[0] != "ok":
            return ("judged", ("exc", r[1]), [(f"C11/image-export-raises:{r[1]}", "images exported, XML written", r[2], "extract_text_to_fp(output_type='xml', output_dir=...) raised")])
        val, files = r[1]
        text = val.decode("utf-8", "replace")
        try:
            root = ET.fromstring(text)
        except ET.ParseError as e:
            return ("judged", h64(val), [("C11/xml-image-src-unescaped" if re.search(r'<image src="[^"]*[&<]|<image src="[^"]*"[^ ]', text)
                                          else "C11/xml-control-char-in-image-src-not-stripped" if re.search(r'<image src="[^"]*(?:' + _C0 + "|" + _NONCHAR + ")", text)
                                          else "C11/xml-with-images-not-wellformed",
                                          "well-formed XML", str(e), "expat rejects the XML written with an image writer")])
        viols = []
        try:
            compare_xml(root, ctx.pages, strip)
        except Diff as d:
            viols.append((classify_diff(d, ctx, text), d.expected, d.observed, f"XML (with image writer) differs from the hierarchy at {d.path} ({d.kind})"))
        srcs = [el.get("src") for el in root.iter("image")]
        want = sorted(strip_forbidden(f) for f in files) if strip else files  # characters XML cannot carry are dropped under strip_control
        if sorted(s for s in srcs if s is not None) != want or None in srcs:
            ws = sorted(re.sub("[\t\n\r]", " ", f) for f in files) == sorted(x for x in srcs if x is not None)
            viols.append(("C11/xml-image-src-whitespace-normalised-by-parser" if ws else "C11/xml-image-src-is-not-the-exported-file", files, srcs, "every <image> names, in src, the file the image writer created"))
        return ("judged", h64(val), viols)
    if sink.startswith("file:"):
        # a real file must receive exactly what the in-memory sink of the same kind receives
        ref = ctx.str_output(output, strip) if sink in FILE_SINKS_TEXT else ctx.bytes_output(output, strip)
        if ref[0] != "ok":
            return ("file-sink: in-memory sink raises", None, [])
        if r[0] != "ok":
            return ("judged", ("exc", r[1]), [(f"C11/file-sink-raises:{sink[5:]}:{r[1]}", "same output as the in-memory sink", r[2], f"real file opened with mode {sink[5:]!r} is not handled like BytesIO/StringIO")])
        if r[1] != ref[1]:
            return ("judged", h64(r[1]), [(f"C11/file-sink-differs:{sink[5:]}", ref[1][:200], r[1][:200], "real file receives other content than the in-memory sink")])
        return ("judged", h64(r[1]), [])
    if r[0] == "exc":
        return ("judged", ("exc", r[1]), [(f"C11/exception:{r[1]}", "no exception", r[2], "converter raised")])
    val = r[1]
    viols = []
    # ---- characters: decode a binary sink with the codec that was asked for
    if sink == "bytes":
        ref = ctx.str_output(output, strip)
        try:
            chars = val.decode(codec)
        except UnicodeDecodeError as e:
            chars = None
            dec_err = str(e)[:80]
        if output == "text":
            exp = tree_text(ctx.pages)
            if not representable(exp, codec):
                return ("not-representable", None, [])
            if chars != exp:
                if val == exp.encode("utf-8") and codec != "utf-8":
                    viols.append(("C11/text-binary-sink-ignores-codec", exp.encode(codec)[:120], val[:120], f"binary sink written as UTF-8 although codec={codec}"))
                elif chars is not None and chars.replace("\ufeff", "") == exp.replace("\ufeff", ""):
                    viols.append(("C11/text-binary-sink-bom-per-write", exp[:120], chars[:120], f"a byte order mark is emitted by every write ({codec})"))
                else:
                    viols.append(("C11/text-binary-sink-differs", exp[:200], (chars if chars is not None else val)[:200], "decoded binary output differs from the tree's text"))
            return ("judged", h64(val), viols)
        # xml, binary sink
        if chars is None:
            viols.append(("C11/xml-binary-sink-undecodable", f"bytes decodable as {codec}", dec_err, "output is not valid in the requested codec"))
            return ("judged", h64(val), viols)
        text = chars
    else:
        text = val
        if output == "text":
            exp = tree_text(ctx.pages)
            if text != exp:
                viols.append(("C11/extract_text-differs-from-tree" if sink == "return" else "C11/text-differs-from-tree", exp[:300], text[:300], "text output is not the in-order concatenation of the hierarchy"))
            return ("judged", h64(text), viols)
    # ---- xml (text is the character content of the output)
    if ctx.has_forbidden and not strip:
        return ("xml-unrepresentable-chars-without-strip_control", None, [])
    try:
        root = ET.fromstring(text)
    except ET.ParseError as e:
        sig = classify_illformed(ctx, text, str(e), strip, codec if sink == "bytes" else "")
        return ("judged", h64(text), [(sig, "well-formed XML", f"{e}: ...{text[max(0, e.position[1] - 30):e.position[1] + 30]!r}" if e.position[0] == 1 else str(e), "expat rejects the output")])
    try:
        compare_xml(root, ctx.pages, strip)
    except Diff as d:
        viols.append((classify_diff(d, ctx, text), d.expected, d.observed, f"XML differs from the hierarchy at {d.path} ({d.kind})"))
    if sink == "bytes":
        ref = ctx.str_output(output, strip)
        if ref[0] == "ok" and xml_body(ref[1]) != xml_body(text) and not viols:
            viols.append(("C11/xml-binary-sink-differs-from-text-sink", xml_body(ref[1])[:200], xml_body(text)[:200], "same document, different characters on the two sinks"))
        # the declared encoding must be the real one: let expat read the raw bytes where it knows the codec
        if codec in ("utf-8", "latin-1", "utf-16") and not viols:
            try:
                ET.fromstring(val)
            except ET.ParseError as e:
                viols.append(("C11/xml-bytes-not-parseable-with-declared-encoding", "well-formed", str(e), "expat rejects the raw bytes"))
    return ("judged", h64(text), viols)


TEXT_SINK_CODECS = ["utf-8", "latin-1", "ascii"]


def grid(la, full: bool):
    """Option grid.  full: every sink/codec under every LAParams.  reduced (two-slot documents): text sinks under every
    LAParams, binary sinks x codecs under the default LAParams only (the sink layer does not see the layout).  The codec
    argument on text sinks (utf-8, latin-1, ascii; default LAParams) must not change what a text sink or extract_text() receives."""
    wide = full or la == {}
    if la is not None:
        # extract_text(); with laparams=None it substitutes LAParams(), which is the {} row
        for codec in (TEXT_SINK_CODECS if la == {} else TEXT_SINK_CODECS[:1]):
            yield "text", "return", codec, False
    for output in ("text", "xml"):
        for strip in ((False,) if output == "text" else (False, True)):
            for codec in (TEXT_SINK_CODECS if la == {} and output == "text" else TEXT_SINK_CODECS[:1]):
                yield output, "str", codec, strip
            if wide:
                for codec in CODECS + (STATEFUL_CODECS if la == {} else []):
                    yield output, "bytes", codec, strip
    if full and la == {}:
        yield "xml", "imgdir", "utf-8", True  # XMLConverter with an ImageWriter (output_dir)
        # real files (documents with <= 1 special slot, default LAParams): binary modes incl. update modes, text modes
        for output, strip in (("text", False), ("xml", True)):
            for sink in FILE_SINKS_BINARY + FILE_SINKS_TEXT:
                yield output, sink, "utf-8", strip


def _doc_rows(full: bool):
    return [(la, row) for la in LAPARAMS for row in grid(la, full)]


def _run_doc(args):
    """Runs in a forked child (process state = pdfminer imported, nothing converted): every conversion of one document.
    Returns records; the position of a conversion in the document's row list is its in-case history."""
    pdf, full, upto = args
    rec = []
    ctx = None
    for i, (la, (output, sink, codec, strip)) in enumerate(_doc_rows(full)):
        if upto is not None and i > upto:
            break
        if ctx is None or ctx.la != la:
            ctx = Ctx(pdf, la)
        status, outcome, viols = judge(ctx, output, sink, codec, strip)
        rec.append((i, la, output, sink, codec, strip, status, outcome, viols))
    return rec


def check_doc(m: dict, st, nontrivial: bool, full: bool = True) -> None:
    _pdfminer()  # imported in this process, so that every forked child starts from "imported, nothing converted"
    pdf = build_pdf(m)
    for i, la, output, sink, codec, strip, status, outcome, viols in fork_call(_run_doc, (pdf, full, None)):
        if status != "judged":
            st.not_judged[status] += 1
            continue
        st.case(None, nontrivial=nontrivial, outcome=outcome)
        for sig, exp, obs, what in viols:
            st.violation(sig, {"family": "doc", "pdf": pdf, "full": full, "row": i, "la": la, "output": output, "sink": sink,
                               "codec": codec, "strip": strip, "slots": m}, exp, obs, what)


# ------------------------------------------------------------ call sequences
def seq_docs():
    """Documents with identical object numbering whose font objects differ (ToUnicode target, font name)."""
    base = PROGRAMS["full"](Chooser(()))
    out = [dict(base)]
    for t in TEXT_SMALL:
        out.append({**base, "tA": t})
    for n in NAME_SMALL[:2]:
        out.append({**base, "font": n})
    return out


SEQ_ROWS = [("text", "str", "utf-8", False), ("text", "bytes", "utf-8", False), ("xml", "str", "utf-8", True), ("text", "return", "utf-8", False)]


def _run_seq(args):
    """Child: convert document A, then document B, through the same entry point; B's output is compared with B's own tree."""
    pdf_a, pdf_b, row = args
    output, sink, codec, strip = row
    convert(pdf_a, {}, output, sink, codec, strip)
    ctx = Ctx(pdf_b, {})
    return judge(ctx, output, sink, codec, strip)


def check_seq(ma: dict, mb: dict, st) -> None:
    _pdfminer()
    pdf_a, pdf_b = build_pdf(ma), build_pdf(mb)
    for row in SEQ_ROWS:
        status, outcome, viols = fork_call(_run_seq, (pdf_a, pdf_b, row))
        st.transitions += 2
        if status != "judged":
            st.not_judged[status] += 1
            continue
        st.case(None, nontrivial=True, outcome=outcome)
        for sig, exp, obs, what in viols:
            st.violation("C11/after-another-document:" + sig.split("/", 1)[1],
                         {"family": "seq", "pdf_a": pdf_a, "pdf": pdf_b, "row": list(row), "slots_a": ma, "slots": mb}, exp, obs,
                         "second of two documents converted in one process: " + what)
    st.traces += 1


# ------------------------------------------------------------------ rotation
PAGE_ROTATIONS = [0, 90, 180, 270]
ROTATION_ARGS = [0, 90, 180, 270, 360, 450, -90]
ROT_ROWS = [("text", "str", "utf-8", False), ("text", "bytes", "utf-8", False), ("xml", "str", "utf-8", True), ("xml", "bytes", "utf-8", True)]
ROT_LAPARAMS = [None, {}]


def rot_docs():
    base = PROGRAMS["full"](Chooser(()))
    return [dict(base), {**base, "tA": "<", "page2": 1}]


def _rotated(m: dict, r: int) -> dict:
    # page 2 carries another /Rotate than page 1, so that the argument is seen to be added per page
    return {**m, "rotate": (r % 360, (r + 90) % 360)}


def _run_rot(args):
    """Child: extract_text_to_fp(rotation=k) on pages with /Rotate r  ==  rotation=0 on the same pages with /Rotate (r+k) mod 360,
    and the latter agrees with the layout tree of the hand-rotated document."""
    pdf, pdf_ref, k, la, row = args
    output, sink, codec, strip = row
    got = convert(pdf, la, output, sink, codec, strip, rotation=k)
    ctx = Ctx(pdf_ref, la)
    status, outcome, viols = judge(ctx, output, sink, codec, strip)
    ref = convert(pdf_ref, la, output, sink, codec, strip)
    if got != ref:
        g, e = (got[1] if got[0] == "ok" else got), (ref[1] if ref[0] == "ok" else ref)
        viols = viols + [("C11/rotation-argument-not-added-to-page-rotate", e[:300] if hasattr(e, "__getitem__") else e,
                          g[:300] if hasattr(g, "__getitem__") else g,
                          f"rotation={k}: output differs from the same pages with /Rotate increased by {k} (mod 360)")]
    return status, (h64(repr(got)) if got[0] == "ok" else ("exc", got[1])), viols


def check_rot(r: int, st) -> None:
    _pdfminer()
    for m in rot_docs():
        pdf = build_pdf(_rotated(m, r))
        for k in ROTATION_ARGS:
            pdf_ref = build_pdf(_rotated(m, r + k))
            st.states += 1
            for la in ROT_LAPARAMS:
                for row in ROT_ROWS:
                    status, outcome, viols = fork_call(_run_rot, (pdf, pdf_ref, k, la, row))
                    st.transitions += 1
                    if status != "judged":
                        st.not_judged[status] += 1
                        continue
                    st.case(None, nontrivial=bool(r or k), outcome=outcome)
                    for sig, exp, obs, what in viols:
                        st.violation(sig, {"family": "rot", "pdf": pdf, "pdf_ref": pdf_ref, "rotation": k, "page_rotate": r, "la": la,
                                           "row": list(row), "slots": m}, exp, obs, what)
            st.traces += 1


# ------------------------------------------- converters constructed directly
# Constructor options the high-level functions never set, driven through PDFPageInterpreter.
def direct_configs():
    out = []
    for pageno in (1, 7):
        for sink in ("str", "bytes"):
            for la in (None, {}):
                for show in (False, True):
                    out.append(("text", {"showpageno": show}, la, sink, pageno))
                for strip in (False, True):
                    out.append(("xml", {"stripcontrol": strip}, la, sink, pageno))
            for show in (True, False):
                for mode in ("normal", "exact", "loose"):
                    for scale, fontscale, margin in ((1, 1.0, 50), (2, 0.5, 0)):
                        for colors in (None, "all"):
                            out.append(("html", {"showpageno": show, "layoutmode": mode, "scale": scale, "fontscale": fontscale,
                                                 "pagemargin": margin, "colors": colors}, {}, sink, pageno))
    return out


def direct_docs():
    base = PROGRAMS["full"](Chooser(()))
    return [dict(base), {**base, "tA": "<", "tB": "&", "page2": 1}]


def _html_facts(text: str):
    """(problems, page anchors, character data without line breaks) of an HTMLConverter output."""
    from html.parser import HTMLParser

    void = {"meta", "br", "img"}
    problems, anchors, data, stack = [], [], [], []
    cut = text.rfind('<div style="position:absolute; top:0px;">Page: ')

    class P(HTMLParser):
        def handle_starttag(self, tag, attrs):
            if tag == "a" and dict(attrs).get("name") is not None:
                anchors.append(dict(attrs)["name"])
            if tag not in void:
                stack.append(tag)

        def handle_startendtag(self, tag, attrs):
            pass

        def handle_endtag(self, tag):
            if tag in void:
                return
            if not stack or stack[-1] != tag:
                problems.append(f"</{tag}> closes {stack[-1] if stack else 'nothing'}")
                if tag in stack:
                    while stack and stack.pop() != tag:
                        pass
            else:
                stack.pop()

        def handle_data(self, d):
            if "a" not in stack and self.getpos_abs() < (cut if cut >= 0 else len(text)) and "body" in stack:
                data.append(d)

        def getpos_abs(self):
            line, col = self.getpos()
            return offsets[line - 1] + col

    offsets = [0]
    for ln in text.split("\n"):
        offsets.append(offsets[-1] + len(ln) + 1)
    p = P(convert_charrefs=True)
    p.feed(text)
    p.close()
    if stack:
        problems.append("unclosed: " + ",".join(stack))
    return problems, anchors, "".join(data).replace("\n", "")


def _run_direct(args):
    pdf, (conv, opts, la, sink, pageno) = args
    import pdfminer.converter as cv

    hl, lt, Agg, Interp, Rsrc, PDFPage = _pdfminer()
    lap = (lambda: None if la is None else lt.LAParams(**la))
    # the hierarchy, with the same first page number
    rm = Rsrc()
    agg = Agg(rm, pageno=pageno, laparams=lap())
    ip = Interp(rm, agg)
    pages = []
    for page in PDFPage.get_pages(io.BytesIO(pdf)):
        ip.process_page(page)
        pages.append(agg.get_result())
    out = io.StringIO() if sink == "str" else io.BytesIO()
    rm = Rsrc()
    textual = sink == "str"
    try:
        if conv == "text":
            dev = cv.TextConverter(rm, out, codec="utf-8", pageno=pageno, laparams=lap(), **opts)
        elif conv == "xml":
            dev = cv.XMLConverter(rm, out, codec="" if textual else "utf-8", pageno=pageno, laparams=lap(), **opts)
        else:
            o = dict(opts)
            colors = o.pop("colors")
            if colors == "all":
                o["rect_colors"] = {"figure": "yellow", "textline": "magenta", "textbox": "cyan", "textgroup": "red", "curve": "black", "page": "gray"}
                o["text_colors"] = {"textbox": "blue", "char": "black"}
            dev = cv.HTMLConverter(rm, out, codec="" if textual else "utf-8", pageno=pageno, laparams=lap(), **o)
        ip = Interp(rm, dev)
        for page in PDFPage.get_pages(io.BytesIO(pdf)):
            ip.process_page(page)
        dev.close()
    except Exception as e:  # noqa
        tb = traceback.extract_tb(e.__traceback__)
        sig = f"{type(e).__name__}@{tb[-1].name}"
        return ("judged", ("exc", sig), [(f"C11/direct-{conv}-raises:{sig}", "no exception", f"{type(e).__name__}: {e}"[:200], "converter constructed directly raised")])
    val = out.getvalue()
    try:
        text = val if textual else val.decode("utf-8")
    except UnicodeDecodeError as e:
        return ("judged", h64(val), [(f"C11/direct-{conv}-undecodable", "utf-8", str(e)[:80], "binary sink content is not in the requested codec")])
    viols = []
    if conv == "text":
        exp = "".join((f"Page {p.pageid}\n" if opts["showpageno"] else "") + tree_text([p]) for p in pages)
        if text != exp:
            sig = "C11/text-page-header-wrong" if opts["showpageno"] and re.sub(r"Page \d+\n", "", text) == re.sub(r"Page \d+\n", "", exp) else "C11/direct-text-differs-from-tree"
            viols.append((sig, exp[:300], text[:300], "TextConverter output is not [Page <pageid>] + the page's text + form feed, page by page"))
    elif conv == "xml":
        strip = opts["stripcontrol"]
        strings = tree_strings(pages)
        if any(XML_FORBIDDEN.search(t) for _, t in strings) and not strip:
            return ("xml-unrepresentable-chars-without-strip_control", None, [])
        try:
            root = ET.fromstring(text)
            compare_xml(root, pages, strip)
        except ET.ParseError as e:
            viols.append(("C11/direct-xml-not-wellformed", "well-formed XML", str(e), "expat rejects the output"))
        except Diff as d:
            viols.append((f"C11/direct-xml-{d.kind}-mismatch", d.expected, d.observed, f"XML differs from the hierarchy at {d.path}"))
    else:
        # HTML is not named by the property statement: only structural sanity and the text content are looked at
        problems, anchors, data = _html_facts(text)
        if problems:
            viols.append(("C11/direct-html-unbalanced", "balanced elements", problems[:3], "HTML elements are not properly nested"))
        want = [str(p.pageid) for p in pages] if opts["showpageno"] else []
        if anchors != want:
            viols.append(("C11/direct-html-page-anchors", want, anchors, "one anchor per page, named by the page id"))
        if opts["layoutmode"] != "exact":
            leaf = re.sub(r"[\n\f]", "", "".join(tree_text([p]) for p in pages))
            # the text-box separators of the text form are not part of the HTML form: compare glyph and LTAnno text only
            exp = "".join(t for k, t in _leaf_texts(pages)).replace("\n", "")
            if data != exp:
                viols.append(("C11/direct-html-text-differs-from-tree", exp[:300], data[:300], "character data of the HTML output is not the text of the hierarchy"))
    return ("judged", h64(text), viols)


def _leaf_texts(pages):
    _, lt, *_ = _pdfminer()
    out = []

    def walk(it):
        if isinstance(it, lt.LTContainer):
            for c in it:
                walk(c)
        elif isinstance(it, lt.LTText):
            out.append(("t", it.get_text()))

    for p in pages:
        walk(p)
    return out


def check_direct(di: int, st) -> None:
    _pdfminer()
    m = direct_docs()[di]
    pdf = build_pdf(m)
    for cfg in direct_configs():
        status, outcome, viols = fork_call(_run_direct, (pdf, cfg))
        st.transitions += 1
        st.states += 1
        if status != "judged":
            st.not_judged[status] += 1
            continue
        st.case(None, nontrivial=True, outcome=outcome)
        for sig, exp, obs, what in viols:
            st.violation(sig, {"family": "direct", "pdf": pdf, "config": [cfg[0], cfg[1], cfg[2], cfg[3], cfg[4]], "slots": m}, exp, obs, what)
    st.traces += 1


# -------------------------------------------------------------------- shards
def _arity(fam):
    x = Chooser(())
    PROGRAMS[fam](x)
    return x.arity


def shards(tier):
    out = [("full", (), False, 0)]
    ar = _arity("full")
    singles = [(0,) * i + (a,) for i in range(len(ar)) for a in range(1, ar[i])]
    if tier == "quick":
        # family 1: every single deviation over the full alphabets (chunks of 3 documents)
        for k in range(0, len(singles), 3):
            out.append(("full", tuple(singles[k:k + 3]), False, 1))
        # family 2: pairs over the core alphabets: shard = first deviation; the single itself is skipped (already in family 1)
        ar2 = _arity("small")
        for i in range(len(ar2) - 1):
            for a in range(1, ar2[i]):
                out.append(("small", ((0,) * i + (a,),), True, 2))
    else:
        for p in singles:
            out.append(("full", (p,), True, 2))
    # family 3: every ordered pair of documents (same object numbers, different fonts) converted one after the other
    n = len(seq_docs())
    out += [("seq", i, None, None) for i in range(n)]
    # family 4: extract_text_to_fp(rotation=k) x page /Rotate r
    out += [("rot", r, None, None) for r in PAGE_ROTATIONS]
    # family 5: converters constructed directly with the options the high-level functions never set
    out += [("direct", i, None, None) for i in range(len(direct_docs()))]
    return out


def run_shard(shard, tier, st):
    fam, prefixes, expand, bound = shard
    if fam == "direct":
        check_direct(prefixes, st)
        if prefixes == 0:
            st.sample({"family": "direct", "configs": len(direct_configs()), "example": list(direct_configs()[3])})
        return
    if fam == "rot":
        check_rot(prefixes, st)
        if prefixes == 270:
            st.sample({"family": "rot", "page_rotate": [270, 0], "rotation_args": ROTATION_ARGS, "rows": ROT_ROWS})
        return
    if fam == "seq":
        docs = seq_docs()
        for j, mb in enumerate(docs):
            check_seq(docs[prefixes], mb, st)
            st.states += 1
        if prefixes == 1:
            st.sample({"family": "seq", "first": docs[1], "then": docs[0], "rows": SEQ_ROWS})
        return
    prog = PROGRAMS[fam]
    if prefixes == ():
        prefixes = ((),)
    first = True
    for prefix in prefixes:
        last = None
        for m, x, counters in explore_from(prog, prefix, bound, expand):
            last = counters
            dev = x.deviations()
            if fam == "small" and dev < 2:
                continue  # the single-slot documents of the core alphabet are a subset of family 1
            check_doc(m, st, nontrivial=dev > 0, full=dev < 2)
            if first and dev == bound:
                st.sample({"slots": m, "choices": tuple(x.choices), "labels": x.labels})
                first = False
        if last:
            st.states += last["states"]
            st.transitions += last["transitions"]
            st.traces += last["traces"]


def replay(case):
    from mc.core import jenc

    _pdfminer()
    if case.get("family") == "direct":
        c = case["config"]
        _, _, viols = fork_call(_run_direct, (case["pdf"], (c[0], c[1], c[2], c[3], c[4])))
    elif case.get("family") == "rot":
        _, _, viols = fork_call(_run_rot, (case["pdf"], case["pdf_ref"], case["rotation"], case["la"], tuple(case["row"])))
    elif case.get("family") == "seq":
        _, _, viols = fork_call(_run_seq, (case["pdf_a"], case["pdf"], tuple(case["row"])))
        viols = [("C11/after-another-document:" + s.split("/", 1)[1], e, o, w) for s, e, o, w in viols]
    else:
        # the conversions of this document that preceded the stored one are its call history: run them first
        rec = fork_call(_run_doc, (case["pdf"], case.get("full", True), case["row"]))
        viols = rec[-1][8] if rec and rec[-1][0] == case["row"] else []
    return [{"signature": s, "expected": jenc(e), "observed": jenc(o)} for s, e, o, _ in viols]
