"""C03 -- stream payloads and filter chains decode to exactly the original bytes.

Shape B.  Reference encoders (mc/refs/filters.py, every encoder freedom a
parameter, tied to spec-literal decoders and the stdlib by a self check that
runs inside every shard) produce the encoded data; the real code decodes it

* ``direct``    the decoder functions called directly, every encoder option
                combination x every payload (pool + all short strings over a
                5-byte alphabet);
* ``chain``     all 155 filter sequences of length <= 3 x payload pool x
                {full, abbreviated} names, plus a predictor on every
                Flate/LZW position, through ``PDFDocument.getobj(n).get_data()``;
* ``container`` every combination of <= k deviations of the stream container
                (EOLs, direct/indirect Length/Filter/DecodeParms, forms) for a set
                of chains x delimiter-hostile payloads (ChoiceExplorer, 'dev');
* ``png``/``tiff`` every predictor geometry x every assignment of row filter
                types to <= 3 rows, directly and through a stream.

Oracle: the payload that was written.
"""
from __future__ import annotations

import io
import os
import sys
import itertools
import traceback
import zlib
from typing import Any, Dict, List, Optional, Sequence, Tuple

from mc.core import h64
from mc.explore import ChoiceExplorer, Chooser
from mc.pdfgen import Name, Ref, ser, xref_table
from mc.refs import filters as RF

from pdfminer.ascii85 import ascii85decode, asciihexdecode
from pdfminer.lzw import lzwdecode
from pdfminer.pdfdocument import PDFDocument
from pdfminer.pdfparser import PDFParser
from pdfminer.pdftypes import PDFStream
from pdfminer.psparser import LIT
from pdfminer.runlength import rldecode
from pdfminer.utils import apply_png_predictor, apply_tiff_predictor

ID = "C03"
LEVEL = "model_checking"
DEADLINE = {"quick": 1200, "thorough": 3 * 3600}

FILTERS = ["AHx", "A85", "LZW", "Fl", "RL"]
FULL = {"AHx": "ASCIIHexDecode", "A85": "ASCII85Decode", "LZW": "LZWDecode", "Fl": "FlateDecode", "RL": "RunLengthDecode"}
CHAINS: List[Tuple[str, ...]] = [c for n in (1, 2, 3) for c in itertools.product(FILTERS, repeat=n)]  # 155


# --------------------------------------------------------------------------- payloads
def _lcg(n: int, x: int = 12345) -> bytes:
    """Fixed low-redundancy test vector (a constant, not a sample): fills the LZW table up to a reset."""
    out = bytearray()
    for _ in range(n):
        x = (x * 1103515245 + 12345) & 0x7FFFFFFF
        out.append((x >> 16) & 0xFF)
    return bytes(out)


def _phrases(n: int) -> bytes:
    out = bytearray()
    i = 0
    while len(out) < n:
        out += bytes(range(65 + i % 7, 65 + i % 7 + (i % 19) + 1))
        out += b" %d " % (i * i)
        i += 1
    return bytes(out[:n])


POOL: List[Tuple[str, bytes]] = [
    ("empty", b""),
    ("one", b"\x00"),
    ("all256", bytes(range(256))),
    ("has-endstream", b"abc endstream def"),
    ("crlf-endstream", b"x\r\nendstream\r\nendobj\r\n"),
    ("lf-first", b"\nstarts with LF"),
    ("cr-last", b"ends with CR\r"),
    ("nuls", b"\x00" * 7 + b"a" + b"\x00\x00"),
    ("runs", b"a" * 300 + b"b" * 129 + b"c" * 128 + b"dd" + b"e" + b"\x80" * 130),
    ("zeros4", b"\x00" * 8 + b"\x01\x02\x03\x04" + b"\x00" * 4),
    ("phrases700", _phrases(700)),
    ("eod-lookalikes", b"a~>b>c<~ 80 \x80\x80 z"),
    ("lownibble0", b"\x12\x30"),
]
def _big70k() -> bytes:
    """~70 kB: low-redundancy stretches (LZW table filled and reset many times), long runs, text; crosses many 4096 boundaries."""
    return (_lcg(40000) + b"\x00" * 5000 + b"\x07" * 300 + b"ab" * 700 + bytes(range(256)) * 4 + _phrases(12000) + _lcg(10000, 99) + b"\r\nendstream\r\n" + b"\xff" * 129)


POOL_THOROUGH = [("lcg6000", _lcg(6000)), ("big70k", _big70k())]
BIG = 8192  # payloads above this size only go through chains made of Flate/LZW/RunLength
SMALL: List[bytes] = [bytes(t) for n in range(1, 4) for t in itertools.product([0x00, 0x0A, 0x0D, 0x7A, 0xFF], repeat=n)] + [
    bytes(t) for n in (4, 5) for t in itertools.product([0x00, 0xFF], repeat=n)
] + [b"\x00\x00\x00\x00\x00\x00\x00\x00", b"\x00\x00\x00\x00a", b"\xff\xff\xff\xff\xff\xff\xff"]

CONTAINER_PAYLOADS = ["empty", "one", "has-endstream", "crlf-endstream", "lf-first", "cr-last", "all256", "exact-endstream"]
EXTRA_PAYLOADS = {"exact-endstream": b"endstream"}


def pool(tier: str) -> List[Tuple[str, bytes]]:
    return POOL + (POOL_THOROUGH if tier == "thorough" else [])


def payload_by_name(name: str) -> bytes:
    for k, v in POOL + POOL_THOROUGH:
        if k == name:
            return v
    return EXTRA_PAYLOADS[name]


# --------------------------------------------------------------------------- encoder option spaces
def ahx_options(p: bytes) -> List[Dict[str, Any]]:
    out = []
    odds = [False, True] if (p and p[-1] & 0x0F == 0) else [False]
    for case in ("upper", "lower", "mixed"):
        for odd in odds:
            out.append({"case": case, "ws": "none", "every": 2, "tail_ws": False, "odd": odd})
            for ws in list(RF.WS_KINDS)[1:]:
                for every in (1, 2, 7):
                    for tail in (False, True):
                        out.append({"case": case, "ws": ws, "every": every, "tail_ws": tail, "odd": odd})
    return out


def a85_options(p: bytes) -> List[Dict[str, Any]]:
    out = [{"ws": "none", "every": 5, "lead_ws": False}]
    for ws in list(RF.WS_KINDS)[1:]:
        for every in (1, 5, 64):
            for lead in (False, True):
                out.append({"ws": ws, "every": every, "lead_ws": lead})
    return out


def options(f: str, p: bytes) -> List[Dict[str, Any]]:
    if f == "AHx":
        return ahx_options(p)
    if f == "A85":
        return a85_options(p)
    if f == "RL":
        return [{"strategy": s} for s in RF.RL_STRATEGIES]
    if f == "LZW":
        return [{"clears": c, "early": e, "early_explicit": x} for c in RF.LZW_CLEARS for (e, x) in ((1, False), (1, True), (0, True))]
    if f == "Fl":
        return [{"level": l} for l in (6, 0, 1, 9)]
    raise KeyError(f)


DEFAULT_OPTS = {
    "AHx": {"case": "upper", "ws": "none", "every": 2, "tail_ws": False, "odd": False},
    "A85": {"ws": "none", "every": 5, "lead_ws": False},
    "RL": {"strategy": "greedy"},
    "LZW": {"clears": "start", "early": 1, "early_explicit": False},
    "Fl": {"level": 6},
}
# presets rotated over the chain family so that chained data is not always in the plainest form
PRESETS = {
    "AHx": [DEFAULT_OPTS["AHx"], {"case": "lower", "ws": "LF", "every": 7, "tail_ws": True, "odd": False}, {"case": "mixed", "ws": "SP", "every": 1, "tail_ws": False, "odd": False}],
    "A85": [DEFAULT_OPTS["A85"], {"ws": "LF", "every": 64, "lead_ws": False}, {"ws": "CRLF", "every": 5, "lead_ws": True}],
    "RL": [{"strategy": s} for s in ("greedy", "run3", "split")],
    "LZW": [{"clears": c, "early": 1, "early_explicit": False} for c in RF.LZW_CLEARS],
    "Fl": [{"level": l} for l in (6, 0, 9)],
}


def encode(f: str, data: bytes, o: Dict[str, Any]) -> bytes:
    if f == "AHx":
        odd = o.get("odd", False) and bool(data) and data[-1] & 0x0F == 0
        return RF.ahx_encode(data, o["case"], o["ws"], o["every"], odd, o["tail_ws"])
    if f == "A85":
        return RF.a85_encode(data, o["ws"], o["every"], o["lead_ws"])
    if f == "RL":
        return RF.rl_encode(data, o["strategy"])
    if f == "LZW":
        return RF.lzw_encode(data, o["clears"], o.get("early", 1))
    if f == "Fl":
        return RF.flate_encode(data, o["level"])
    raise KeyError(f)


REF_DECODE = {
    "AHx": RF.ahx_decode_ref,
    "A85": RF.a85_decode_ref,
    "RL": RF.rl_decode_ref,
    "LZW": RF.lzw_decode_ref,
    "Fl": zlib.decompress,
}


def ref_decode(f: str, enc: bytes, o: Dict[str, Any]) -> bytes:
    if f == "LZW":
        return RF.lzw_decode_ref(enc, o.get("early", 1))
    return REF_DECODE[f](enc)


def filter_parms(f: str, o: Dict[str, Any]) -> Optional[Dict[str, Any]]:
    """DecodeParms entries that belong to the filter itself (not to a predictor)."""
    if f == "LZW" and (o.get("early", 1) == 0 or o.get("early_explicit")):
        return {"EarlyChange": o.get("early", 1)}
    return None


def impl_decode(f: str, enc: bytes, o: Dict[str, Any]):
    """The decoder function called directly; through PDFStream.decode when the encoding needs filter parameters."""
    fp = filter_parms(f, o)
    if fp is None:
        _remember({"family": "direct", "filter": f, "encoded": enc, "options": {}})
        return guarded(IMPL_DECODE[f], enc)
    return impl_stage(f, enc, fp)

IMPL_DECODE = {"AHx": asciihexdecode, "A85": ascii85decode, "RL": rldecode, "LZW": lzwdecode, "Fl": zlib.decompress}


def _exc_name(e: BaseException) -> str:
    tb = traceback.extract_tb(e.__traceback__)
    return f"{type(e).__name__}@{tb[-1].name if tb else '?'}"


class WorkBudgetExceeded(BaseException):
    """Raised from the monitoring callback inside the decoder under test (BaseException: no 'except Exception' swallows it)."""


class ShardStop(Exception):
    """The shard has reported VIOLATION_CAP violations: stop working on a tree that is failing anyway."""


VIOLATION_CAP = 40
MAXTASKS = 4  # worker processes are recycled so that state a defective decoder leaks into the process cannot pile up for long


class _Budget:
    """Counted work budget for the decoders: branch/jump/call events (sys.monitoring) inside the decoder code objects of
    pdfminer (lzw, runlength, ascii85, predictors, PDFStream.decode).  No timers."""

    def __init__(self):
        self.count = 0
        self.limit = 1 << 62
        self.installed = False

    def install(self):
        if self.installed:
            return
        self.installed = True
        mon = getattr(sys, "monitoring", None)
        if mon is None or os.environ.get("C03_NO_BUDGET") == "1":
            return
        import pdfminer.ascii85 as m_a85
        import pdfminer.lzw as m_lzw
        import pdfminer.pdftypes as m_types
        import pdfminer.runlength as m_rl
        import pdfminer.utils as m_utils

        tool = 3
        try:
            mon.use_tool_id(tool, "c03-work-budget")
        except ValueError:
            return
        codes = []

        def walk(co):
            codes.append(co)
            for c in co.co_consts:
                if hasattr(c, "co_code"):
                    walk(c)

        fns = [m_lzw.LZWDecoder.readbits, m_lzw.LZWDecoder.feed, m_lzw.LZWDecoder.run, m_lzw.lzwdecode, m_rl.rldecode,
               m_a85.ascii85decode, m_a85.asciihexdecode, m_utils.apply_png_predictor, m_utils.apply_tiff_predictor,
               m_utils.paeth_predictor, m_types.PDFStream.decode, m_types.decompress_corrupted]
        fns += [v for k, v in vars(m_a85).items() if callable(v) and getattr(v, "__module__", "") == m_a85.__name__ and hasattr(v, "__code__")]
        seen = set()
        for f in fns:
            co = getattr(f, "__code__", None)
            if co is not None and co not in seen:
                seen.add(co)
                walk(co)
        ev = mon.events.JUMP | mon.events.BRANCH | mon.events.PY_START
        for co in codes:
            mon.set_local_events(tool, co, ev)

        def tick(*_a):
            self.count += 1
            if self.count > self.limit:
                self.limit = 1 << 62  # raise once
                raise WorkBudgetExceeded(f"more than the budgeted decoder events")

        mon.register_callback(tool, mon.events.JUMP, tick)
        mon.register_callback(tool, mon.events.BRANCH, tick)
        mon.register_callback(tool, mon.events.PY_START, tick)

    def arm(self, nbytes: int):
        """Allow work proportional to the bytes involved: 400 events per byte + 200000 (measured need: < 40 per byte)."""
        self.install()
        self.count = 0
        self.limit = 400 * nbytes + 200000

    def disarm(self):
        self.limit = 1 << 62


BUDGET = _Budget()


def guarded(fn, *a):
    BUDGET.arm(sum(len(x) for x in a if isinstance(x, (bytes, bytearray))) + getattr(fn, "_nbytes", 0))
    try:
        return ("ok", fn(*a))
    except WorkBudgetExceeded:
        return ("exc", "nontermination:work budget exceeded")
    except Exception as e:  # noqa
        return ("exc", _exc_name(e))
    finally:
        BUDGET.disarm()


# --------------------------------------------------------------------------- chain encoding
class Pred:
    """Predictor description attached to one filter position."""

    def __init__(self, kind: str, colors: int, columns: int, bits: int = 8, rows: Sequence[int] = (), explicit: bool = True):
        self.kind, self.colors, self.columns, self.bits, self.rows, self.explicit = kind, colors, columns, bits, tuple(rows), explicit

    def rowbytes(self) -> int:
        return RF.row_bytes(self.colors, self.columns, self.bits)

    def apply(self, data: bytes) -> bytes:
        if self.kind == "tiff":
            return RF.tiff_predict(data, self.colors, self.columns)
        rb = self.rowbytes()
        n = len(data) // rb
        rows = self.rows if len(self.rows) == n else tuple(self.rows[i % len(self.rows)] for i in range(n))
        return RF.png_predict(data, self.colors, self.columns, self.bits, rows)

    def parms(self) -> Dict[str, Any]:
        if self.kind == "tiff":
            d: Dict[str, Any] = {"Predictor": 2}
        else:
            d = {"Predictor": (10 + self.rows[0]) if len(set(self.rows)) == 1 else 15}
        if self.explicit or self.colors != 1:
            d["Colors"] = self.colors
        if self.explicit or self.columns != 1:
            d["Columns"] = self.columns
        if self.explicit or self.bits != 8:
            d["BitsPerComponent"] = self.bits
        return d

    def desc(self):
        return (self.kind, self.colors, self.columns, self.bits, self.rows, self.explicit)


class Stage:
    __slots__ = ("f", "inp", "after_filter", "out", "pred", "opts")


def stage_parms(st: "Stage") -> Optional[Dict[str, Any]]:
    """DecodeParms dictionary of one stage: filter parameters (EarlyChange) plus predictor parameters."""
    d: Dict[str, Any] = {}
    fp = filter_parms(st.f, st.opts)
    if fp:
        d.update(fp)
    if st.pred:
        d.update(st.pred.parms())
    return d or None


def encode_chain(chain: Sequence[str], payload: bytes, opts: Sequence[Dict[str, Any]], preds: Sequence[Optional[Pred]]) -> Tuple[bytes, List[Stage]]:
    """Filter array [f1..fn] means: decoding applies f1 first, so encoding applies fn first."""
    cur = payload
    stages: List[Stage] = []
    for i in range(len(chain) - 1, -1, -1):
        st = Stage()
        pr = preds[i](cur) if callable(preds[i]) else preds[i]  # a predictor may be fitted to the datum of its stage
        st.f, st.opts, st.pred = chain[i], opts[i], pr
        st.out = cur
        st.after_filter = pr.apply(cur) if pr else cur
        st.inp = encode(chain[i], st.after_filter, opts[i])
        # tie the encoder to the reference decoder on exactly this datum
        assert ref_decode(chain[i], st.inp, opts[i]) == st.after_filter, ("reference encoder/decoder disagree", chain[i], opts[i])
        if pr:
            p = pr
            back = RF.tiff_unpredict_ref(st.after_filter, p.colors, p.columns) if p.kind == "tiff" else RF.png_unpredict_ref(st.after_filter, p.colors, p.columns, p.bits)
            assert back == cur, ("reference predictor does not invert", p.desc())
        cur = st.inp
        stages.append(st)
    stages.reverse()
    return cur, stages


# --------------------------------------------------------------------------- document writer (stream container spelled by choices)
DEFAULT_CONTAINER = {
    "sep": b"\n", "eol_after": b"\n", "eol_before": b"\n", "length": "direct", "filter": "plain", "parms": "plain",
    "names": "full", "keyorder": "length-first", "tail": b"\n",
}


class DocB:
    def __init__(self, pad: int = 0):
        self.head = b"%PDF-1.5\n%\xe2\xe3\xcf\xd3\n" + (b"%" + b"p" * pad + b"\n" if pad else b"")
        self.bodies: Dict[int, bytes] = {}
        self.order: List[int] = []
        self.next = 1
        self.add(b"<</Type/Catalog/Pages 2 0 R>>")
        self.add(b"<</Type/Pages/Kids[]/Count 0>>")

    def reserve(self) -> int:
        n = self.next
        self.next += 1
        return n

    def place(self, n: int, body: bytes, tail: bytes = b"\n") -> None:
        self.bodies[n] = body + tail
        self.order.append(n)

    def add(self, body: bytes) -> int:
        n = self.reserve()
        self.place(n, body)
        return n

    def write(self) -> bytes:
        out = bytearray(self.head)
        offs = {}
        for n in self.order:
            offs[n] = (len(out), 0)
            out += b"%d 0 obj\n" % n + self.bodies[n] + b"endobj\n"
        start = len(out)
        out += xref_table(offs)
        out += b"trailer\n<</Size %d/Root 1 0 R>>\nstartxref\n%d\n%%%%EOF\n" % (self.next, start)
        return bytes(out)


def add_stream(db: DocB, chain: Sequence[str], stages: List[Stage], data: bytes, c: Dict[str, Any]) -> int:
    """Write one stream object (and its satellite objects) according to container choices ``c``; returns its number."""
    names = [Name(FULL[f] if c["names"] == "full" else f) for f in chain]
    parms = [stage_parms(st) for st in stages]
    num = db.reserve()
    before: List[Tuple[int, bytes]] = []
    after: List[Tuple[int, bytes]] = []
    d: Dict[str, Any] = {}
    # Length
    if c["length"] == "direct":
        length: Any = len(data)
    else:
        ln = db.reserve()
        (before if c["length"] == "indirect-before" else after).append((ln, b"%d" % len(data)))
        length = Ref(ln)
    # Filter
    fval: Any = None
    if names:
        form = c["filter"]
        if form == "plain":
            fval = names[0] if len(names) == 1 else list(names)
        elif form == "array":
            fval = list(names)
        elif form == "indirect":
            fn = db.reserve()
            before.append((fn, ser(names[0] if len(names) == 1 else list(names))))
            fval = Ref(fn)
        elif form == "indirect-array":
            fn = db.reserve()
            after.append((fn, ser(list(names))))
            fval = Ref(fn)
        elif form == "array-of-indirect":
            refs = []
            for nm in names:
                fn = db.reserve()
                after.append((fn, ser(nm)))
                refs.append(Ref(fn))
            fval = refs
        else:
            raise KeyError(form)
    # DecodeParms
    pval: Any = None
    need = any(p is not None for p in parms)
    form = c["parms"]
    if names:
        plain = parms[0] if len(names) == 1 else list(parms)
        if need:
            if form == "plain":
                pval = plain
            elif form == "array":
                pval = list(parms)
            elif form == "indirect":
                pn = db.reserve()
                before.append((pn, ser(plain)))
                pval = Ref(pn)
            elif form == "indirect-array":
                pn = db.reserve()
                after.append((pn, ser(list(parms))))
                pval = Ref(pn)
            elif form == "array-of-indirect":
                lst: List[Any] = []
                for p in parms:
                    if p is None:
                        lst.append(None)
                    else:
                        pn = db.reserve()
                        after.append((pn, ser(p)))
                        lst.append(Ref(pn))
                pval = lst
            elif form == "indirect-values":
                # every entry of every parameter dictionary (Predictor, Colors, Columns, BitsPerComponent, EarlyChange) is 'N 0 R'
                conv: List[Any] = []
                for p in parms:
                    if p is None:
                        conv.append(None)
                        continue
                    d2: Dict[str, Any] = {}
                    for kk, vv in p.items():
                        vn = db.reserve()
                        (before if len(d2) % 2 == 0 else after).append((vn, ser(vv)))
                        d2[kk] = Ref(vn)
                    conv.append(d2)
                pval = conv[0] if len(names) == 1 else conv
            else:
                raise KeyError(form)
        else:
            if form == "array":
                pval = [None] * len(names)  # array of nulls: "no parameters" for every filter
            elif form == "indirect":
                pn = db.reserve()
                before.append((pn, ser([None] * len(names))))
                pval = Ref(pn)
    items = []
    if fval is not None:
        items.append(("Filter", fval))
    if pval is not None:
        items.append(("DecodeParms", pval))
    if c["keyorder"] == "length-first":
        items.insert(0, ("Length", length))
    else:
        items.append(("Length", length))
    for k, v in items:
        d[k] = v
    body = ser(d) + c["sep"] + b"stream" + c["eol_after"] + data + c["eol_before"] + b"endstream"
    for n, b in before:
        db.place(n, b)
    db.place(num, body, tail=c["tail"])  # the tail separator sits between 'endstream' and 'endobj'
    for n, b in after:
        db.place(n, b)
    return num


# --------------------------------------------------------------------------- observing the implementation
class Livelock(Exception):
    pass


class _CountingParser(PDFParser):
    nfill = 0
    budget = 0

    def fillbuf(self) -> None:
        self.nfill += 1
        if self.nfill > self.budget:
            raise Livelock("refill budget exceeded")
        return PDFParser.fillbuf(self)


def open_doc(doc: bytes, bufsiz: int = 4096):
    """-> PDFDocument, or ('exc', name) when the file cannot be opened."""
    p = _CountingParser(io.BytesIO(doc))
    p.BUFSIZ = bufsiz
    p.nfill = 0
    p.budget = 16 * len(doc) + 100000
    try:
        return PDFDocument(p)
    except Exception as e:  # noqa
        return ("exc", "open:" + _exc_name(e))


def read_one(d, n: int, hint: int = 0):
    if isinstance(d, tuple):
        return d
    BUDGET.arm(hint)
    try:
        o = d.getobj(n)
        if not isinstance(o, PDFStream):
            return ("notstream", type(o).__name__)
        BUDGET.arm(hint + len(o.rawdata or b""))
        first = o.get_data()
        # the same (cached) object is fetched and read a second time: it must hand back the same bytes
        try:
            o2 = d.getobj(n)
            second = o2.get_data()
        except WorkBudgetExceeded:
            raise
        except Exception as e:  # noqa
            return ("exc", "second-read:" + _exc_name(e))
        if second != first or o2 is not o:
            return ("second-read-differs", second if second != first else b"<not the cached object>")
        return ("ok", first)
    except WorkBudgetExceeded:
        return ("exc", "nontermination:work budget exceeded")
    except Exception as e:  # noqa
        return ("exc", _exc_name(e))
    finally:
        BUDGET.disarm()


def read_streams(doc: bytes, nums: Sequence[int], bufsiz: int = 4096) -> List[Any]:
    d = open_doc(doc, bufsiz)
    return [read_one(d, n) for n in nums]


def impl_stage(f: str, inp: bytes, parms: Optional[Dict[str, Any]]):
    """One decode stage through the real PDFStream.decode (no parser involved)."""
    _remember({"family": "stage", "filter": f, "encoded": inp, "parms": dict(parms) if parms else None})
    attrs: Dict[str, Any] = {"Filter": LIT(FULL[f])}
    if parms is not None:
        attrs["DecodeParms"] = dict(parms)
    def fn():
        ps = PDFStream(attrs, inp)
        first = ps.get_data()
        try:
            second = ps.get_data()  # second read of the same object
        except Exception as e:  # noqa
            raise type(e)("second get_data(): " + str(e)).with_traceback(e.__traceback__)
        if second != first:
            raise ValueError("second get_data() differs from the first")
        return first

    fn._nbytes = len(inp)  # type: ignore[attr-defined]
    return guarded(fn)


# --------------------------------------------------------------------------- diagnosis
def png_class(p: Pred, obs) -> str:
    if p.bits != 8:
        return "png-predictor:bits%d" % p.bits
    if p.colors > 1 and p.rows and p.rows[0] in (2, 3, 4):
        return "png-predictor:first-row-multicolour"
    if p.colors > 1 and any(t in (3, 4) for t in p.rows):
        return "png-predictor:multicolour-type%d" % next(t for t in p.rows if t in (3, 4))
    return "png-predictor:types=" + "".join(str(t) for t in sorted(set(p.rows)))


def diagnose_stages(stages: List[Stage]) -> Optional[str]:
    """First decode stage that the implementation gets wrong on the reference intermediate data."""
    for st in stages:
        r0 = impl_stage(st.f, st.inp, filter_parms(st.f, st.opts))
        if r0 != ("ok", st.after_filter):
            return f"{st.f}-decode:" + opt_cause(st.f, st.after_filter, st.opts)
        if st.pred:
            r1 = impl_stage(st.f, st.inp, stage_parms(st))
            if r1 != ("ok", st.out):
                return png_class(st.pred, r1) if st.pred.kind == "png" else "tiff-predictor:colors=%d" % st.pred.colors
    return None


def opt_cause(f: str, data: bytes, o: Dict[str, Any]) -> str:
    """Name the encoder option that makes the direct decoder fail on ``data`` (or 'payload' if the plainest encoding fails)."""
    base = DEFAULT_OPTS[f]
    if impl_decode(f, encode(f, data, base), base) != ("ok", data):
        return "plain-encoding"
    if o.get("ws", "none") not in ("none", "LF"):
        # same layout with LF as the white-space character: is the *kind* of white space the cause?
        if impl_decode(f, encode(f, data, dict(o, ws="LF")), o) == ("ok", data):
            return "ws=" + o["ws"]
    causes = []
    for k, v in o.items():
        if v != base[k]:
            o1 = dict(base)
            o1[k] = v
            if k == "ws":
                o1["every"] = o.get("every", base.get("every"))
            if k == "every" and o.get("ws", "none") == "none":
                continue
            if k == "early":
                o1["early_explicit"] = True
            if impl_decode(f, encode(f, data, o1), o1) != ("ok", data):
                causes.append("ws-position" if k == "every" else ("EarlyChange=%s" % v if k == "early" else f"{k}={v}"))
    if causes:
        return "+".join(sorted(set(causes)))
    diff = [f"{k}={v}" for k, v in sorted(o.items()) if v != base.get(k)]
    if not diff:
        return "decode-dispatch"  # the decoder function is right on this datum, PDFStream.decode is not
    return "interaction:" + "+".join(diff)


# --------------------------------------------------------------------------- families
BOUNDS = {
    "quick": {"container_dev": 3, "png_patterns": 2, "png_lzw": True, "chain_preds": True, "small_direct": True},
    "thorough": {"container_dev": 3, "png_patterns": 2, "png_lzw": True, "chain_preds": True, "small_direct": True},
}
PNG_GEOMS = [(c, w, b) for b in (8, 1) for c in (1, 3, 4) for w in (1, 2, 3, 5, 8, 9, 16)]
# pixel sizes (colours x bits) below one byte, above one byte but not a whole number of bytes, and whole bytes other than 1/3/4:
# bytes-per-pixel and bytes-per-row must both be rounded UP (PNG specification 6.2)
PNG_GEOMS_X_QUICK = [(c, w, 1) for c in (2, 9, 12, 17) for w in (1, 3, 8)] + [(2, w, 8) for w in (1, 3)]
PNG_GEOMS_X_THOROUGH = [g for g in (
    [(c, w, 1) for c in (2, 5, 7, 8, 9, 10, 12, 15, 16, 17, 23, 24, 25) for w in (1, 2, 3, 5, 8, 9)] + [(c, w, 8) for c in (2, 5) for w in (1, 2, 3, 5)]
) if g not in PNG_GEOMS_X_QUICK]


def png_geoms(tier: str):
    return PNG_GEOMS + PNG_GEOMS_X_QUICK + (PNG_GEOMS_X_THOROUGH if tier == "thorough" else [])

ROW_ASSIGN: List[Tuple[int, ...]] = [t for n in (1, 2, 3) for t in itertools.product(range(5), repeat=n)]  # 155
TIFF_GEOMS = [(c, w) for c in (1, 2, 3, 4) for w in (1, 2, 3, 5, 8, 16)]
TIFF_ROWS = (1, 2, 3, 4, 7)
CONTAINER_BUFSIZ = (4096, 7, 1)  # 7 splits 'stream\r\n' between CR and LF
# (chain, position of a PNG predictor or None, position of an LZW stage written with /EarlyChange 0 or None)
CONTAINER_CHAINS: List[Tuple[Tuple[str, ...], Optional[int], Optional[int]]] = [
    ((), None, None), (("Fl",), None, None), (("AHx",), None, None), (("A85",), None, None), (("LZW",), None, None), (("RL",), None, None),
    (("A85", "Fl"), None, None), (("Fl",), 0, None), (("AHx", "LZW", "RL"), 1, None), (("LZW",), None, 0),
]
CONTAINER_BIG = (0, 1, 5)  # thorough: the 70 kB payload through these container chains, one deviation

META = {
    "rule": (
        "direct: every (filter, payload, encoder-option combination) decoded by the decoder function; chain: every one of the 155 "
        "filter sequences of length<=3 x payload pool x {full, abbreviated names} (encoder presets rotated), plus a PNG/TIFF predictor on "
        "each Flate/LZW position, read through PDFDocument.getobj(n).get_data(); container: all choice vectors with <= container_dev "
        "deviations over 9 container choice points (separator before 'stream', EOL after it (LF/CRLF), EOL before 'endstream' "
        "(LF/CRLF/CR/none), Length direct/indirect before/after, Filter name/array/indirect forms, DecodeParms dict/array/null/indirect "
        "forms incl. every parameter value (Predictor, Colors, Columns, BitsPerComponent, EarlyChange) as an indirect object, names, key order, separator before endobj) for 9 chains x 8 delimiter-hostile payloads, each file read with BUFSIZ 4096, 7 "
        "(splits 'stream' CR|LF) and 1; paeth: all (left, above, upper-left) triples over 8 boundary values, 1 and 2 colours; png: 42 geometries (colours "
        "1,3,4 x columns 1,2,3,5,8,9,16 x bits 8,1) plus pixel sizes that are not 1, 3 or 4 whole bytes (quick: 1-bit colours 2,9,12,17 x columns "
        "1,3,8 and 8-bit colours 2; thorough: 1-bit colours 2..25 incl. 5,7,8,10,15,16,23,24,25 x columns 1,2,3,5,8,9 and 8-bit colours 2,5) x all 155 assignments of row filter types 0-4 to <=3 rows, directly and through a "
        "Flate (thorough: also LZW) stream; tiff: colours 1-4 x columns 1,2,3,5,8,16 x 1,2,3,4,7 rows (and 2x2, 3x3, 4x4 geometries inside chains).  every stream read through a document is fetched and read a second time (same cached object, same bytes; "
        "incl. empty payloads with and without filters); objstm: files with cross-reference stream + object stream whose members are the "
        "integers used as indirect /Length (and /Columns) of two streams, as the last two/three members, swapped, before/after a name, "
        "x filter none/Flate/ASCIIHex/LZW x 5 payload pairs x BUFSIZ 4096/5; history: for every filter and option set, every ordered pair (p, q) of 5 payloads decoded as p, q, p in one process (function "
        "and PDFStream), each result must equal what the datum gives alone; a85tail: for final groups of 1-4 bytes every reachable last "
        "ASCII85 digit (45/85/85/85, incl. '>' and '<') x 3 prefixes x EOD spellings ~>, ~>LF, LF~> (and the lenient forms '~ >', '~', none that "
        "ascii85decode documents).  LZW clear-table codes: at the start only, every 64 codes, before EOD, every 255 codes "
        "(just after the switch to 10 bits), and when the table is full (6000-byte payload, direct family in both tiers).  LZW data is written with "
        "EarlyChange 1 (implicit and explicit) and EarlyChange 0 in the direct, chain and container families.  thorough adds a 6000-byte and a "
        "70 kB payload (the latter through chains of Flate/LZW/RunLength only and three container chains).  A case = one encoded datum or stream "
        "decoded and compared with the payload; non-trivial = payload non-empty; states/transitions = nodes/edges of the enumeration "
        "trees (choice tree for container, product trees elsewhere); traces = decoded-and-compared executions; outcome = hash of the "
        "bytes/exception the implementation returned."
    ),
    "bound": {k: str(v) for k, v in BOUNDS.items()},
    "assumptions": [
        "decoder work is bounded by a counted budget of sys.monitoring branch/jump/call events inside the decoder code objects (400 per byte + 200000); "
        "exceeding it is reported as C03/nontermination; a shard stops after 40 violations (recorded in caps_hit, the run is then not called exhaustive); "
        "a stored case that does not fail alone in a fresh interpreter is stored with the prelude of decoder calls that makes it fail (state carried over)",
        "the reference encoders are correct: each encoded datum is decoded back by an independent spec-literal decoder (or zlib/base64/binascii) inside the run, a mismatch aborts the run",
        "the abbreviated dictionary keys /F and /DP are not generated: ISO 32000-1 allows them only in inline images (in a stream dictionary /F is a file specification)",
        "encoded data always carries its EOD marker ('>', '~>', 128, 257); streams always carry a correct Length",
        "predictor payloads are whole rows; TIFF predictor only with 8-bit components (the only supported depth); PNG with 8 and 1 bit",
        "payloads longer than 70 kB and chains longer than 3 are not explored; Crypt/DCT/CCITT/JBIG2/JPX filters are outside the property",
        "PDFDocument opening of the generated files (xref table, trailer) is trusted as plumbing",
    ],
}


def _pattern(n: int, which: int) -> bytes:
    if which == 0:
        return bytes((37 * i * i + 11 * i + 5) % 256 for i in range(n))
    alpha = [0, 1, 255, 128, 127, 2]
    return bytes(alpha[(i * i + i // 3) % len(alpha)] for i in range(n))


def shards(tier):
    out: List[Any] = []
    for f in FILTERS:
        out.append(("direct", f, "pool"))
        for k in range(4):
            out.append(("direct", f, "small", k, 4))
    for i in range(len(CHAINS)):
        out.append(("chain", i))
    for ci in range(len(CONTAINER_CHAINS)):
        for pn in CONTAINER_PAYLOADS:
            out.append(("container", ci, pn))
        if tier == "thorough" and ci in CONTAINER_BIG:
            out.append(("container", ci, "big70k"))
    for gi in range(len(png_geoms(tier))):
        out.append(("png", gi))
    out.append(("tiff",))
    for f in FILTERS:
        out.append(("history", f))
    for n in (1, 2, 3, 4):
        out.append(("a85tail", n))
    for fi in range(4):
        out.append(("objstm", fi))
    for k in range(len(PAETH_VALUES)):
        out.append(("paeth", k))
    return out


# ---- reporting helper
RECENT: List[Dict[str, Any]] = []  # the last few decoder calls of this process, as replayable descriptors
FRESH_CHECKS_PER_SHARD = 4


def _remember(desc: Dict[str, Any]) -> None:
    RECENT.append(desc)
    del RECENT[:-3]


def _fresh_reproduces(case: Dict[str, Any]) -> bool:
    """Re-execute one stored case in a fresh interpreter (what the runner will do before it reports the violation)."""
    import json
    import subprocess
    import tempfile

    from mc.core import jenc

    fd, path = tempfile.mkstemp(prefix="c03case_", suffix=".json", dir=tempfile.gettempdir())
    try:
        with os.fdopen(fd, "w") as f:
            json.dump({"case": jenc(case)}, f)
        core = os.path.join(os.path.dirname(os.path.dirname(os.path.abspath(__file__))), "mc", "core.py")
        r = subprocess.run([sys.executable, core, "C03", "--replay", path], capture_output=True, text=True, env={**os.environ, "PYTHONHASHSEED": "0"})
        return r.returncode == 1
    finally:
        try:
            os.unlink(path)
        except OSError:
            pass


def make_reproducible(case: Dict[str, Any], sig: str) -> Tuple[Optional[Dict[str, Any]], str]:
    """A stored case must fail when executed alone in a fresh process.  If it does not, the failure depends on what this
    process decoded before: find a prelude (the same datum once more, or the last decoder calls) that reproduces it."""
    if _fresh_reproduces(case):
        return case, sig
    bare = {k: v for k, v in case.items() if k not in ("prelude", "signature")}
    filt = sig.split("-decode:")[0] if "-decode:" in sig else (case.get("filter") or ">".join(case.get("chain") or []) or "stream")
    sig2 = f"{filt}-decode:state-carried-over"
    for prelude in ([bare], [d for d in RECENT[:-1]] + [bare], list(RECENT)):
        c2 = {**case, "prelude": prelude, "signature": "C03/" + sig2, "cause_in_this_run": sig}
        if _fresh_reproduces(c2):
            return c2, sig2
    return None, sig2 + ":not-reproduced-alone"


def report(st, sig: str, case: Dict[str, Any], expected: bytes, observed, what: str) -> None:
    full = "C03/" + sig
    nfresh = getattr(st, "_c03_nfresh", 0)
    if st.viol_counts[full] < st.MAX_VIOL_PER_SIG and nfresh < FRESH_CHECKS_PER_SHARD:
        st._c03_nfresh = nfresh + 1
        c2, sig = make_reproducible({**case, "signature": full}, sig)
        full = "C03/" + sig
        if c2 is None:
            st.viol_counts[full] += 1  # counted, but no artefact that would not reproduce
        else:
            st.violation(full, {**c2, "signature": full}, ("ok", expected), observed, what)
    else:
        st.viol_counts[full] += 1
    n = getattr(st, "_c03_nviol", 0) + 1
    st._c03_nviol = n
    if n >= VIOLATION_CAP:
        raise ShardStop()


def _short(b, n=40):
    return repr(b[:n]) + ("..." if len(b) > n else "")


# ---- direct
def run_direct(shard, tier, st):
    f = shard[1]
    if shard[2] == "pool":
        payloads = [p for _, p in pool(tier)]
        if tier == "quick":
            payloads.append(POOL_THOROUGH[0][1])  # 6000 low-redundancy bytes: LZW table filled and reset, 12-bit codes
    else:
        k, m = shard[3], shard[4]
        payloads = [p for i, p in enumerate(SMALL) if i % m == k]
    RF.selfcheck(payloads[:3] if shard[2] == "pool" else payloads[:20])
    dec = IMPL_DECODE[f]
    st.states += 1
    for p in payloads:
        opts = options(f, p)
        st.states += 1 + len(opts)
        st.transitions += 1 + len(opts)
        for o in opts:
            enc = encode(f, p, o)
            assert ref_decode(f, enc, o) == p, ("reference encoder/decoder disagree", f, o)
            r = impl_decode(f, enc, o)
            st.case(None, nontrivial=bool(p), outcome=h64(r))
            st.traces += 1
            if r != ("ok", p):
                sig = f"nontermination:{f}" if (r[0] == "exc" and str(r[1]).startswith("nontermination")) else f"{f}-decode:" + opt_cause(f, p, o)
                report(st, sig, {"family": "direct", "filter": f, "encoded": enc, "options": o, "payload": p}, p, r,
                       f"{dec.__name__ if filter_parms(f, o) is None else 'PDFStream(Filter=' + FULL[f] + ', DecodeParms=' + repr(filter_parms(f, o)) + ').get_data'}({_short(enc)}) gives {r[0]}:{_short(r[1]) if r[0]=='ok' else r[1]}, payload {_short(p)}")
    st.sample({"family": "direct", "filter": f, "payload": payloads[-1][:32], "encoded": encode(f, payloads[-1], options(f, payloads[-1])[-1])[:64]})


# ---- streams in documents
def judge_streams(st, db: DocB, entries: List[Dict[str, Any]], bufsizes: Sequence[int] = (4096,)) -> None:
    """entries: dicts with num, payload, chain, stages, data, container, desc.  Decodes all through one document per BUFSIZ."""
    doc = db.write()
    docs = [open_doc(doc, b) for b in bufsizes]
    for i, e in enumerate(entries):
        p = e["payload"]
        per = [read_one(d, e["num"], len(p) + len(e["data"])) for d in docs]  # lazily: a failing tree stops at the violation cap
        for r in per:
            st.case(None, nontrivial=bool(p), outcome=h64(r))
            st.traces += 1
        bad = [(b, r) for b, r in zip(bufsizes, per) if r != ("ok", p)]
        if not bad:
            continue
        b, r = bad[0]
        if r[0] == "second-read-differs" or (r[0] == "exc" and str(r[1]).startswith("second-read:")):
            cause = "second-read:" + ("empty-data" if not p else "non-empty-data")
        elif r[0] == "exc" and str(r[1]).startswith("nontermination"):
            cause = "nontermination:" + ">".join(e["chain"])
        else:
            cause = diagnose_stages(e["stages"])
        if cause is None:
            cause = e.get("container_cause") or ("pipeline:" + ">".join(e["chain"]) if e["chain"] else "container:default")
            if callable(cause):
                cause = cause()
            if per[0] == ("ok", p):
                cause = "buffer-dependent:" + cause
        # self-contained artefact: a document holding only this stream
        one = DocB()
        n1 = add_stream(one, e["chain"], e["stages"], e["data"], e["container"])
        d1 = one.write()
        r1 = read_streams(d1, [n1], b)[0]
        art_doc, art_num, art_obs = (d1, n1, r1) if r1 != ("ok", p) else (doc, e["num"], r)
        report(st, cause, {"family": e["family"], "doc": art_doc, "objnum": art_num, "bufsiz": b, "payload": p, "chain": list(e["chain"]), "desc": e["desc"]}, p, art_obs,
               f"stream {e['desc']}: get_data gives {art_obs[0]}:{_short(art_obs[1]) if art_obs[0]=='ok' else art_obs[1]}, payload {_short(p)} ({len(p)} bytes), BUFSIZ={b}")


def fit_pred(kind: str, payload: bytes, idx: int) -> Optional[Pred]:
    """A predictor whose row size divides the payload."""
    n = len(payload)
    if n == 0:
        return None
    if kind == "png1":
        return Pred("png", 1, 1, 8, rows=[(idx + i) % 5 for i in range(5)], explicit=bool(idx % 2))
    if kind == "png4" and n % 4 == 0:
        return Pred("png", 2, 2, 8, rows=[(idx + 2 * i + 1) % 5 for i in range(5)], explicit=True)
    if kind == "tiff4" and n % 4 == 0:
        return Pred("tiff", 2, 2, 8, explicit=bool(idx % 2))
    if kind == "tiff16" and n % 16 == 0:
        return Pred("tiff", 4, 4, 8, explicit=True)
    if kind == "tiff9" and n % 9 == 0:
        return Pred("tiff", 3, 3, 8, explicit=True)
    return None


def run_chain(shard, tier, st):
    ci = shard[1]
    chain = CHAINS[ci]
    RF.selfcheck([POOL[3][1]])
    db = DocB(pad=ci % 9)
    entries = []
    st.states += 1
    for pi, (pname, payload) in enumerate(pool(tier)):
        if len(payload) > BIG and not set(chain) <= {"Fl", "LZW", "RL"}:
            continue
        nop: List[Any] = [None] * len(chain)
        variants: List[Tuple[str, List[Any], Optional[int]]] = [("nopred", nop, None)]
        for pos, f in enumerate(chain):
            if f in ("Fl", "LZW"):
                for kind in ("png1", "png4", "tiff4", "tiff16", "tiff9"):
                    if len(payload) <= 1024:
                        pl: List[Any] = [None] * len(chain)
                        pl[pos] = (lambda d, kind=kind, k=ci + pi + pos: fit_pred(kind, d, k) if len(d) <= 4096 else None)
                        variants.append((f"{kind}@{pos}", pl, None))
                        if f == "LZW" and kind == "png1":
                            variants.append((f"early0+{kind}@{pos}", pl, pos))
            if f == "LZW":
                variants.append((f"early0@{pos}", nop, pos))
        for vi, (vname, preds, epos) in enumerate(variants):
            for names in ("full", "abbr"):
                if vname != "nopred" and names == "abbr" and (ci + pi) % 2:
                    continue
                opts = [PRESETS[f][(ci + pi + k + vi) % len(PRESETS[f])] for k, f in enumerate(chain)]
                if epos is not None:
                    opts[epos] = dict(opts[epos], early=0, early_explicit=True)
                data, stages = encode_chain(chain, payload, opts, preds)
                if "@" in vname and "early0@" not in vname and not any(sg.pred for sg in stages):
                    continue  # the predictor geometry does not divide the datum at that stage
                c = dict(DEFAULT_CONTAINER)
                c["names"] = names
                num = add_stream(db, chain, stages, data, c)
                entries.append({"num": num, "payload": payload, "chain": chain, "stages": stages, "data": data, "container": c, "family": "chain",
                                "desc": {"chain": list(chain), "payload": pname, "names": names, "pred": vname, "opts": [dict(o) for o in opts]}})
                st.states += 1
                st.transitions += 1
    judge_streams(st, db, entries)
    if ci % 31 == 0:
        e = entries[len(entries) // 2]
        st.sample({"family": "chain", "desc": e["desc"], "encoded": e["data"][:80]})


# ---- container
def container_program(x: Chooser, nfilters: int, need_parms: bool) -> Dict[str, Any]:
    c: Dict[str, Any] = {}
    feats: List[str] = []

    def pick(key, alts):
        i = x.choose(len(alts), key)
        if i:
            feats.append(f"{key}={alts[i][0]}")
        c[key] = alts[i][1]

    pick("sep", [("LF", b"\n"), ("SP", b" "), ("none", b""), ("CRLF", b"\r\n"), ("CR", b"\r")])
    pick("eol_after", [("LF", b"\n"), ("CRLF", b"\r\n")])
    pick("eol_before", [("LF", b"\n"), ("CRLF", b"\r\n"), ("CR", b"\r"), ("none", b"")])
    pick("length", [(k, k) for k in ("direct", "indirect-before", "indirect-after")])
    if nfilters == 0:
        c["filter"] = "plain"
        c["parms"] = "plain"
        c["names"] = "full"
    else:
        if nfilters == 1:
            forms = ["plain", "array", "indirect", "indirect-array", "array-of-indirect"]
        else:
            forms = ["plain", "indirect", "indirect-array", "array-of-indirect"]
        pick("filter", [(k, k) for k in forms])
        if need_parms:
            pf = ["plain", "array", "indirect", "indirect-array", "array-of-indirect", "indirect-values"]
        else:
            pf = ["plain", "array", "indirect"]
        pick("parms", [(k, k) for k in pf])
        pick("names", [("full", "full"), ("abbr", "abbr")])
    pick("keyorder", [("length-first", "length-first"), ("length-last", "length-last")])
    pick("tail", [("LF", b"\n"), ("SP", b" "), ("CRLF", b"\r\n"), ("CR", b"\r")])
    c["_feats"] = feats
    return c


def run_container(shard, tier, st):
    ci, pname = shard[1], shard[2]
    chain, predpos, epos = CONTAINER_CHAINS[ci]
    payload = payload_by_name(pname)
    preds: List[Optional[Pred]] = [None] * len(chain)
    if predpos is not None and payload:
        preds[predpos] = Pred("png", 1, 1, 8, rows=[4, 2, 1, 3, 0], explicit=True)
    opts = [DEFAULT_OPTS[f] for f in chain]
    if epos is not None:
        opts[epos] = dict(opts[epos], early=0, early_explicit=True)
    data, stages = encode_chain(chain, payload, opts, preds)
    need = any(stage_parms(sg) is not None for sg in stages)
    bound = 1 if len(payload) > BIG else BOUNDS[tier]["container_dev"]
    ex = ChoiceExplorer(lambda x: container_program(x, len(chain), need), mode="dev", bound=bound)
    batch: List[Dict[str, Any]] = []
    db = DocB(pad=ci)
    single_cache: Dict[str, bool] = {}

    def single_fails(feat: str) -> bool:
        if feat not in single_cache:
            key, alt = feat.split("=", 1)
            # rebuild the container with only this deviation
            x1 = Chooser([])
            c0 = container_program(x1, len(chain), need)
            idx = x1.labels.index(key)
            ex1 = None
            for a in range(1, x1.arity[idx]):
                c1 = container_program(Chooser([0] * idx + [a]), len(chain), need)
                if c1["_feats"] == [feat]:
                    ex1 = c1
                    break
            if ex1 is None:
                single_cache[feat] = False
            else:
                one = DocB()
                n1 = add_stream(one, chain, stages, data, ex1)
                d1 = one.write()
                single_cache[feat] = any(read_streams(d1, [n1], b)[0] != ("ok", payload) for b in CONTAINER_BUFSIZ)
        return single_cache[feat]

    default_ok: List[Optional[bool]] = [None]

    def default_fails() -> bool:
        if default_ok[0] is None:
            one = DocB()
            n1 = add_stream(one, chain, stages, data, DEFAULT_CONTAINER)
            d1 = one.write()
            default_ok[0] = all(read_streams(d1, [n1], b)[0] == ("ok", payload) for b in CONTAINER_BUFSIZ)
        return not default_ok[0]

    def cause_for(feats: List[str]):
        def f():
            if not feats or default_fails():
                return "container:default"
            singles = [x for x in feats if single_fails(x)]
            if singles:
                return "container:" + "+".join(sorted(singles))
            return "container:interaction:" + "+".join(sorted(feats))
        return f

    def flush():
        nonlocal db
        if batch:
            judge_streams(st, db, batch, CONTAINER_BUFSIZ)
            batch.clear()
        db = DocB(pad=ci)

    nvec = 0
    for c, x in ex.run():
        nvec += 1
        feats = list(c["_feats"])
        num = add_stream(db, chain, stages, data, c)
        batch.append({"num": num, "payload": payload, "chain": chain, "stages": stages, "data": data, "container": {k: v for k, v in c.items() if k != "_feats"},
                      "family": "container", "container_cause": cause_for(feats),
                      "desc": {"chain": list(chain), "payload": pname, "pred": predpos, "early0": epos, "container": feats}})
        if len(batch) >= 25:
            flush()
    flush()
    st.states += ex.states
    st.transitions += ex.transitions
    st.add("container_vectors", nvec)
    if ci % 4 == 0 and pname == "crlf-endstream":
        st.sample({"family": "container", "chain": list(chain), "payload": payload, "vectors": nvec})


# ---- predictors
def run_png(shard, tier, st):
    colors, columns, bits = png_geoms(tier)[shard[1]]
    b = BOUNDS[tier]
    rb = RF.row_bytes(colors, columns, bits)
    st.states += 1
    for pat in range(b["png_patterns"]):
        db = DocB(pad=shard[1] % 5)
        entries = []
        for ai, rows in enumerate(ROW_ASSIGN):
            payload = _pattern(rb * len(rows), pat)
            explicit = bool((ai + shard[1]) % 2)
            pr = Pred("png", colors, columns, bits, rows=rows, explicit=explicit)
            enc = pr.apply(payload)
            assert RF.png_unpredict_ref(enc, colors, columns, bits) == payload
            st.states += 1
            st.transitions += 1
            # direct call
            r = guarded(apply_png_predictor, pr.parms()["Predictor"], colors, columns, bits, enc)
            st.case(None, nontrivial=True, outcome=h64(r))
            st.traces += 1
            if r != ("ok", payload):
                report(st, png_class(pr, r), {"family": "png-direct", "colors": colors, "columns": columns, "bits": bits, "rows": list(rows), "encoded": enc, "payload": payload},
                       payload, r, f"apply_png_predictor(colors={colors}, columns={columns}, bits={bits}, rows={rows}) gives {r[0]}:{_short(r[1]) if r[0]=='ok' else r[1]}, expected {_short(payload)}")
            # through a stream
            for f in (["Fl", "LZW"] if b["png_lzw"] else ["Fl"]):
                chain = (f,)
                data, stages = encode_chain(chain, payload, [DEFAULT_OPTS[f]], [pr])
                num = add_stream(db, chain, stages, data, DEFAULT_CONTAINER)
                entries.append({"num": num, "payload": payload, "chain": chain, "stages": stages, "data": data, "container": DEFAULT_CONTAINER, "family": "png-stream",
                                "desc": {"chain": [f], "png": [colors, columns, bits], "rows": list(rows), "explicit": explicit, "pattern": pat}})
        judge_streams(st, db, entries)
    if shard[1] % 10 == 0:
        st.sample({"family": "png", "geometry": [colors, columns, bits], "rows": list(ROW_ASSIGN[40]), "encoded": Pred("png", colors, columns, bits, rows=ROW_ASSIGN[40]).apply(_pattern(rb * 2, 0))})


def run_tiff(shard, tier, st):
    db = DocB()
    entries = []
    st.states += 1
    for colors, columns in TIFF_GEOMS:
        for nrows in TIFF_ROWS:
            for pat in (0, 1):
                payload = _pattern(colors * columns * nrows, pat)
                pr = Pred("tiff", colors, columns, 8, explicit=bool((colors + columns + nrows) % 2))
                enc = pr.apply(payload)
                assert RF.tiff_unpredict_ref(enc, colors, columns) == payload
                r = guarded(apply_tiff_predictor, colors, columns, 8, enc)
                st.case(None, nontrivial=True, outcome=h64(r))
                st.traces += 1
                st.states += 1
                st.transitions += 1
                if r != ("ok", payload):
                    report(st, "tiff-predictor:colors=%d" % colors, {"family": "tiff-direct", "colors": colors, "columns": columns, "encoded": enc, "payload": payload}, payload, r,
                           f"apply_tiff_predictor(colors={colors}, columns={columns}) gives {r!r}")
                for f in ("Fl", "LZW"):
                    data, stages = encode_chain((f,), payload, [DEFAULT_OPTS[f]], [pr])
                    num = add_stream(db, (f,), stages, data, DEFAULT_CONTAINER)
                    entries.append({"num": num, "payload": payload, "chain": (f,), "stages": stages, "data": data, "container": DEFAULT_CONTAINER, "family": "tiff-stream",
                                    "desc": {"chain": [f], "tiff": [colors, columns], "rows": nrows, "pattern": pat}})
    judge_streams(st, db, entries)


PAETH_VALUES = [0, 1, 2, 3, 5, 127, 128, 255]


def run_paeth(shard, tier, st):
    """All (left, above, upper-left) triples over PAETH_VALUES: second pixel of the second row, Paeth filter."""
    a = PAETH_VALUES[shard[1]]
    st.states += 1
    for b in PAETH_VALUES:
        for c in PAETH_VALUES:
            for v in (0, 200):
                for colors in (1, 2):
                    if colors == 1:
                        payload = bytes((c, b, a, v))
                    else:
                        payload = bytes((c, 7, b, 9, a, 11, v, 13))
                    pr = Pred("png", colors, 2, 8, rows=(0, 4))
                    enc = pr.apply(payload)
                    assert RF.png_unpredict_ref(enc, colors, 2, 8) == payload
                    r = guarded(apply_png_predictor, 15, colors, 2, 8, enc)
                    st.case(None, nontrivial=True, outcome=h64(r))
                    st.traces += 1
                    st.states += 1
                    st.transitions += 1
                    if r != ("ok", payload):
                        report(st, "png-predictor:paeth", {"family": "png-direct", "colors": colors, "columns": 2, "bits": 8, "rows": [0, 4], "encoded": enc, "payload": payload},
                               payload, r, f"Paeth with left={a} above={b} upper-left={c}: apply_png_predictor gives {r!r}, expected {payload!r}")


# ---- indirect Length / DecodeParms values that live in an object stream
def run_objstm(shard, tier, st):
    """Files with a cross-reference stream and an object stream; the integers used as indirect /Length (and /Columns) of the
    filtered streams are members of the object stream, in every position incl. the last one, two and three members."""
    from mc.pdfgen import Doc, Stream as GStream

    fi = shard[1]
    f = (None, "Fl", "AHx", "LZW")[fi]
    pls = [payload_by_name(n) for n in ("has-endstream", "all256", "one", "empty")]
    st.states += 1
    for (i, j) in [(0, 1), (1, 0), (0, 2), (2, 3), (1, 1)]:
        for layout in ("ints-last", "ints-last-swapped", "name-then-ints", "ints-then-name", "three-ints"):
            for bufsiz in (4096, 5):
                doc = Doc()
                cat, pages = doc.reserve(), doc.reserve()
                doc.set(cat, {"Type": Name("Catalog"), "Pages": pages})
                doc.set(pages, {"Type": Name("Pages"), "Kids": [], "Count": 0})
                payloads = [pls[i], pls[j]]
                pred = layout == "three-ints" and f in ("Fl", "LZW")
                srefs = [doc.reserve(), doc.reserve()]
                packed: List[Any] = []
                lrefs = [doc.reserve(), doc.reserve()]
                order = [1, 0] if layout == "ints-last-swapped" else [0, 1]
                nm = doc.reserve() if layout in ("name-then-ints", "ints-then-name") else None
                col = doc.reserve() if layout == "three-ints" else None
                encs = []
                for k in (0, 1):
                    pl = payloads[k]
                    pr = Pred("png", 1, 1, 8, rows=[2, 1, 4], explicit=True) if (pred and pl) else None
                    data, stages = encode_chain((f,) if f else (), pl, [DEFAULT_OPTS[f]] if f else [], [pr] if f else [])
                    d: Dict[str, Any] = {}
                    if f:
                        d["Filter"] = Name(FULL[f])
                        if pr:
                            pp = pr.parms()
                            pp["Columns"] = col  # indirect, held by the object stream
                            d["DecodeParms"] = pp
                    doc.set(srefs[k], GStream(d, data, length=lrefs[k]))
                    encs.append((data, stages))
                # object numbers decide the order inside the object stream: renumber the integers accordingly
                members: List[Tuple[Any, Any]] = [(lrefs[k], len(encs[k][0])) for k in order]
                if col is not None:
                    members.append((col, 1))
                if nm is not None:
                    members = ([(nm, Name("Marker"))] + members) if layout == "name-then-ints" else (members + [(nm, Name("Marker"))])
                # pdfgen packs in ascending object number: give the members ascending fresh numbers in the wanted order
                base = max(r.num for r in srefs + lrefs + ([nm] if nm else []) + ([col] if col else [])) + 1
                remap = {}
                for off, (ref, val) in enumerate(members):
                    remap[ref.num] = base + off
                    doc.objs.pop(ref.num, None)
                for off, (ref, val) in enumerate(members):
                    doc.objs[base + off] = (0, val)
                    ref.num = base + off  # the Ref objects inside the stream dictionaries follow
                raw = doc.write(cat, xref="stream", objstm=[base + k for k in range(len(members))])
                st.states += 1
                st.transitions += 1
                dd = open_doc(raw, bufsiz)
                for k in (0, 1):
                    r = read_one(dd, srefs[k].num, len(payloads[k]) + len(encs[k][0]))
                    st.case(None, nontrivial=bool(payloads[k]), outcome=h64(r))
                    st.traces += 1
                    if r != ("ok", payloads[k]):
                        cause = diagnose_stages(encs[k][1])
                        if r[0] == "second-read-differs" or (r[0] == "exc" and str(r[1]).startswith("second-read:")):
                            cause = "second-read:" + ("empty-data" if not payloads[k] else "non-empty-data")
                        elif cause is None:
                            cause = "objstm-held-parameters:" + layout
                        report(st, cause, {"family": "objstm", "doc": raw, "objnum": srefs[k].num, "bufsiz": bufsiz, "payload": payloads[k],
                                           "chain": [f] if f else [], "desc": {"layout": layout, "filter": f, "lengths": [len(e[0]) for e in encs]}}, payloads[k], r,
                               f"stream whose /Length{' and /Columns' if pred else ''} is an integer held by an object stream (layout {layout}, filter {f}): get_data gives "
                               f"{r[0]}:{_short(r[1]) if isinstance(r[1], (bytes, bytearray)) else r[1]}, payload {_short(payloads[k])}")
    st.sample({"family": "objstm", "filter": f, "layouts": 5})


# ---- history: decoders must not carry state from one datum to the next
HISTORY_PAYLOADS = ["one", "all256", "phrases700", "runs", "zeros4"]


def run_history(shard, tier, st):
    """Every ordered pair (p, q) of payloads, every encoder option set of the filter: decode p, q, p in this order in one
    process, directly and through PDFStream; each result must be what the datum gives alone (its payload)."""
    f = shard[1]
    pls = [payload_by_name(n) for n in HISTORY_PAYLOADS]
    opts = options(f, b"") if f in ("LZW", "RL", "Fl") else PRESETS[f]
    st.states += 1
    for o in opts:
        encs = [encode(f, p, o) for p in pls]
        for e, p in zip(encs, pls):
            assert ref_decode(f, e, o) == p
        for i in range(len(pls)):
            for j in range(len(pls)):
                st.states += 1
                st.transitions += 1
                for step, k in enumerate((i, j, i)):
                    for via in ("function", "stream"):
                        r = impl_decode(f, encs[k], o) if via == "function" else impl_stage(f, encs[k], filter_parms(f, o))
                        st.case(None, nontrivial=True, outcome=h64(r))
                        st.traces += 1
                        if r != ("ok", pls[k]):
                            if r[0] == "exc" and str(r[1]).startswith("nontermination"):
                                sig = f"nontermination:{f}"
                            elif impl_stage(f, encs[k], filter_parms(f, o)) != ("ok", pls[k]) and step == 0 and i == 0:
                                sig = f"{f}-decode:" + opt_cause(f, pls[k], o)
                            else:
                                sig = f"{f}-decode:state-carried-over"
                            report(st, sig, {"family": "direct", "filter": f, "encoded": encs[k], "options": o, "payload": pls[k],
                                             "history": [HISTORY_PAYLOADS[x] for x in (i, j, i)][:step]}, pls[k], r,
                                   f"{f}: decoding {HISTORY_PAYLOADS[k]} as step {step + 1} of the history {[HISTORY_PAYLOADS[x] for x in (i, j, i)]} ({via}) gives "
                                   f"{r[0]}:{_short(r[1]) if r[0] == 'ok' else r[1]}, expected {_short(pls[k])}")
    st.sample({"family": "history", "filter": f, "payloads": HISTORY_PAYLOADS, "option_sets": len(opts)})


# ---- ASCII85 final group: every last digit, full and partial groups, EOD spellings
A85_EODS = [("~>", b"~>", True), ("~>LF", b"~>\n", True), ("LF~>", b"\n~>", True), ("~ >", b"~ >", False), ("~", b"~", False), ("none", b"", False)]


def _a85_tail_payloads() -> Dict[Tuple[int, int], bytes]:
    """(number of bytes of the final group 1..4, last digit 0..84) -> smallest payload whose final group ends in that digit."""
    found: Dict[Tuple[int, int], bytes] = {}
    for n in (1, 2, 3, 4):
        want = 85
        # enumerate payloads of n bytes in numeric order of their last two bytes; the leading bytes take three patterns
        for lead in (0x00, 0xFF, 0x5A):
            for v in range(256 if n == 1 else 65536):
                tail = v.to_bytes(1 if n == 1 else 2, "big")
                p = bytes((lead,)) * (n - len(tail)) + tail
                enc = RF.a85_encode(p)[:-2]
                if enc == b"z":
                    continue
                d = enc[-1] - 33
                if (n, d) not in found:
                    found[(n, d)] = p
                    want -= 1
            if want <= 0:
                break
    return found


def run_a85tail(shard, tier, st):
    n = shard[1]
    table = _a85_tail_payloads()
    digits = sorted(d for (k, d) in table if k == n)
    st.add("a85_last_digits_group%d" % n, len(digits))
    st.states += 1
    for d in digits:
        tailp = table[(n, d)]
        for prefix in (b"", b"abcd", b"\x00\x00\x00\x00wxyz"):
            p = prefix + tailp
            body = RF.a85_encode(p)[:-2]
            assert body[-1] - 33 == d
            for name, eod, conformant in A85_EODS:
                enc = body + eod
                if conformant:
                    assert RF.a85_decode_ref(enc) == p
                st.states += 1
                st.transitions += 1
                for via in ("function", "stream"):
                    r = guarded(ascii85decode, enc) if via == "function" else impl_stage("A85", enc, None)
                    st.case(None, nontrivial=True, outcome=h64(r))
                    st.traces += 1
                    if r != ("ok", p):
                        sig = "A85-decode:last-digit-%s:eod=%s" % ("gt" if chr(33 + d) == ">" else "tilde-neighbour" if chr(33 + d) in "<~" else "any", name)
                        report(st, sig, {"family": "direct", "filter": "A85", "encoded": enc, "options": {}, "payload": p}, p, r,
                               f"ascii85decode({enc!r}) [{via}] gives {r[0]}:{_short(r[1]) if r[0] == 'ok' else r[1]}, expected {p!r} (final group of {n} bytes ends in digit {chr(33 + d)!r})")
    st.sample({"family": "a85tail", "group_bytes": n, "last_digits": len(digits), "example": RF.a85_encode(table[(n, digits[-1])])})


def run_shard(shard, tier, st):
    try:
        _run_shard(shard, tier, st)
    except ShardStop:
        st.caps.append(f"shard stopped after {VIOLATION_CAP} violations (failing tree: remaining cases of the shard not executed)")


def _run_shard(shard, tier, st):
    fam = shard[0]
    if fam == "history":
        return run_history(shard, tier, st)
    if fam == "a85tail":
        return run_a85tail(shard, tier, st)
    if fam == "objstm":
        return run_objstm(shard, tier, st)
    if fam == "direct":
        run_direct(shard, tier, st)
    elif fam == "chain":
        run_chain(shard, tier, st)
    elif fam == "container":
        run_container(shard, tier, st)
    elif fam == "png":
        run_png(shard, tier, st)
    elif fam == "tiff":
        run_tiff(shard, tier, st)
    elif fam == "paeth":
        run_paeth(shard, tier, st)
    else:
        raise KeyError(fam)


# --------------------------------------------------------------------------- replay
def _exec_case(case):
    fam = case["family"]
    if fam == "direct":
        return impl_decode(case["filter"], case["encoded"], case.get("options") or {})
    if fam == "stage":
        return impl_stage(case["filter"], case["encoded"], case.get("parms"))
    if fam == "png-direct":
        return guarded(apply_png_predictor, 15, case["colors"], case["columns"], case["bits"], case["encoded"])
    if fam == "tiff-direct":
        return guarded(apply_tiff_predictor, case["colors"], case["columns"], 8, case["encoded"])
    return read_streams(case["doc"], [case["objnum"]], case.get("bufsiz", 4096))[0]


def replay(case):
    sig = case["signature"]
    p = case["payload"]
    for pre in case.get("prelude") or []:
        _exec_case(pre)  # what the process had decoded before (state carried over between decoder calls)
    r = _exec_case(case)
    if r != ("ok", p):
        return [{"signature": sig, "expected": repr(("ok", p))[:1500], "observed": repr(r)[:1500]}]
    return []
