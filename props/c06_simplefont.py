"""C06 -- simple fonts: code -> Unicode text / advance follow encoding, glyph names, ToUnicode, widths.

Shape B.  Three families of shards:

* ``font``  -- font dictionaries as choice vectors over nine dimensions (subtype, base encoding, encoding
  form, Differences, ToUnicode, widths, Type3 FontMatrix, embedded Type 1 header, direct/indirect spelling),
  every vector with at most k non-default choices; each font is written into a one-page PDF, **all 256
  codes** are shown and every LTChar (text, adv) is compared with the reference model.
* ``names`` -- the glyph-name grammar straight through ``encodingdb.name2unicode``.
* ``tables``-- the four Latin encoding tables (as served by ``EncodingDB.get_encoding``) against
  independent sources (cp1252, mac_roman, the frozen Annex D PDFDocEncoding table, CFF standard strings).
* ``indir`` -- four feature-rich fonts with every applicable sub-object (Encoding, Differences, BaseEncoding, Widths, single
  widths, FirstChar, LastChar, FontDescriptor, MissingWidth, Length1, FontMatrix, FontBBox, BaseFont) written directly or as
  an indirect reference: all subsets with <= 2 or >= k-1 indirect slots (thorough: all 2^k).
* ``std14`` -- every name of the built-in metrics table (14 canonical faces and their 12 alternative names) as BaseFont
  without /Widths under three encodings, all 256 codes; alias -> canonical identity and frozen fingerprints of the table.
* ``share`` -- (also) a PDFResourceManager(caching=False) reused for a second document whose font has the same object
  number: the second document is read with its own font; two fonts in one document (Differences overlay must not leak into the shared base table); fonts of one
  /Font resource dictionary given partly as indirect references and partly as direct dictionaries, in every order.
"""
from __future__ import annotations

import itertools
from fractions import Fraction
from typing import Any, Dict, List, Optional, Tuple

from mc.core import h64
from mc.pdfgen import HexStr, N, Ref, Doc, Stream, page_doc, ser, tounicode_cmap
from mc.refs import fonts_ref as R

ID = "C06"
LEVEL = "model_checking"
FONTSIZE = 8

# --------------------------------------------------------------------------- alphabet
SUBTYPES = ["Type1", "TrueType", "MMType1", "Type3"]
ENCODINGS = ["WinAnsiEncoding", None, "StandardEncoding", "MacRomanEncoding", "PDFDocEncoding", "FooEncoding", "MacExpertEncoding"]
ENCFORMS = ["name", "dict"]


def _n(*xs):
    return [N(x) if isinstance(x, str) else x for x in xs]


DIFFS: List[Optional[list]] = [
    None,
    # one run, names of every grammar production
    _n(65, "Euro", "uni0042", "u0043", "a_b", "f_f_i.alt", "Lcommaaccent_uni20AC0308_u1040C.alternate", "uni00410042"),
    # two runs with a gap
    _n(39, "quotesingle", 96, "grave", "uniFB01", 200, "Aacute", "fi", "universal"),
    # run crossing 255 (entries past 255 name no code)
    _n(254, "A", "B", "C", "D"),
    # names the algorithm maps to nothing, laid over encoded codes and over unencoded codes
    _n(65, "foo", ".notdef", "g23", 97, "uniD800", "u110000", "uni004", "u041", "u0000041", "uni0041D800", 1, "foo", "A"),
    # compound names with one unmapped component (the component maps to the empty string)
    _n(65, "A_foo", "foo_B", "A_.notdef", "f_uniD800_i", 97, "foo_bar", "_", "A_"),
    # forms a prefix-match / character-strip reading would accept
    _n(70, "unin0041", "uu0042", "u0043u", "uni0044i", "uniuni0045", "uni0041zzzz", 80, "unix", "ubuntu", "u1F", "uni", "u004G", "uni004G"),
    # runs starting at 0, at 31/32, at 127/128 and at 160
    _n(0, "A", "B", 31, "C", "space.alt", 127, "bullet", "Euro", 160, "nbspace", 173, "hyphen"),
    # the same code named twice: the later entry wins
    _n(65, "B", 65, "C", "uni0058", 66, "Y"),
    # range boundaries of the uni / u productions
    _n(65, "uniD7FF", "uniE000", "uniDFFF", "uFFFF", "u10000", "u10FFFF", "uD800", "uDFFF", "uE000", "uniFFFF", "u0041", "uni0000"),
    # names equal to the base encoding (no-op overlay) and dot-suffixed list names
    _n(65, "A", "B", 97, "a.sc", "b.alt.x", "c.", ".c"),
]

# ToUnicode maps: (bfchars, bfranges)
TOUNI: List[Optional[Tuple[list, list]]] = [
    None,
    ([(b"\x41", "X"), (b"\x42", "Y"), (b"\x61", "α")], []),  # codes the encoding already covers
    ([(b"\x00", "Z"), (b"\x01", "☃"), (b"\x1f", "一"), (b"\x7f", "Q")], []),  # codes the encoding leaves empty
    ([], [(b"\x41", b"\x5a", "a")]),  # incrementing range A..Z -> a..z
    ([], [(b"\x30", b"\x32", ["A", "BC", "\U0001f600"])]),  # array form
    ([(b"\x41", "ffi"), (b"\x42", "\U0001f600"), (b"\x43", "é")], []),  # multi-character / astral targets
    ([(b"\x20", " ")], [(b"\x80", b"\xff", "Ā")]),  # mixed, high half
    ([], [(b"\x00", b"\xff", "Ѐ")]),  # every code
    # destinations that carry out of the low byte (U+00F0.. -> U+0109; last unit of a two-unit target; U+0FFE -> U+1003)
    ([], [(b"\x41", b"\x5a", "ð"), (b"\x61", b"\x63", "Aÿ"), (b"\x30", b"\x35", "\u0ffe"), (b"\x64", b"\x66", "ffg"), (b"\x70", b"\x71", "A\U0001f600")]),
    # one stream holding several begincmap .. endcmap sections (a map with supplements appended): all of them count
    ("sections", [([(b"\x41", "X")], []), ([(b"\x42", "Y"), (b"\x01", "Q")], [(b"\x61", b"\x63", "α")])]),
    ("sections", [([], [(b"\x30", b"\x32", ["A", "BC", "D"])]), ([(b"\x43", "ffi")], []), ([(b"\x7f", "Z")], [(b"\x80", b"\x82", "Ā")])]),
    # the same code defined twice: the later entry wins, except the library's documented guard that a code mapped to
    # SPACE is not re-mapped to NO-BREAK SPACE
    ("raw",
     b"/CIDInit /ProcSet findresource begin\n12 dict begin\nbegincmap\n/CMapName /Adobe-Identity-UCS def\n/CMapType 2 def\n"
     b"1 begincodespacerange\n<00> <FF>\nendcodespacerange\n"
     b"1 beginbfrange\n<41> <43> <0061>\nendbfrange\n"
     b"2 beginbfchar\n<42> <00A0>\n<44> <0020>\nendbfchar\n"
     b"1 beginbfrange\n<44> <45> <00A0>\nendbfrange\n"
     b"1 beginbfchar\n<46> <0058>\nendbfchar\n"
     b"1 beginbfrange\n<46> <46> <00A0>\nendbfrange\n"
     b"2 beginbfchar\n<47> <00A0>\n<47> <0059>\nendbfchar\n"
     b"2 beginbfrange\n<48> <49> [<0050> <0051>]\n<48> <49> [<00A0> <0020>]\nendbfrange\n"
     b"1 beginbfchar\n<49> <00A0>\nendbfchar\n"
     b"endcmap\nCMapName currentdict /CMap defineresource pop\nend\nend\n",
     {0x41: "a", 0x42: "\u00a0", 0x43: "c", 0x44: " ", 0x45: "\u00a1", 0x46: "\u00a0", 0x47: "Y", 0x48: "\u00a0", 0x49: " "},
     []),
    # entries whose destination is the empty string, on codes the encoding maps as well: the ToUnicode entry still wins
    ([(b"\x42", ""), (b"\x43", "Y"), (b"\x61", ""), (b"\x01", "")], [(b"\x30", b"\x32", ["A", "", "C"])]),
    # blocks in which malformed entries stand between well-formed ones: a malformed entry is skipped (the codes it
    # names are not judged), every well-formed neighbour in the block still counts
    ("raw",
     b"/CIDInit /ProcSet findresource begin\n12 dict begin\nbegincmap\n/CMapName /Adobe-Identity-UCS def\n/CMapType 2 def\n"
     b"1 begincodespacerange\n<00> <FF>\nendcodespacerange\n"
     b"7 beginbfrange\n<41> <43> <0061>\n<50> <0051> <03A0>\n<44> <45> <0064>\n80 <52> <0041>\n<46> <46> [<0066>]\n<53> <55> [<0041>]\n<47> <48> <0067>\nendbfrange\n"
     b"5 beginbfchar\n<61> <0041>\n<62> 5\n<63> <0043>\n98 <0044>\n<64> <0045>\nendbfchar\n"
     b"3 beginbfrange\n<70> /nope <0070>\n<71> <72> <0051>\n<73> <0074> [<0041>]\nendbfrange\n"
     b"endcmap\nCMapName currentdict /CMap defineresource pop\nend\nend\n",
     {0x41: "a", 0x42: "b", 0x43: "c", 0x44: "d", 0x45: "e", 0x46: "f", 0x47: "g", 0x48: "h", 0x61: "A", 0x63: "C", 0x64: "E", 0x71: "Q", 0x72: "R"},
     [0x50, 0x51, 0x52, 0x53, 0x54, 0x55, 0x62, 0x70, 0x73, 0x74]),
]

# widths: kind, basefont, firstchar, widths(list or None), missingwidth(or None)
def _w(n, f):
    return [f(i) for i in range(n)]


WIDTHS = [
    ("plain", "ABCDEF+Foo", 32, _w(95, lambda i: 200 + 3 * (i + 32)), 333),
    ("plain", "ABCDEF+Foo", 0, _w(256, lambda i: 100 + 3 * i), None),
    ("plain", "ABCDEF+Foo", 200, _w(56, lambda i: 900 - 2 * i), 500),
    ("plain", "ABCDEF+Foo", 65, [611, 722, 833], None),
    ("plain", "ABCDEF+Foo", 64, [Fraction(1001, 2), Fraction(2501, 4), 750, Fraction(7, 8)], Fraction(251, 2)),
    # explicit zero widths for encoded and unencoded codes next to a non-zero MissingWidth: 0 is a width, not "absent"
    ("plain", "ABCDEF+Foo", 30, _w(100, lambda i: 0 if i % 3 == 2 else 150 + 5 * i), 321),
    ("std14", "Helvetica", None, None, None),
    ("std14", "Times-Roman", None, None, None),
    ("std14", "Courier", None, None, None),
    # the two standard-14 fonts with an encoding of their own (ISO 32000-1 9.6.6.1, Annex D.5 / D.6)
    ("std14", "Symbol", None, None, None),
    ("std14", "ZapfDingbats", None, None, None),
    ("std14+widths", "Helvetica", 32, _w(95, lambda i: 1000 - 2 * i), 444),
    ("std14+widths", "Arial", 32, _w(95, lambda i: 300 + 5 * i), 444),
    # a standard-14 name with explicit widths some of which are 0 (must not fall back to the built-in metric)
    ("std14+widths", "Times-Roman", 32, _w(95, lambda i: 0 if i % 2 else 400 + i), 444),
]

FONTMATRIX = [
    [Fraction(1, 1000), 0, 0, Fraction(1, 1000), 0, 0],
    [Fraction(1, 500), 0, 0, Fraction(1, 500), 0, 0],
    [Fraction(1, 500), 0, 0, Fraction(1, 1000), 0, 0],
    [Fraction(1, 1000), 0, Fraction(1, 2000), Fraction(1, 1000), 0, 0],  # oblique (sheared) glyph space
    [Fraction(1, 1000), 0, 0, Fraction(-1, 1000), 0, 0],
]

# embedded Type 1 header: None | ("vector", [(code, name)...]) | ("standard",)
FONTFILES = [
    None,
    ("vector", [(65, "A"), (66, "B"), (97, "uni0041"), (98, "Euro"), (99, "f_i"), (100, "foo"), (32, "space"), (200, "a.alt")]),
    ("standard",),
    ("vector", [(65, "A"), (66, "u110000"), (67, "C")]),
    ("vector", [(65, "A"), (66, "uni0041zzzz"), (67, "C")]),
    # built-in vectors that give NO code a Unicode value: only private glyph names / no entries at all.  The built-in
    # encoding is then empty, which is not the same as absent (nothing may be filled in from StandardEncoding).
    ("vector", [(65, "G01"), (66, "G02"), (97, "g23"), (32, "G00")]),
    ("vector", []),
    # the boundary codes 0, 1, 255 are codes; 256 and -1 are not
    ("vector", [(0, "alpha"), (1, "beta"), (255, "gamma"), (256, "delta"), (-1, "epsilon"), (128, "Euro"), (127, "bullet")]),
    # "/Encoding StandardEncoding def" followed by "dup CODE /NAME put" lines: what those codes show is not judged (the
    # puts do not address the encoding array in PostScript), every other code is StandardEncoding -- and the process-wide
    # StandardEncoding table must come out of it unchanged (check_tables)
    ("standard", [(65, "Euro"), (97, "bullet")]),
]
SPELL = ["direct", "indirect"]

DIMS = [
    ("subtype", SUBTYPES),
    ("encoding", ENCODINGS),
    ("encform", ENCFORMS),
    ("differences", DIFFS),
    ("tounicode", TOUNI),
    ("widths", WIDTHS),
    ("fontmatrix", FONTMATRIX),
    ("fontfile", FONTFILES),
    ("spelling", SPELL),
]
ARITY = [len(d[1]) for d in DIMS]

BOUNDS = {"quick": {"deviations": 3, "shards": 96}, "thorough": {"deviations": 5, "shards": 640}}

META = {
    "rule": (
        "font family: every choice vector over (subtype 4, base encoding 7, encoding form 2, Differences 11, ToUnicode 14 (two with several begincmap..endcmap sections, one with malformed entries between well-formed ones, one with empty destinations, one defining codes twice), "
        "widths 14, Type3 FontMatrix 5, embedded Type 1 header 8 (two whose vector gives no code a Unicode value, one naming the boundary codes 0, 1, 255, 256, -1), spelling 2) with at most `deviations` non-default "
        "choices (default = Type1, WinAnsi name, no Differences, no ToUnicode, Widths from 32 + MissingWidth), minus the "
        "combinations that are not fonts (Type3 x standard-14, FontMatrix on non-Type3, FontFile on TrueType/Type3/"
        "standard-14, ...); each surviving vector is one case = one generated PDF in which all 256 codes are shown; "
        "every code's (text, adv) is compared with the model. states/transitions = nodes/edges of the choice tree "
        "(distinct vector prefixes), traces = fonts executed and compared. names family: one case per glyph name "
        "passed to name2unicode; tables family: one case per (encoding, code) cell; share family: one case per "
        "two-font document. indir family: one case per (font, set of sub-objects written as references) document, all "
        "256 codes. std14 family: one case per (metrics name, encoding) document with all 256 codes, one per "
        "metrics-table name (alternative name carries the canonical face's metrics; canonical metrics equal the "
        "frozen fingerprint). non-trivial = the model expects at least one non-placeholder text and one non-zero "
        "advance (fonts), a non-empty expected string (names), a defined cell (tables)."
    ),
    "bound": {k: str(v) for k, v in BOUNDS.items()},
    "assumptions": [
        "glyph list, Latin encoding rows and standard-14 metrics are data read from pdfminer's own modules; only the "
        "Latin tables are cross-checked against independent sources (cp1252, mac_roman, frozen Annex D PDFDocEncoding, "
        "CFF standard-string order, and the encoding arrays / glyph list of an offline pdf.js 2.14 copy frozen in "
        "data/c06_pdfjs_tables.json, which also supplies MacExpert, Symbol and ZapfDingbats); the 81 multi-code-point "
        "glyph-list entries and the AFM metrics have no independent source offline (ZapfDingbats metrics are read "
        "through pdfminer's own chr(N)-for-aN keying)",
        "lower-case hexadecimal uni/u glyph names are not judged (the repository test-suite pins their acceptance)",
        "symbolic TrueType fonts read through the embedded program's own cmap, CFF (FontFile3) built-in encodings and "
        "Differences naming ZapfDingbats glyphs (aN) are not generated",
        "the advance of the space glyph of ZapfDingbats is not judged (its AFM metric is lost in pdfminer's table by a "
        "key collision with a32 and no AFM is available offline)",
        "text of codes that depend on an unknown base-encoding name, and of codes outside Differences in a Type3 "
        "encoding without BaseEncoding, is not judged (counted under not_judged)",
        "fonts beyond the stated number of simultaneous deviations from the default font are not explored",
        "advance compared with relative tolerance 1e-9 at font size 8",
    ],
}


# ------------------------------------------------------------------ enumeration
def vectors(k: int) -> List[Tuple[int, ...]]:
    n = len(ARITY)
    out = []
    for r in range(0, k + 1):
        for pos in itertools.combinations(range(n), r):
            for alts in itertools.product(*[range(1, ARITY[p]) for p in pos]):
                v = [0] * n
                for p, a in zip(pos, alts):
                    v[p] = a
                out.append(tuple(v))
    out.sort()
    return out


class NotAFont(Exception):
    pass


# ------------------------------------------------------------------ model + writer
def type1_header(ff) -> bytes:
    out = bytearray(
        b"%!PS-AdobeFont-1.0: Foo 001.001\n12 dict begin\n"
        b"/FontInfo 9 dict dup begin /version (001.001) readonly def /FullName (Foo) readonly def end readonly def\n"
        b"/FontName /ABCDEF+Foo def\n"
    )
    if ff[0] == "standard":
        out += b"/Encoding StandardEncoding def\n"
        for code, name in (ff[1] if len(ff) > 1 else ()):
            out += b"dup %d /%s put\n" % (code, name.encode())
    else:
        out += b"/Encoding 256 array\n0 1 255 {1 index exch /.notdef put} for\n"
        for code, name in ff[1]:
            out += b"dup %d /%s put\n" % (code, name.encode())
        out += b"readonly def\n"
    out += (
        b"/PaintType 0 def\n/FontType 1 def\n/FontMatrix [0.001 0 0 0.001 0 0] readonly def\n"
        b"/FontBBox{0 -200 1000 800}readonly def\ncurrentdict end\ncurrentfile eexec\n"
    )
    return bytes(out)


SPELL_INDIRECT = frozenset({"Encoding", "Differences", "Widths", "WidthElems", "FontDescriptor"})  # what spelling "indirect" means
ALL_SLOTS = ["Encoding", "Differences", "BaseEncoding", "Widths", "WidthElems", "FirstChar", "LastChar", "FontDescriptor", "MissingWidth", "Length1",
             "FontMatrix", "FontBBox", "BaseFont"]


def build(vec: Tuple[int, ...], slots=None):
    """-> (pdf bytes, model) ; model = list of 256 dicts(text, adv, tsrc, wsrc, name, judged_text).
    ``slots``: names of the sub-objects written as indirect references (default: by the spelling dimension)."""
    sub, enc, form, diff, tou, wid, fm, ff, spell = (DIMS[i][1][c] for i, c in enumerate(vec))
    wkind, basefont, firstchar, wlist, missing = wid
    is_t3 = sub == "Type3"
    # ---- combinations that are not fonts at all (not cases)
    if not is_t3 and vec[6]:
        raise NotAFont("FontMatrix on a non-Type3 font")
    if is_t3 and (wkind != "plain" or ff is not None):
        raise NotAFont("Type3 with standard-14 name / FontFile")
    if sub == "TrueType" and (ff is not None or (wkind != "plain" and basefont != "Arial")):
        raise NotAFont("TrueType with FontFile / Type 1 standard-14 name")
    if sub == "MMType1" and wkind != "plain":
        raise NotAFont("MMType1 standard-14")
    if wkind != "plain" and ff is not None:
        raise NotAFont("standard-14 with FontFile")
    if diff is not None:
        form = "dict"
    if is_t3 and enc is None and form == "name":
        raise NotAFont("Type3 without Encoding")
    if ff is not None and ff[0] == "vector" and any(n in ("u110000", "uni0041zzzz") for _, n in ff[1]):
        if enc is not None or form == "dict":
            raise NotAFont("header variant only meaningful when the built-in encoding is used")

    # ---- reference model: glyph names per code
    judged = [True] * 256
    names: Dict[int, str] = {}
    src: Dict[int, str] = {}
    builtin: Optional[Dict[int, str]] = None
    if ff is not None:
        builtin = dict(R.latin_names("StandardEncoding")) if ff[0] == "standard" else {c: n for c, n in ff[1] if n != ".notdef"}
    own = basefont if (wkind == "std14" and basefont in ("Symbol", "ZapfDingbats")) else None
    agl_table = R.zapf_table() if own == "ZapfDingbats" else None
    if own is not None:
        builtin = R.pdfjs_names(own)
    has_encoding_key = not (enc is None and form == "name")
    if own is not None and not has_encoding_key:
        names, basesrc = dict(builtin), "builtin-" + own
    elif own is not None and enc is None:
        names, basesrc = dict(builtin), "implicit-builtin-" + own
    elif not has_encoding_key:
        if builtin is not None:
            names, basesrc = dict(builtin), "builtin"
        else:
            names, basesrc = dict(R.latin_names("StandardEncoding")), "implicit-standard"
    elif enc is None:  # dictionary without BaseEncoding
        if builtin is not None:
            names, basesrc = dict(builtin), "implicit-builtin"
        elif is_t3:
            names, basesrc = {}, "type3-empty"
            judged = [False] * 256
        else:
            names, basesrc = dict(R.latin_names("StandardEncoding")), "implicit-standard"
    elif enc == "FooEncoding":
        names, basesrc = {}, "unknown-base"
        judged = [False] * 256
    else:
        names, basesrc = dict(R.latin_names(enc)), ("base-macexpert" if enc == "MacExpertEncoding" else "base")
    for c in names:
        src[c] = basesrc
    base_text = {c: R.agl_text(n, agl_table) for c, n in names.items()}
    if basesrc in ("unknown-base", "type3-empty", "implicit-builtin") or own is not None or enc == "MacExpertEncoding":
        # classification hint only (never judged): the table a kept "base" character would come from
        hint = {c: R.agl_text(n) for c, n in R.latin_names("StandardEncoding").items()}
        hint.update(base_text)
        base_text = hint
    if ff is not None and ff[0] == "standard" and len(ff) > 1:
        for c, _ in ff[1]:
            judged[c] = False
    if diff is not None:
        code = 0
        for x in diff:
            if isinstance(x, int):
                code = x
            else:
                if 0 <= code <= 255:
                    names[code] = x.v.decode()
                    was = src.get(code)
                    if was is None:
                        # pdfminer lays Differences over *some* table even when the model's base is empty/unknown
                        src[code] = "diff-over-" + basesrc if (basesrc in ("unknown-base", "type3-empty", "implicit-builtin") or own is not None or enc == "MacExpertEncoding") else "diff"
                    elif not was.startswith("diff"):
                        src[code] = "diff-over-" + was
                    judged[code] = True
                code += 1
    # ---- ToUnicode
    tu: Dict[int, str] = {}
    tou_unjudged = set()
    if tou is not None and tou[0] == "raw":
        tou_sections = []
        tu.update(tou[2])
        tou_unjudged = set(tou[3])
    else:
        tou_sections = [] if tou is None else (list(tou[1]) if tou[0] == "sections" else [tou])
    for sec in tou_sections:
        for c, s in sec[0]:
            tu[c[0]] = s
        for a, b, t in sec[1]:
            for i, c in enumerate(range(a[0], b[0] + 1)):
                if isinstance(t, list):
                    tu[c] = t[i]
                else:
                    u16 = bytearray(t.encode("utf-16-be"))
                    v = int.from_bytes(u16[-2:], "big") + i
                    assert v <= 0xFFFF
                    u16[-2:] = v.to_bytes(2, "big")
                    tu[c] = bytes(u16).decode("utf-16-be")
    # ---- widths
    metrics = None
    if wkind == "std14":
        from pdfminer.fontmetrics import FONT_METRICS

        metrics = FONT_METRICS[basefont][1]
    hs = Fraction(1, 1000)
    if is_t3:
        hs = Fraction(FONTMATRIX[vec[6]][0])  # (w, 0) x FontMatrix = (a*w, b*w)
    model = []
    for code in range(256):
        name = names.get(code)
        glyph_text = R.agl_text(name, agl_table) if name is not None else ""
        if code in tu:
            text, tsrc, jt = tu[code], "tounicode", True
        elif glyph_text:
            text, tsrc, jt = glyph_text, src[code], judged[code]
        else:
            text, tsrc, jt = "(cid:%d)" % code, ("undefined-name:" + src[code]) if name is not None else "unencoded:" + basesrc, judged[code]
        if (name is not None and R.has_lowercase_hex_form(name)) or code in tou_unjudged:
            jt = False
        if metrics is not None and basefont == "ZapfDingbats":
            # pdfminer's ZapfDingbats metrics (from the AFM) are keyed chr(N) for the glyph named aN, ' ' for space
            import re as _re

            mm = _re.fullmatch(r"a(\d+)", name or "")
            key = chr(int(mm.group(1))) if mm else None  # other names: no such glyph in this font
            w = metrics.get(key, 0) if key else 0
            wsrc = "std14-metric-zapfdingbats"
            # the space glyph's own metric is lost in pdfminer's table (its key ' ' == chr(32) is taken by a32): not judged
            jw = judged[code] and glyph_text != " "
        elif metrics is not None:
            w = metrics.get(glyph_text, 0) if glyph_text else 0
            wsrc = "std14-metric"
            jw = judged[code]
        else:
            i = code - firstchar
            if 0 <= i < len(wlist):
                w, wsrc = wlist[i], "widths"
            else:
                w, wsrc = (missing if missing is not None else 0), "missingwidth"
            if wkind == "std14+widths":
                wsrc = "std14-explicit-" + wsrc
            jw = True
        if is_t3 and vec[6]:
            wsrc += "/fontmatrix%d" % vec[6]
        model.append({"text": text, "adv": Fraction(w) * hs * FONTSIZE, "tsrc": tsrc, "wsrc": wsrc, "name": name, "jt": jt, "jw": jw, "base": base_text.get(code)})

    # ---- the font dictionary
    doc = Doc()
    if slots is None:
        slots = SPELL_INDIRECT if spell == "indirect" else frozenset()

    def ind(slot: str, o: Any) -> Any:
        return doc.add(o) if slot in slots else o

    font: Dict[str, Any] = {"Type": N("Font"), "Subtype": N(sub)}
    if not is_t3:
        font["BaseFont"] = ind("BaseFont", N(basefont))
    if has_encoding_key:
        if form == "name":
            font["Encoding"] = ind("Encoding", N(enc))
        else:
            e: Dict[str, Any] = {"Type": N("Encoding")}
            if enc is not None:
                e["BaseEncoding"] = ind("BaseEncoding", N(enc))
            if diff is not None:
                e["Differences"] = ind("Differences", list(diff))
            font["Encoding"] = ind("Encoding", e)
    if wlist is not None:
        font["FirstChar"] = ind("FirstChar", firstchar)
        font["LastChar"] = ind("LastChar", firstchar + len(wlist) - 1)
        wl: List[Any] = list(wlist)
        if "WidthElems" in slots:
            wl = [doc.add(w) if i % 3 == 1 else w for i, w in enumerate(wl)]
        font["Widths"] = ind("Widths", wl)
    if wkind != "std14":
        fd: Dict[str, Any] = {
            "Type": N("FontDescriptor"), "FontName": N(basefont), "Flags": 32, "FontBBox": [0, -200, 1000, 800],
            "Ascent": 800, "Descent": -200, "ItalicAngle": 0, "CapHeight": 700, "StemV": 80,
        }
        if missing is not None:
            fd["MissingWidth"] = ind("MissingWidth", missing)
        if ff is not None:
            hdr = type1_header(ff)
            body = bytes((i * 7 + 3) & 0xFF for i in range(64))
            trailer = b"0" * 64 + b"\ncleartomark\n"
            fd["FontFile"] = doc.add(Stream({"Length1": ind("Length1", len(hdr)), "Length2": len(body), "Length3": len(trailer)}, hdr + body + trailer))
        if not is_t3 or missing is not None:
            font["FontDescriptor"] = ind("FontDescriptor", fd)
    if is_t3:
        font["FontBBox"] = ind("FontBBox", [0, -200, 1000, 800])
        font["FontMatrix"] = ind("FontMatrix", list(FONTMATRIX[vec[6]]))
        glyph = doc.add(Stream({}, b"1000 0 0 -200 1000 800 d1 0 0 1000 800 re f"))
        procs = {n: glyph for n in sorted({m["name"] for m in model if m["name"]} | {"A"})}
        font["CharProcs"] = procs
        font["Resources"] = {}
    if tou is not None:
        font["ToUnicode"] = doc.add(Stream({}, tou[1] if tou[0] == "raw" else b"".join(tounicode_cmap(sec[0], sec[1]) for sec in tou_sections)))
    content = b"BT /F1 %d Tf 10 700 Td " % FONTSIZE + ser(HexStr(bytes(range(256)))) + b" Tj ET"
    pdf = page_doc(content, {"F1": doc.add(font)}, doc=doc)
    return pdf, model


# ------------------------------------------------------------------ classification
def classify(kind: str, m: Dict[str, Any], obs_text: str, obs_adv: float, ctx: Dict[str, Any]) -> str:
    name = m.get("name")
    if kind == "text":
        tsrc = m["tsrc"]
        core = name.split(".")[0] if name else ""
        if tsrc.endswith("base-macexpert"):
            return "C06/macexpert-base-encoding-unknown"
        for own in ("Symbol", "ZapfDingbats"):
            if tsrc.endswith("builtin-" + own):
                return f"C06/{own.lower()}-builtin-encoding-ignored"
        if ctx.get("fontfile") == "standard" and tsrc in ("builtin", "implicit-builtin"):
            return "C06/type1-header-named-encoding-ignored"
        if tsrc.startswith("diff") and "_" in core and any(R.agl_component(c) == "" for c in core.split("_")):
            return "C06/agl-unmapped-component-voids-whole-name"
        if tsrc.startswith("undefined-name:diff-over") and not obs_text.startswith("(cid:"):
            if name.startswith("u") and m.get("base") != obs_text:
                return "C06/agl-uni-prefix-not-anchored"
            return "C06/diff-unmapped-name-keeps-base-char"
        if tsrc.endswith("implicit-builtin"):
            return "C06/implicit-base-ignores-builtin-encoding"
        if tsrc.startswith("undefined-name") and not obs_text.startswith("(cid:"):
            return "C06/agl-uni-prefix-not-anchored" if name and name.startswith("u") else "C06/text:undefined-name-got-text"
        return "C06/text:" + tsrc.split(":")[0]
    wsrc = m["wsrc"]
    if ctx.get("macexpert") and wsrc.startswith("std14-metric"):
        return "C06/macexpert-base-encoding-unknown"
    if ctx.get("builtin14") == "Symbol" and wsrc == "std14-metric":
        return "C06/symbol-builtin-encoding-ignored"
    if wsrc == "std14-metric-zapfdingbats":
        return "C06/zapfdingbats-builtin-encoding-ignored" if ctx.get("builtin14") else "C06/zapfdingbats-metric-not-found-for-glyph"
    if wsrc.split("/")[0].endswith("widths") and m["adv"] == 0 and obs_adv != 0:
        return "C06/zero-Widths-entry-treated-as-absent"
    if wsrc.startswith("std14-explicit"):
        return "C06/std14-ignores-explicit-Widths"
    if "/fontmatrix" in wsrc:
        return "C06/type3-advance-not-FontMatrix-a:" + wsrc.split("/")[1]
    if wsrc == "std14-metric" and m["tsrc"] == "tounicode" and name and R.agl_text(name) == "" and ctx.get("basefont"):
        # ToUnicode hides which character pdfminer derived for the glyph; tell the causes apart by the metric used
        from pdfminer.fontmetrics import FONT_METRICS

        bw = FONT_METRICS[ctx["basefont"]][1].get(m.get("base") or "", None)
        if bw is not None and R.close(obs_adv, Fraction(bw * FONTSIZE, 1000)):
            return "C06/diff-unmapped-name-keeps-base-char"
        if name.startswith("u"):
            return "C06/agl-uni-prefix-not-anchored"
    if wsrc == "std14-metric" and name and "_" in name.split(".")[0] and any(R.agl_component(c) == "" for c in name.split(".")[0].split("_")):
        return "C06/agl-unmapped-component-voids-whole-name"
    if wsrc == "std14-metric" and m["tsrc"] == "tounicode":
        return "C06/std14-metric-looked-up-by-ToUnicode-text"
    if wsrc == "std14-metric" and m["tsrc"].startswith("undefined-name") and name and name.startswith("u") and not obs_text.startswith("(cid:") and obs_text != m.get("base"):
        return "C06/agl-uni-prefix-not-anchored"  # the wrongly derived character also supplies the metric
    if wsrc == "std14-metric" and m["tsrc"].startswith("undefined-name:diff-over"):
        return "C06/diff-unmapped-name-keeps-base-char"  # the kept base character also supplies the metric
    if wsrc == "std14-metric" and m["tsrc"].startswith("diff") and m.get("name") and "_" in m["name"].split(".")[0]:
        return "C06/agl-unmapped-component-voids-whole-name"
    return "C06/width:" + wsrc


def compare(pdf: bytes, model: List[Dict[str, Any]], ctx: Dict[str, Any], codes=None):
    """-> (violations [(sig, code, expected, observed, what)], observed summary)"""
    viol = []
    try:
        g = R.glyphs(pdf)[0]
    except Exception as e:  # noqa
        import traceback

        tb = traceback.extract_tb(e.__traceback__)
        where = next((f.name for f in reversed(tb) if "/pdfminer/" in f.filename), tb[-1].name)
        sig = f"C06/exception:{type(e).__name__}@{where}"
        return [(sig, -1, "256 glyphs", f"{type(e).__name__}: {e}", "font construction / rendering raised")], ("exc", type(e).__name__)
    if len(g) != 256:
        return [("C06/glyph-count", -1, 256, len(g), "not one glyph per one-byte code")], ("count", len(g))
    for code in (range(256) if codes is None else codes):
        m = model[code]
        t, adv = g[code][0], g[code][1]
        if m["jt"] and t != m["text"]:
            viol.append((classify("text", m, t, adv, ctx), code, m["text"], t, f"text of code {code} (glyph name {m['name']!r}, source {m['tsrc']})"))
        if m["jw"] and not R.close(adv, m["adv"]):
            viol.append((classify("width", m, t, adv, ctx), code, float(m["adv"]), adv, f"advance of code {code} (source {m['wsrc']})"))
    return viol, tuple((x[0], round(x[1], 6)) for x in g)


def describe(vec) -> Dict[str, Any]:
    d = {}
    for (label, alts), c in zip(DIMS, vec):
        v = alts[c]
        if label in ("differences", "tounicode", "widths", "fontmatrix", "fontfile"):
            d[label] = c
        else:
            d[label] = v
    return d


def jmodel(model):
    return [[m["text"], m["adv"], m["tsrc"], m["wsrc"], m["name"], m["jt"], m["jw"], m.get("base")] for m in model]


def unjmodel(j):
    out = []
    for row in j:
        a, b, c, d, e, f, g, h = row[:8]
        m = {"text": a, "adv": b, "tsrc": c, "wsrc": d, "name": e, "jt": f, "jw": g, "base": h}
        if len(row) > 8 and row[8] is not None:
            m["mixed"] = row[8]
        out.append(m)
    return out


def ctx_of(vec) -> Dict[str, Any]:
    ff = FONTFILES[vec[7]]
    bf = WIDTHS[vec[5]][1] if WIDTHS[vec[5]][0] == "std14" else None
    return {"fontfile": ff[0] if ff else None, "basefont": bf, "macexpert": ENCODINGS[vec[1]] == "MacExpertEncoding",
            "builtin14": bf if (bf in ("Symbol", "ZapfDingbats") and ENCODINGS[vec[1]] is None) else None}


# ------------------------------------------------------------------ process-wide tables
_SNAP: Dict[str, Dict[int, str]] = {}


def tables_changed(restore: bool = True) -> List[Tuple[str, int, Any, Any]]:
    """EncodingDB's class-level tables are shared by every font of the process: building a font must not change them.
    Returns [(encoding, code, before, after)] and (optionally) restores the tables so later cases stay self-contained."""
    from pdfminer.encodingdb import EncodingDB

    if not _SNAP:
        for k, t in EncodingDB.encodings.items():
            _SNAP[k] = dict(t)
        return []
    out = []
    for k, t in EncodingDB.encodings.items():
        if t != _SNAP[k]:
            for c in sorted(set(t) | set(_SNAP[k])):
                if t.get(c) != _SNAP[k].get(c):
                    out.append((k, c, _SNAP[k].get(c), t.get(c)))
            if restore:
                t.clear()
                t.update(_SNAP[k])
    return out


def check_tables(st, pdf: bytes) -> None:
    ch = tables_changed()
    if ch:
        st.violation("C06/differences-overlay-leaks-into-shared-table", {"family": "leak", "pdf": pdf}, "shared encoding tables unchanged",
                     [list(x) for x in ch[:8]], "EncodingDB class-level table changed by building a font")


def run_font(vec, st) -> None:
    tables_changed()
    try:
        pdf, model = build(vec)
    except NotAFont:
        st.add("vectors_not_fonts", 1)
        return
    ctx = ctx_of(vec)
    viol, obs = compare(pdf, model, ctx)
    check_tables(st, pdf)
    st.traces += 1
    nt = any(m["jt"] and not m["text"].startswith("(cid:") for m in model) and any(m["adv"] for m in model)
    st.case(None, nontrivial=nt, outcome=obs)
    st.add("codes_compared_text", sum(1 for m in model if m["jt"]))
    st.add("codes_compared_width", sum(1 for m in model if m["jw"]))
    nj = sum(1 for m in model if not m["jt"])
    if nj:
        st.not_judged["text of codes depending on unknown base / Type3 implicit base / lower-case hex names"] += nj
    jm = None
    for sig, code, exp, ob, what in viol:
        if st.viol_counts[sig] >= st.MAX_VIOL_PER_SIG:
            st.viol_counts[sig] += 1  # counted, not stored (the runner keeps the first few per signature and shard)
            continue
        if jm is None:
            jm = jmodel(model)
        st.violation(sig, {"family": "font", "vec": list(vec), "desc": describe(vec), "code": code, "pdf": pdf, "model": jm, "ctx": ctx}, exp, ob, what)


# ------------------------------------------------------------------ names family
HEX9 = "01789ADEF"
BOUND4 = ["0000", "0041", "D7FF", "D800", "DFFF", "E000", "FFFF", "20AC"]


def name_pool(tier: str) -> List[str]:
    from pdfminer.glyphlist import glyphname2unicode

    out: List[str] = []
    out += sorted(glyphname2unicode)  # every list name
    out += ["uni" + "".join(d) for d in itertools.product(HEX9, repeat=4)]
    out += ["uni" + a + b for a in BOUND4 for b in BOUND4]
    out += ["uni" + a + b + c for a in BOUND4 for b in BOUND4 for c in BOUND4]
    out += ["u" + "".join(d) for d in itertools.product(HEX9, repeat=4)]
    out += ["u" + x for x in ("10000", "1040C", "FFFFF", "0FFFF", "0D800", "0DFFF", "0E000", "0D7FF", "10FFFF", "110000", "00D800", "00E000", "100000", "FFFFFF", "00D7FF", "00DFFF", "000041")]
    # wrong lengths
    out += ["uni", "uni0", "uni00", "uni004", "uni00410", "uni004100", "uni0041004", "u", "u0", "u04", "u041", "u0000041", "u00000041"]
    # non-hex tails, prefix-only matches, characters that strip() would remove
    out += ["uni0041zzzz", "uni004G", "uni0041004G", "u004G", "u0041G", "uniG041", "uG041", "unin0041", "unii0041", "uniu0041", "uu0041", "u0041u", "uni0041i",
            "uni0041n", "uniuni0041", "nuni0041", "Uni0041", "U0041", "UNI0041", "uni 0041", "uni+0041", "uni-041", "u+0041", "u-041", "uni0041 ", "uni00 41", "u0x41", "uni0x41"]
    comps = ["A", "f", "uni0042", "uni00430044", "u0045", "u1F600", "foo", "uniD800", "u110000", ".notdef"[1:], "space", "Lcommaaccent", ""]
    out += [a + "_" + b for a in comps for b in comps]
    if tier == "thorough":
        out += [a + "_" + b + "_" + c for a in comps for b in comps for c in comps]
    else:
        out += [a + "_" + b + "_" + c for a in comps[:7] for b in comps[:7] for c in comps[:7]]
    base = ["A", "uni0041", "u0041", "f_i", "foo", "A_foo", "uniD800", "Lcommaaccent_uni20AC0308_u1040C"]
    out += [b + s for b in base for s in (".", ".alt", ".alt.x", ".sc_x", "._", ".uni0042", "..")]
    out += [".notdef", ".", "._A", ".A", "", "_", "__", "_A", "A_"]
    # lower-case forms: generated only to be counted as not judged
    out += ["uni013b", "u013b", "uni20ac0308", "u1040c"]
    seen = set()
    uniq = []
    for n in out:
        if n not in seen:
            seen.add(n)
            uniq.append(n)
    return uniq


def check_name(name: str):
    """-> (sig or None, expected, observed, outcome)"""
    from pdfminer.encodingdb import name2unicode

    exp = R.agl_text(name)
    try:
        got: Any = name2unicode(name)
        kind = "value"
    except KeyError:
        got, kind = None, "KeyError"
    except Exception as e:  # noqa
        got, kind = f"{type(e).__name__}: {e}", type(e).__name__
    if kind == "value" and not isinstance(got, str):
        return "C06/name2unicode-returns-non-str", exp, repr(got), ("nonstr",)
    if kind not in ("value", "KeyError"):
        return f"C06/name2unicode-raises:{kind}", exp or "KeyError", got, ("raises", kind)
    if exp == "":
        if kind == "KeyError" or got == "":
            return None, exp, got, ("undef",)
        pref = any(c.startswith("u") for c in name.split(".")[0].split("_"))
        return ("C06/agl-uni-prefix-not-anchored" if pref else "C06/name:undefined-got-text"), "KeyError", got, ("text", got)
    if kind == "KeyError":
        core = name.split(".")[0]
        if "_" in core and any(R.agl_component(c) == "" for c in core.split("_")):
            return "C06/agl-unmapped-component-voids-whole-name", exp, "KeyError", ("undef",)
        return "C06/name:defined-got-KeyError", exp, "KeyError", ("undef",)
    if got != exp:
        core = name.split(".")[0]
        if "_" in core and any(R.agl_component(c) == "" for c in core.split("_")):
            return "C06/agl-unmapped-component-voids-whole-name", exp, got, ("text", got)
        return "C06/name:wrong-text", exp, got, ("text", got)
    return None, exp, got, ("text", got)


def run_names(names: List[str], st) -> None:
    for name in names:
        if R.has_lowercase_hex_form(name):
            st.not_judged["lower-case hexadecimal uni/u glyph name (pinned by the repository tests)"] += 1
            continue
        sig, exp, got, outcome = check_name(name)
        st.states += 1
        st.transitions += 1
        st.traces += 1
        st.case(("name", name), nontrivial=bool(exp), outcome=outcome)
        if sig:
            st.violation(sig, {"family": "names", "name": name}, exp if exp else "KeyError (no mapping)", got, f"name2unicode({name!r})")


# ------------------------------------------------------------------ tables family
WIN_UNUSED = {127, 129, 141, 143, 144, 157}  # Annex D.2 note: unused codes > 40 octal map to bullet; not judged
MAC_OS_ONLY = {173, 176, 178, 179, 182, 183, 184, 185, 186, 189, 195, 197, 198, 215, 240}  # Annex D.2 note 3: Mac OS Roman additions


def table_cells(enc: str):
    """yield (code, expected: set of acceptable texts or None for 'undefined', note)"""
    import unicodedata

    if enc == "WinAnsiEncoding":
        for c in range(256):
            if c < 32:
                yield c, None, "control"
            elif c in WIN_UNUSED:
                yield c, "skip", "unused code (bullet by note 5 of Annex D.2)"
            elif c == 160:
                yield c, {" ", " "}, "space (note 6)"
            elif c == 173:
                yield c, {"-", "­"}, "hyphen (note 7)"
            else:
                yield c, {bytes([c]).decode("cp1252")}, "cp1252"
    elif enc == "MacRomanEncoding":
        for c in range(256):
            if c < 32 or c == 127:
                yield c, None, "control"
            elif c in MAC_OS_ONLY:
                yield c, None, "Mac OS Roman only (note 3)"
            elif c == 202:
                yield c, {" ", " "}, "space (note 6)"
            elif c == 219:
                yield c, {"¤"}, "currency (pre-Euro Mac Roman)"
            else:
                u = bytes([c]).decode("mac_roman")
                yield c, {u, unicodedata.normalize("NFC", u)}, "mac_roman"
    elif enc == "PDFDocEncoding":
        t = R.pdfdoc_annex_d()
        for c in range(256):
            if c < 0x18:
                yield c, "skip", "control range (no glyph names)"
            else:
                yield c, ({chr(t[c])} if c in t else None), "Annex D.2"
    else:
        raise ValueError(enc)


def run_tables(st) -> None:
    import unicodedata

    from pdfminer.encodingdb import EncodingDB
    from pdfminer.pdffont import CFFFont
    from pdfminer.utils import PDFDocEncoding

    for enc in ("WinAnsiEncoding", "MacRomanEncoding", "PDFDocEncoding"):
        impl = EncodingDB.get_encoding(enc)
        ref_names = R.latin_names(enc)
        for c, exp, note in table_cells(enc):
            st.states += 1
            st.transitions += 1
            st.traces += 1
            got = impl.get(c)
            if exp == "skip":
                st.not_judged["table cell without an independent expectation: " + note] += 1
                continue
            st.case(("cell", enc, c), nontrivial=exp is not None, outcome=(enc, c, got))
            ok = (got is None) if exp is None else (got is not None and (got in exp or unicodedata.normalize("NFC", got) in exp))
            if not ok:
                st.violation(f"C06/table:{enc}:{c}", {"family": "tables", "encoding": enc, "code": c}, sorted(exp) if exp else None, got,
                             f"{enc} code {c}: glyph name {ref_names.get(c)!r}; independent source: {note}")
    # PDFDocEncoding text-string table agrees with the frozen table as well
    t = R.pdfdoc_annex_d()
    for c in range(0x18, 256):
        st.states += 1
        st.transitions += 1
        st.traces += 1
        st.case(("pdfdoc-utils", c), nontrivial=c in t, outcome=("utils", c, PDFDocEncoding[c]))
        if c in t and PDFDocEncoding[c] != chr(t[c]):
            st.violation(f"C06/table:utils.PDFDocEncoding:{c}", {"family": "tables", "encoding": "utils.PDFDocEncoding", "code": c}, chr(t[c]), PDFDocEncoding[c], "utils.PDFDocEncoding vs Annex D.2")
    # glyph names per code and the glyph list itself against the third-party tables (pdf.js, see mc/refs/fonts_ref.py)
    pj = R.pdfjs_tables()
    for enc in ("StandardEncoding", "MacRomanEncoding", "WinAnsiEncoding"):
        mine = R.latin_names(enc)
        theirs = {c: n for c, n in enumerate(pj["encodings"][enc]) if n}
        for c in range(256):
            st.states += 1
            st.transitions += 1
            st.traces += 1
            a, b = mine.get(c), theirs.get(c)
            if a is None and b is not None:
                # pdf.js fills WinAnsi's unused codes with bullet and serves Mac OS Roman's additions under MacRoman
                st.not_judged["table cell defined only by the third-party table (lenient fill-ins)"] += 1
                continue
            st.case(("names", enc, c), nontrivial=a is not None, outcome=(enc, c, a))
            same = a == b or (a, b) in (("nbspace", "space"), ("space", "nbspace"))
            if not same:
                st.violation(f"C06/table-names:{enc}:{c}", {"family": "tables", "encoding": enc + ":names", "code": c}, b, a, f"{enc} code {c}: latin_enc row names {a!r}, pdf.js table {b!r}")
    from pdfminer.glyphlist import glyphname2unicode

    theirs_gl = pj["glyphlist"]
    bad = []
    for name in sorted(glyphname2unicode):
        st.states += 1
        st.transitions += 1
        st.traces += 1
        if name not in theirs_gl:
            st.not_judged["glyph-list entry absent from the third-party list (multi-code-point entries)"] += 1
            continue
        st.case(("glyphlist", name), nontrivial=True, outcome=("gl", name, glyphname2unicode[name]))
        if glyphname2unicode[name] != chr(theirs_gl[name]):
            bad.append(name)
    for name in bad:
        sig = f"C06/glyphlist:{name}" if len(bad) <= 16 else "C06/glyphlist:many"
        st.violation(sig, {"family": "tables", "encoding": "glyphlist", "code": name}, chr(theirs_gl[name]), glyphname2unicode[name], "Adobe glyph list entry vs pdf.js glyph list")
    # StandardEncoding: names in code order are the CFF standard strings SID 1..149
    std = R.latin_names("StandardEncoding")
    order = [std[c] for c in sorted(std)]
    sids = list(CFFFont.STANDARD_STRINGS[1:150])
    st.states += 1
    st.transitions += 1
    st.traces += 1
    st.case(("std-order",), nontrivial=True, outcome=("std", len(order)))
    if order != sids:
        bad = next((i for i, (a, b) in enumerate(zip(order, sids)) if a != b), min(len(order), len(sids)))
        st.violation("C06/table:StandardEncoding:order", {"family": "tables", "encoding": "StandardEncoding", "code": -1}, sids[bad : bad + 3], order[bad : bad + 3], "StandardEncoding names in code order vs CFF standard strings")
    impl = EncodingDB.get_encoding("StandardEncoding")
    for c in range(256):
        st.states += 1
        st.transitions += 1
        st.traces += 1
        exp_t = R.agl_text(std[c]) if c in std else None
        st.case(("cell", "StandardEncoding", c), nontrivial=exp_t is not None, outcome=("std", c, impl.get(c)))
        if impl.get(c) != exp_t:
            st.violation(f"C06/table:StandardEncoding:{c}", {"family": "tables", "encoding": "StandardEncoding", "code": c}, exp_t, impl.get(c), "EncodingDB table vs rows + AGL")


# ------------------------------------------------------------------ share family
def share_docs():
    """Two fonts in one document: F1 overlays Differences on a base table, F2 uses the same base plainly."""
    for enc in ("WinAnsiEncoding", "StandardEncoding", "MacRomanEncoding", "PDFDocEncoding", None):
        for diff in (DIFFS[1], DIFFS[8], DIFFS[4]):
            for order in ("diff-first", "plain-first"):
                yield enc, diff, order


def build_share(enc, diff, order):
    base_vec = [0] * len(DIMS)
    v1 = list(base_vec)
    v1[1] = ENCODINGS.index(enc)
    v1[3] = DIFFS.index(diff)
    v2 = list(base_vec)
    v2[1] = ENCODINGS.index(enc)
    _, m1 = build(tuple(v1))
    _, m2 = build(tuple(v2))
    # rebuild both fonts inside one document
    fonts = {}
    doc = Doc()
    for key, vec in (("F1", v1), ("F2", v2)):
        e = None
        encn = ENCODINGS[vec[1]]
        d = DIFFS[vec[3]]
        if d is not None:
            e = {"Type": N("Encoding"), "Differences": list(d)}
            if encn:
                e["BaseEncoding"] = N(encn)
        elif encn:
            e = N(encn)
        wk, bf, fc, wl, mw = WIDTHS[0]
        f = {"Type": N("Font"), "Subtype": N("Type1"), "BaseFont": N(bf), "FirstChar": fc, "LastChar": fc + len(wl) - 1, "Widths": list(wl),
             "FontDescriptor": {"Type": N("FontDescriptor"), "FontName": N(bf), "Flags": 32, "FontBBox": [0, -200, 1000, 800], "Ascent": 800, "Descent": -200,
                                "ItalicAngle": 0, "CapHeight": 700, "StemV": 80, "MissingWidth": mw}}
        if e is not None:
            f["Encoding"] = e
        fonts[key] = doc.add(f)
    allc = ser(HexStr(bytes(range(256))))
    seq = [("F1", m1), ("F2", m2)] if order == "diff-first" else [("F2", m2), ("F1", m1)]
    if order == "plain-first":
        # a third, separate font object equal to the plain one, built after the overlay
        f3 = dict(doc.objs[fonts["F2"].num][1])
        fonts["F3"] = doc.add(f3)
        seq.append(("F3", m2))
    content = b"BT " + b" ".join(b"/%s %d Tf 10 700 Td %s Tj" % (k.encode(), FONTSIZE, allc) for k, _ in seq) + b" ET"
    pdf = page_doc(content, fonts, doc=doc)
    return pdf, [m for _, mm in seq for m in mm]


# fonts listed in one /Font resource dictionary partly as indirect references, partly as direct (inline) dictionaries
MIXED_FONTS = {
    "A": ("WinAnsiEncoding", 0, 0),  # (base encoding, Differences index, widths index)
    "B": ("MacRomanEncoding", 1, 1),
    "C": ("StandardEncoding", 8, 3),
}
MIXED_LAYOUTS = [
    (("A", "ind"), ("B", "dir")),
    (("B", "dir"), ("A", "ind")),
    (("B", "ind"), ("A", "dir")),
    (("A", "ind"), ("B", "dir"), ("C", "ind")),
    (("A", "ind"), ("B", "dir"), ("C", "dir")),
    (("A", "dir"), ("B", "ind"), ("C", "dir")),
    (("C", "ind"), ("C", "dir"), ("A", "dir")),
]


def mixed_docs():
    for li in range(len(MIXED_LAYOUTS)):
        for show in ("listed-order", "reverse-order"):
            yield li, show


def build_mixed(li: int, show: str):
    lay = MIXED_LAYOUTS[li]
    doc = Doc()
    res: Dict[str, Any] = {}
    models = {}
    for n, (key, how) in enumerate(lay):
        encn, di, wi = MIXED_FONTS[key]
        vec = [0] * len(DIMS)
        vec[1] = ENCODINGS.index(encn)
        vec[3] = di
        vec[5] = wi
        _, model = build(tuple(vec))
        d = DIFFS[di]
        e: Any = N(encn)
        if d is not None:
            e = {"Type": N("Encoding"), "BaseEncoding": N(encn), "Differences": list(d)}
        wk, bf, fc, wl, mw = WIDTHS[wi]
        fd = {"Type": N("FontDescriptor"), "FontName": N(bf), "Flags": 32, "FontBBox": [0, -200, 1000, 800], "Ascent": 800, "Descent": -200,
              "ItalicAngle": 0, "CapHeight": 700, "StemV": 80}
        if mw is not None:
            fd["MissingWidth"] = mw
        f = {"Type": N("Font"), "Subtype": N("Type1"), "BaseFont": N(bf), "FirstChar": fc, "LastChar": fc + len(wl) - 1, "Widths": list(wl),
             "FontDescriptor": fd, "Encoding": e}
        name = "F%d" % (n + 1)
        res[name] = doc.add(f) if how == "ind" else f
        models[name] = (model, key, how, n)
    names = list(res)
    if show == "reverse-order":
        names.reverse()
    allc = ser(HexStr(bytes(range(256))))
    content = b"BT " + b" ".join(b"/%s %d Tf 10 700 Td %s Tj" % (k.encode(), FONTSIZE, allc) for k in names) + b" ET"
    pdf = page_doc(content, None, resources_extra={"Font": res}, doc=doc)
    model = []
    for k in names:
        mm, key, how, n = models[k]
        after_ind = how == "dir" and any(h == "ind" for _, h in lay[:n])
        model += [dict(m, mixed="direct-after-indirect" if after_ind else how) for m in mm]
    return pdf, model


def compare_share(pdf, model):
    try:
        g = R.glyphs(pdf)[0]
    except Exception as e:  # noqa
        return [(f"C06/exception:{type(e).__name__}@share", -1, "512 glyphs", f"{type(e).__name__}: {e}", "two-font document raised")], ("exc",)
    if len(g) != len(model):
        return [("C06/glyph-count", -1, len(model), len(g), "two-font document")], ("count", len(g))
    viol = []
    for i, m in enumerate(model):
        if m["jt"] and g[i][0] != m["text"]:
            sig = classify("text", m, g[i][0], g[i][1], {})
            if m.get("mixed") == "direct-after-indirect":
                sig = "C06/direct-font-dict-answered-with-another-font"
            elif m["tsrc"] in ("base", "implicit-standard") and "mixed" not in m:
                sig = "C06/differences-overlay-leaks-into-shared-table"
            viol.append((sig, i, m["text"], g[i][0], f"glyph {i} (font shown #{i // 256 + 1}, code {i % 256}, source {m['tsrc']})"))
        if not R.close(g[i][1], m["adv"]):
            viol.append(("C06/direct-font-dict-answered-with-another-font" if m.get("mixed") == "direct-after-indirect" else "C06/width:" + m["wsrc"], i, float(m["adv"]), g[i][1], f"glyph {i} advance"))
    return viol, tuple(x[0] for x in g)


def run_mixed(st) -> None:
    for li, show in mixed_docs():
        tables_changed()
        pdf, model = build_mixed(li, show)
        viol, obs = compare_share(pdf, model)
        check_tables(st, pdf)
        st.states += 1
        st.transitions += 1
        st.traces += 1
        st.case(("mixed", li, show), nontrivial=True, outcome=obs)
        for sig, i, exp, ob, what in viol:
            if st.viol_counts[sig] >= st.MAX_VIOL_PER_SIG:
                st.viol_counts[sig] += 1
                continue
            st.violation(sig, {"family": "share", "layout": [list(x) for x in MIXED_LAYOUTS[li]], "show": show, "index": i, "pdf": pdf, "model": jmodel_mixed(model)}, exp, ob, what)


def jmodel_mixed(model):
    return [row + [m.get("mixed")] for row, m in zip(jmodel(model), model)]


def glyphs_with(rm, pdf: bytes):
    import io

    from pdfminer.converter import PDFPageAggregator
    from pdfminer.layout import LTChar
    from pdfminer.pdfdocument import PDFDocument
    from pdfminer.pdfinterp import PDFPageInterpreter
    from pdfminer.pdfpage import PDFPage
    from pdfminer.pdfparser import PDFParser

    dev = PDFPageAggregator(rm, laparams=None)
    ip = PDFPageInterpreter(rm, dev)
    out = []
    for page in PDFPage.create_pages(PDFDocument(PDFParser(io.BytesIO(pdf)))):
        ip.process_page(page)
        out += [(it.get_text(), it.adv) for it in dev.get_result() if isinstance(it, LTChar)]
    return out


NOCACHE_VECS = [dict(), dict(encoding=3, widths=1), dict(encoding=2, differences=1, widths=2), dict(subtype=1, widths=3)]


def check_nocache(i: int, j: int):
    """A PDFResourceManager(caching=False) used for document i and then for document j (same object numbers, other
    font): the second document is read with its own font.  -> (pdfs, violations, outcome)"""
    from pdfminer.pdfinterp import PDFResourceManager

    (pa, _), (pb, mb) = build(_vec(**NOCACHE_VECS[i])), build(_vec(**NOCACHE_VECS[j]))
    rm = PDFResourceManager(caching=False)
    viol = []
    try:
        glyphs_with(rm, pa)
        g = glyphs_with(rm, pb)
    except Exception as e:  # noqa
        return (pa, pb), [(f"C06/exception:{type(e).__name__}@nocache", -1, "512 glyphs", f"{type(e).__name__}: {e}", "raised")], ("exc",)
    if len(g) != 256:
        return (pa, pb), [("C06/glyph-count", -1, 256, len(g), "second document")], ("count", len(g))
    for code, m in enumerate(mb):
        if m["jt"] and g[code][0] != m["text"]:
            viol.append(("C06/caching-off-still-answers-from-font-cache", code, m["text"], g[code][0], f"second document, text of code {code}"))
        if m["jw"] and not R.close(g[code][1], m["adv"]):
            viol.append(("C06/caching-off-still-answers-from-font-cache", code, float(m["adv"]), g[code][1], f"second document, advance of code {code}"))
    return (pa, pb), viol, tuple((t, round(a, 6)) for t, a in g)


def run_nocache(st) -> None:
    n = len(NOCACHE_VECS)
    for i in range(n):
        for j in range(n):
            if i == j:
                continue
            pdfs, viol, obs = check_nocache(i, j)
            st.states += 1
            st.transitions += 1
            st.traces += 1
            st.case(("nocache", i, j), nontrivial=True, outcome=obs)
            for sig, code, exp, ob, what in viol:
                if st.viol_counts[sig] >= st.MAX_VIOL_PER_SIG:
                    st.viol_counts[sig] += 1
                    continue
                st.violation(sig, {"family": "nocache", "first": i, "second": j, "code": code}, exp, ob, what)


def run_share(st) -> None:
    for enc, diff, order in share_docs():
        tables_changed()
        pdf, model = build_share(enc, diff, order)
        viol, obs = compare_share(pdf, model)
        check_tables(st, pdf)
        st.states += 1
        st.transitions += 1
        st.traces += 1
        st.case(("share", enc, DIFFS.index(diff), order), nontrivial=True, outcome=obs)
        for sig, i, exp, ob, what in viol:
            st.violation(sig, {"family": "share", "enc": enc, "diff": DIFFS.index(diff), "order": order, "index": i, "pdf": pdf, "model": jmodel(model)}, exp, ob, what)


# ------------------------------------------------------------------ indir family: every sub-object direct / by reference
# Three feature-rich fonts; every applicable sub-object (ALL_SLOTS) is written either directly or as "N 0 R".  quick: all
# subsets with at most 2 and with at least k-1 of the k slots indirect; thorough: all 2^k subsets.
def _vec(**kw) -> Tuple[int, ...]:
    v = [0] * len(DIMS)
    for i, (label, _) in enumerate(DIMS):
        if label in kw:
            v[i] = kw[label]
    return tuple(v)


INDIR_FONTS = [
    # embedded Type 1 program with its own vector + Differences-only dictionary + ToUnicode + Widths from 32 + MissingWidth
    ("type1-builtin-differences", dict(encoding=1, differences=1, tounicode=1, widths=0, fontfile=1),
     ["Encoding", "Differences", "Widths", "WidthElems", "FirstChar", "LastChar", "FontDescriptor", "MissingWidth", "Length1", "BaseFont"]),
    # Type3: BaseEncoding + Differences, Widths from 200, anisotropic FontMatrix
    ("type3-base-differences", dict(subtype=3, encoding=3, differences=2, widths=2, fontmatrix=2),
     ["Encoding", "Differences", "BaseEncoding", "Widths", "WidthElems", "FirstChar", "FontDescriptor", "MissingWidth", "FontMatrix", "FontBBox"]),
    # TrueType: encoding by name, full Widths, several-section ToUnicode
    ("truetype-named-encoding", dict(subtype=1, encoding=3, widths=1, tounicode=9),
     ["Encoding", "Widths", "WidthElems", "FirstChar", "LastChar", "FontDescriptor", "BaseFont"]),
    # embedded program whose header names StandardEncoding, Differences-only dictionary, fractional widths
    ("type1-standard-header", dict(encoding=1, differences=8, widths=4, fontfile=2),
     ["Encoding", "Differences", "Widths", "WidthElems", "FirstChar", "FontDescriptor", "MissingWidth", "Length1"]),
]


def indir_cases(tier: str):
    for fi, (_, _, slots) in enumerate(INDIR_FONTS):
        k = len(slots)
        for r in range(0, k + 1):
            if tier == "quick" and 2 < r < k - 1:
                continue
            for sub in itertools.combinations(range(k), r):
                yield fi, sub


def indir_signature(slots, label: str) -> str:
    slots = sorted(slots)
    if len(slots) == 1:
        return "C06/indirect-sub-object:" + slots[0]
    if "BaseEncoding" in slots:
        return "C06/indirect-sub-object:BaseEncoding"  # diagnosed: the name is read without resolving the reference
    return "C06/indirect-sub-objects:" + label


def run_indir(cases, st) -> None:
    for fi, sub in cases:
        label, kw, slotnames = INDIR_FONTS[fi]
        vec = _vec(**kw)
        slots = frozenset(slotnames[i] for i in sub)
        tables_changed()
        pdf, model = build(vec, slots)
        ctx = ctx_of(vec)
        viol, obs = compare(pdf, model, ctx)
        check_tables(st, pdf)
        st.states += 1 + len(sub)
        st.transitions += len(sub) + 1
        st.traces += 1
        st.case(("indir", fi, sub), nontrivial=True, outcome=obs)
        jm = None
        for sig, code, exp, ob, what in viol:
            sig = indir_signature(slots, label)
            if st.viol_counts[sig] >= st.MAX_VIOL_PER_SIG:
                st.viol_counts[sig] += 1
                continue
            if jm is None:
                jm = jmodel(model)
            st.violation(sig, {"family": "indir", "font": label, "vec": list(vec), "slots": sorted(slots), "code": code, "pdf": pdf, "model": jm, "ctx": ctx}, exp, ob,
                         what + f" [indirect: {sorted(slots)}]")


# ------------------------------------------------------------------ std14 family: every metrics name
# Alternative names of the standard fonts (PDF Reference 1.7, implementation note 62 / Table H.3): a font with one of
# these BaseFont names and no /Widths takes the metrics of the canonical face.
STD14_ALIASES = {
    "Arial": "Helvetica", "Arial,Italic": "Helvetica-Oblique", "Arial,Bold": "Helvetica-Bold", "Arial,BoldItalic": "Helvetica-BoldOblique",
    "CourierNew": "Courier", "CourierNew,Italic": "Courier-Oblique", "CourierNew,Bold": "Courier-Bold", "CourierNew,BoldItalic": "Courier-BoldOblique",
    "TimesNewRoman": "Times-Roman", "TimesNewRoman,Italic": "Times-Italic", "TimesNewRoman,Bold": "Times-Bold", "TimesNewRoman,BoldItalic": "Times-BoldItalic",
}
STD14_CANONICAL = ["Courier", "Courier-Bold", "Courier-BoldOblique", "Courier-Oblique", "Helvetica", "Helvetica-Bold", "Helvetica-BoldOblique",
                   "Helvetica-Oblique", "Symbol", "Times-Bold", "Times-BoldItalic", "Times-Italic", "Times-Roman", "ZapfDingbats"]
STD14_ENCODINGS = [None, "WinAnsiEncoding", "MacRomanEncoding"]


def metrics_fingerprint(w) -> Dict[str, Any]:
    import hashlib

    return {"blake2b8": hashlib.blake2b(repr(sorted(w.items())).encode(), digest_size=8).hexdigest(), "glyphs": len(w), "sum": sum(w.values())}


def std14_doc(basefont: str, enc: Optional[str]):
    from mc.pdfgen import type1_font

    f = type1_font(basefont) if enc is None else type1_font(basefont, Encoding=N(enc))
    content = b"BT /F1 %d Tf 10 700 Td " % FONTSIZE + ser(HexStr(bytes(range(256)))) + b" Tj ET"
    return page_doc(content, {"F1": f})


def check_std14_doc(basefont: str, enc: Optional[str]):
    """-> (pdf, [(sig, code, expected, observed, what)], outcome)"""
    from pdfminer.fontmetrics import FONT_METRICS

    canonical = STD14_ALIASES.get(basefont, basefont)
    metrics = FONT_METRICS[canonical][1]
    names = R.latin_names(enc or "StandardEncoding")
    pdf = std14_doc(basefont, enc)
    try:
        g = R.glyphs(pdf)[0]
    except Exception as e:  # noqa
        return pdf, [(f"C06/exception:{type(e).__name__}@std14", -1, "256 glyphs", f"{type(e).__name__}: {e}", "standard-font document raised")], ("exc",)
    if len(g) != 256:
        return pdf, [("C06/glyph-count", -1, 256, len(g), "standard-font document")], ("count", len(g))
    viol = []
    for code in range(256):
        ch = R.agl_text(names[code]) if code in names else ""
        exp_t = ch or "(cid:%d)" % code
        exp_w = Fraction(metrics.get(ch, 0) if ch else 0) * FONTSIZE / 1000
        if g[code][0] != exp_t:
            viol.append(("C06/text:base", code, exp_t, g[code][0], f"{basefont}: text of code {code}"))
        if not R.close(g[code][1], exp_w):
            sig = "C06/std14-alias-takes-metrics-of-another-face" if basefont in STD14_ALIASES else "C06/width:std14-metric"
            viol.append((sig, code, float(exp_w), g[code][1], f"{basefont} (metrics of {canonical}): advance of code {code} ({names.get(code)})"))
    return pdf, viol, tuple((x[0], round(x[1], 6)) for x in g)


def run_std14(st) -> None:
    import json
    import os

    from pdfminer.fontmetrics import FONT_METRICS

    # (a) the metrics table: every name is a canonical face or a known alternative name of one; an alternative name
    #     carries the canonical face's metrics; the canonical metrics are the ones frozen on the snapshot
    with open(os.path.join(os.path.dirname(os.path.dirname(os.path.abspath(__file__))), "data", "c06_std14_metrics.json")) as f:
        frozen = json.load(f)["fingerprints"]
    for name in sorted(FONT_METRICS):
        st.states += 1
        st.transitions += 1
        st.traces += 1
        st.case(("std14-table", name), nontrivial=True, outcome=("fp", name, metrics_fingerprint(FONT_METRICS[name][1])["blake2b8"]))
        if name in STD14_ALIASES:
            if FONT_METRICS[name][1] != FONT_METRICS[STD14_ALIASES[name]][1]:
                st.violation("C06/std14-alias-takes-metrics-of-another-face", {"family": "std14-table", "name": name}, STD14_ALIASES[name],
                             next((k for k in STD14_CANONICAL if FONT_METRICS[k][1] == FONT_METRICS[name][1]), "none of the 14"), f"metrics registered for {name}")
        elif name in frozen:
            got = metrics_fingerprint(FONT_METRICS[name][1])
            if got != frozen[name]:
                st.violation(f"C06/std14-metrics-changed:{name}", {"family": "std14-table", "name": name}, frozen[name], got, f"built-in metrics of {name} differ from the frozen snapshot")
        else:
            st.violation(f"C06/std14-unknown-metrics-name:{name}", {"family": "std14-table", "name": name}, "a standard-14 name or a documented alternative", name, "metrics name")
    for name in STD14_CANONICAL + sorted(STD14_ALIASES):
        if name not in FONT_METRICS:
            st.violation(f"C06/std14-metrics-missing:{name}", {"family": "std14-table", "name": name}, "present", "absent", "metrics name")
    # (b) through documents: every metrics name as BaseFont without /Widths, all 256 codes
    for name in sorted(FONT_METRICS):
        if name in ("Symbol", "ZapfDingbats"):
            continue  # own encodings: explored (and recorded) by the font family
        for enc in STD14_ENCODINGS:
            pdf, viol, obs = check_std14_doc(name, enc)
            st.states += 1
            st.transitions += 1
            st.traces += 1
            st.case(("std14-doc", name, enc), nontrivial=True, outcome=obs)
            for sig, code, exp, ob, what in viol:
                if st.viol_counts[sig] >= st.MAX_VIOL_PER_SIG:
                    st.viol_counts[sig] += 1
                    continue
                st.violation(sig, {"family": "std14-doc", "basefont": name, "encoding": enc, "code": code, "pdf": pdf}, exp, ob, what)


# ------------------------------------------------------------------ shards
def shards(tier):
    b = BOUNDS[tier]
    vs = vectors(b["deviations"])
    _VS_CACHE[tier] = vs  # inherited by the forked one-shot workers
    n = b["shards"]
    size = (len(vs) + n - 1) // n
    out = [("font", i, min(i + size, len(vs))) for i in range(0, len(vs), size)]
    names = name_pool(tier)
    nn = 8 if tier == "quick" else 16
    sz = (len(names) + nn - 1) // nn
    out += [("names", i, min(i + sz, len(names))) for i in range(0, len(names), sz)]
    out += [("tables",), ("share",), ("std14",)]
    ic = list(indir_cases(tier))
    per = 40
    out += [("indir", i, min(i + per, len(ic))) for i in range(0, len(ic), per)]
    return out


_VS_CACHE: Dict[str, list] = {}


def run_shard(shard, tier, st):
    fam = shard[0]
    if fam == "font":
        if tier not in _VS_CACHE:
            _VS_CACHE[tier] = vectors(BOUNDS[tier]["deviations"])
        vs = _VS_CACHE[tier]
        lo, hi = shard[1], shard[2]
        prev = vs[lo - 1] if lo else None
        if lo == 0:
            st.states += 1  # root
        for i in range(lo, hi):
            v = vs[i]
            if prev is None:
                new = len(v)
            else:
                lcp = 0
                while lcp < len(v) and v[lcp] == prev[lcp]:
                    lcp += 1
                new = len(v) - lcp
            st.states += new
            st.transitions += new
            prev = v
            run_font(v, st)
            if i == lo and lo % 7 == 0:
                try:
                    pdf, model = build(v)
                    st.sample({"family": "font", "vector": describe(v), "pdf_bytes": len(pdf), "expected_first": [(c, model[c]["text"], float(model[c]["adv"])) for c in (0, 65, 128, 255)]})
                except NotAFont:
                    pass
    elif fam == "names":
        names = name_pool(tier)[shard[1] : shard[2]]
        run_names(names, st)
        st.sample({"family": "names", "first": names[0], "last": names[-1], "count": len(names)})
    elif fam == "tables":
        run_tables(st)
        st.sample({"family": "tables", "encodings": list(R.ENC_COLUMN)})
    elif fam == "indir":
        cases = list(indir_cases(tier))[shard[1] : shard[2]]
        run_indir(cases, st)
        if shard[1] == 0:
            st.sample({"family": "indir", "font": INDIR_FONTS[cases[-1][0]][0], "indirect": [INDIR_FONTS[cases[-1][0]][2][i] for i in cases[-1][1]]})
    elif fam == "std14":
        run_std14(st)
        st.sample({"family": "std14", "names": len(STD14_ALIASES) + len(STD14_CANONICAL), "encodings": STD14_ENCODINGS})
    elif fam == "share":
        run_share(st)
        run_mixed(st)
        run_nocache(st)
    else:
        raise ValueError(shard)


# ------------------------------------------------------------------ replay
def replay(case):
    fam = case["family"]
    out = []
    if fam == "font":
        model = unjmodel(case["model"])
        codes = None if case["code"] < 0 else [case["code"]]
        viol, _ = compare(case["pdf"], model, case.get("ctx") or {}, codes)
        for sig, code, exp, ob, what in viol:
            out.append({"signature": sig, "expected": repr(exp), "observed": repr(ob)})
    elif fam == "names":
        sig, exp, got, _ = check_name(case["name"])
        if sig:
            out.append({"signature": sig, "expected": repr(exp if exp else "KeyError"), "observed": repr(got)})
    elif fam == "tables":
        from mc.core import Stats

        st = Stats()
        st.MAX_VIOL_PER_SIG = 10**6
        run_tables(st)
        for v in st.violations:
            if v["case"].get("encoding") == case["encoding"] and v["case"].get("code") == case["code"]:
                out.append({"signature": v["signature"], "expected": repr(v["expected"]), "observed": repr(v["observed"])})
    elif fam == "indir":
        model = unjmodel(case["model"])
        codes = None if case["code"] < 0 else [case["code"]]
        viol, _ = compare(case["pdf"], model, case.get("ctx") or {}, codes)
        slots = case["slots"]
        for sig, code, exp, ob, what in viol:
            sig = indir_signature(slots, case["font"])
            out.append({"signature": sig, "expected": repr(exp), "observed": repr(ob)})
    elif fam == "nocache":
        _, viol, _ = check_nocache(case["first"], case["second"])
        for sig, code, exp, ob, what in viol:
            if code == case["code"]:
                out.append({"signature": sig, "expected": repr(exp), "observed": repr(ob)})
    elif fam == "std14-doc":
        _, viol, _ = check_std14_doc(case["basefont"], case["encoding"])
        for sig, code, exp, ob, what in viol:
            if code == case["code"]:
                out.append({"signature": sig, "expected": repr(exp), "observed": repr(ob)})
    elif fam == "std14-table":
        from mc.core import Stats

        st = Stats()
        st.MAX_VIOL_PER_SIG = 10**6
        run_std14(st)
        for v in st.violations:
            if v["case"].get("family") == "std14-table" and v["case"].get("name") == case["name"]:
                out.append({"signature": v["signature"], "expected": repr(v["expected"]), "observed": repr(v["observed"])})
    elif fam == "leak":
        tables_changed()
        try:
            R.glyphs(case["pdf"])
        except Exception:  # noqa
            pass
        ch = tables_changed()
        if ch:
            out.append({"signature": "C06/differences-overlay-leaks-into-shared-table", "expected": "unchanged", "observed": repr(ch[:8])})
    elif fam == "share":
        viol, _ = compare_share(case["pdf"], unjmodel(case["model"]))
        for sig, i, exp, ob, what in viol:
            if i == case["index"]:
                out.append({"signature": sig, "expected": repr(exp), "observed": repr(ob)})
    return out
