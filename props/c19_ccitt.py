"""C19 -- CCITT Group 4 decoding inverts a conforming encoder for every bitmap.

Shape A: the T.6 reference encoder (mc/refs/t6.py) is a nondeterministic
transition system: state (row, a0, colour, reference line), transitions = the
admissible codings (pass when b2<a1, vertical when |a1-b1|<=3, horizontal
always).  All bitmaps up to a size bound x all encoder paths x EncodedByteAlign
x BlackIs1 x EOFB present/absent are decoded by the real decoder and compared
with the rows written.  Wide rows: every pattern of <= 3 runs from a boundary
set of run lengths (64-multiples, 1728/1792, 2560 repetition).
"""
from __future__ import annotations

import itertools

from pdfminer.ccitt import ccittfaxdecode
from pdfminer.pdftypes import PDFStream
from pdfminer.psparser import LIT
from mc.refs import t6

ID = "C19"
LEVEL = "model_checking"

RUNS = [1, 2, 63, 64, 65, 127, 128, 129, 1728, 1791, 1792, 1793, 2559, 2560, 2561, 2623, 2624, 5120, 5121]

RUNMAX = 2700  # > 2560 + 128: every terminating code, every make-up code and the 2560 repetition, both colours

BOUNDS = {
    # (full-product sizes), (one-deviating-line sizes), wide patterns max runs
    "quick": {"full": [(w, h) for w in range(1, 5) for h in (1, 2)] + [(5, 1), (6, 1), (7, 1), (8, 1), (9, 1)],
              "dev": [(5, 2), (6, 2), (3, 3)], "wide_runs": 2, "wide3": False},
    "thorough": {"full": [(w, h) for w in range(1, 7) for h in (1, 2)] + [(7, 1), (8, 1), (9, 1), (10, 1), (3, 3)],
                 "dev": [(7, 2), (8, 2), (9, 2), (4, 3), (5, 3), (4, 4), (3, 5), (2, 7)], "wide_runs": 3, "wide3": True},
}

META = {
    "rule": (
        "reference T.6 encoder as a transition system; 'full' sizes: every bitmap x every combination of admissible "
        "per-line coding paths; 'dev' sizes: every bitmap x (all lines flow-chart coded, plus every path of each single "
        "line with the others flow-chart coded, plus horizontal-only); each encoding x EncodedByteAlign x BlackIs1 x EOFB "
        "present/absent, decoded by ccittfaxdecode (and by PDFStream.get_data for the flow-chart path). wide: every "
        "sequence of <= wide_runs run lengths from a 19-value boundary set (first run white, optionally empty), as a "
        "single horizontal-coded row and followed by a shifted copy (vertical/pass modes on wide reference lines); runs: "
        "every run length 0..2700 of each colour as a horizontal-coded row (all terminating and make-up codes). "
        "states = encoder states (row, a0, colour) visited, transitions = codings taken, traces = complete encodings "
        "decoded and compared; non-trivial = encoding with at least one black pixel. history: one CCITTFaxDecoder OBJECT used for a call history - every image "
        "(all 1- and 2-row bitmaps of width 3, 72 of width 8; thorough: also every 1- and 2-row first image of width 4 with one-row second images) fed in two chunks at every split point, and fed up to every byte prefix (complete, or cut in the "
        "middle of a row), then reset(), then every image of the same width: the second image must decode as on a fresh decoder; chain: every bitmap up to 4x2 and three wide "
        "two-row images behind ASCIIHex, ASCII85, Flate, Flate+ASCIIHex, RunLength (full and abbreviated filter names) and behind a decipher callback, through PDFStream.get_data."
    ),
    "bound": {k: f"full product for sizes {v['full']}; one deviating line for {v['dev']}; wide rows with <= {v['wide_runs']} runs" for k, v in BOUNDS.items()},
    "assumptions": [
        "code tables are frozen from the pinned tree (data/ccitt_tables.json), checked prefix-free, complete, and against 31 codes of ITU-T T.4 stated independently; a transcription error present in both would not be seen",
        "the reference encoder is validated on every encoding by its own spec-literal decoder (mc/refs/t6.ref_decode)",
        "padding bits after the last pixel of a row are not judged",
        "the 'random' sub-quantifier of the property is replaced by the enumerated boundary family of wide rows",
        "uncompressed mode and Group 3 (K >= 0) are outside the property",
    ],
}


def decode_impl(data, w, bytealign, blackis1, columns_explicit=True):
    params = {"K": -1, "EncodedByteAlign": bytealign, "BlackIs1": blackis1}
    if columns_explicit:
        params["Columns"] = w
    return ccittfaxdecode(data, params)


def judge(st, rows, line_bits, labels, w, via_stream=False, light=False):
    """decode one encoding under the 8 (align, polarity, eofb) configurations
    (light: 2 of them - used for the every-run-length family, which is about code tables)"""
    h = len(rows)
    mask = t6.row_mask(w, h)
    nontriv = any(any(r) for r in rows)
    for bytealign in (False, True):
        for eofb in (True, False):
            if light and (eofb != (not bytealign)):
                continue
            data = t6.assemble(line_bits, bytealign, eofb)
            # reference decoder validates the encoder (harness self-check)
            if t6.ref_decode(data, w, h, bytealign) != [list(r) for r in rows]:
                raise RuntimeError(f"reference encoder/decoder disagree: {rows} {labels}")
            for blackis1 in (False, True):
                if light and blackis1 != bytealign:
                    continue
                exp = t6.packed_rows(rows, blackis1)
                case = {"rows": [list(r) for r in rows], "w": w, "labels": labels, "data": data,
                        "bytealign": bytealign, "blackis1": blackis1, "eofb": eofb, "via_stream": False}
                try:
                    got = decode_impl(data, w, bytealign, blackis1)
                except Exception as e:  # noqa
                    got = f"{type(e).__name__}: {e}"
                st.traces += 1
                st.case(None, nontrivial=nontriv, outcome=(len(got), got[:2]) if isinstance(got, bytes) else got)
                if not same(got, exp, mask):
                    st.violation(classify(case, got, exp), case, exp, got, "decoded rows differ from the rows encoded")
                if via_stream and eofb:
                    s = PDFStream({"Filter": LIT("CCITTFaxDecode"), "DecodeParms": {"K": -1, "Columns": w, "EncodedByteAlign": bytealign, "BlackIs1": blackis1}}, data)
                    try:
                        got2 = s.get_data()
                    except Exception as e:  # noqa
                        got2 = f"{type(e).__name__}: {e}"
                    st.traces += 1
                    if not same(got2, exp, mask):
                        st.violation("C19/pdfstream-get_data", {**case, "via_stream": True}, exp, got2, "PDFStream.get_data differs")


def same(got, exp, mask):
    if not isinstance(got, bytes) or len(got) != len(exp):
        return False
    return all((a ^ b) & m == 0 for a, b, m in zip(got, exp, mask))


def classify(case, got, exp):
    if not isinstance(got, bytes):
        return "C19/exception:" + got.split(":")[0]
    kinds = sorted({l[0] for line in case["labels"] for l in line})
    if len(got) != len(exp):
        return "C19/row-count:" + "".join(kinds)
    return "C19/pixels:" + "".join(kinds) + (":wide" if case["w"] > 64 else "")


def all_rows(w):
    return list(itertools.product((0, 1), repeat=w))


def explore_bitmap(st, rows, w, full):
    """Walk the encoder's transition system for one bitmap."""
    ref = (0,) * w
    per_line = []
    for r in rows:
        paths = list(t6.line_paths(ref, r, "all"))
        per_line.append(paths)
        # node/edge accounting of the per-line choice tree
        seen = set()
        for labels, _ in paths:
            for i in range(len(labels)):
                seen.add(tuple(labels[: i + 1]))
        st.transitions += len(seen)
        st.states += len(seen) + 1
        ref = r
    std = []
    ref = (0,) * w
    for r in rows:
        std.append(next(t6.line_paths(ref, r, "std")))
        ref = r
    if full:
        first = True
        for combo in itertools.product(*per_line):
            judge(st, rows, [c[1] for c in combo], [c[0] for c in combo], w, via_stream=(list(combo) == std))
            first = False
    else:
        judge(st, rows, [c[1] for c in std], [c[0] for c in std], w, via_stream=True)
        for i, paths in enumerate(per_line):
            for p in paths:
                if p == std[i]:
                    continue
                combo = list(std)
                combo[i] = p
                judge(st, rows, [c[1] for c in combo], [c[0] for c in combo], w)
        ref = (0,) * w
        honly = []
        for r in rows:
            honly.append(next(t6.line_paths(ref, r, "h")))
            ref = r
        if honly != std:
            judge(st, rows, [c[1] for c in honly], [c[0] for c in honly], w)


def wide_row(runs):
    row = []
    col = 0
    for n in runs:
        row += [col] * n
        col = 1 - col
    return tuple(row)


def explore_wide(st, runs):
    r = wide_row(runs)
    w = len(r)
    if w == 0:
        return
    white = (0,) * w
    for mode in ("h", "std"):
        p = next(t6.line_paths(white, r, mode))
        st.states += len(p[0]) + 1
        st.transitions += len(p[0])
        judge(st, [r], [p[1]], [p[0]], w, via_stream=(mode == "h"))
    # second line: shifted copies -> vertical / pass codings against a wide reference line
    for shift in (0, 1, 3, 4):
        r2 = ((0,) * shift + r)[:w]
        for mode in ("std", "h"):
            p1 = next(t6.line_paths(white, r, "h"))
            p2 = next(t6.line_paths(r, r2, mode))
            st.states += len(p2[0]) + 1
            st.transitions += len(p2[0])
            judge(st, [r, r2], [p1[1], p2[1]], [p1[0], p2[0]], w)


def std_encode(rows, w, bytealign, eofb=True):
    ref = (0,) * w
    bits = []
    for r in rows:
        bits.append(next(t6.line_paths(ref, r, "std"))[1])
        ref = r
    return t6.assemble(bits, bytealign, eofb)


# rows of width 8 used by the call-history families (runs starting with either colour, full/empty rows, single pixels)
ROWS8 = [(0,) * 8, (1,) * 8, (0, 0, 0, 1, 1, 1, 0, 0), (1, 0, 1, 0, 1, 0, 1, 0), (0, 1, 1, 1, 1, 1, 1, 0), (1, 1, 1, 1, 0, 0, 0, 0), (0, 0, 0, 0, 0, 0, 0, 1), (1, 0, 0, 0, 0, 0, 0, 0)]


def history_images(w):
    if w == 8:
        rows = ROWS8
        return [[a] for a in rows] + [[a, b] for a in rows for b in rows]
    rows = all_rows(w)
    return [[a] for a in rows] + [[a, b] for a in rows for b in rows]


def explore_history(st, w, first_image):
    """One decoder OBJECT used for a history of calls: (1) data fed in two chunks at every split point equals data fed at once;
    (2) after reset() - whatever prefix of another image was fed before, complete or cut in the middle of a row - the next image
    decodes as on a fresh decoder (rows already emitted stay in front of it)."""
    from pdfminer.ccitt import CCITTFaxDecoder

    images = history_images(w)
    if w == 4:
        images = [img for img in images if len(img) == 1]  # thorough only: every first image of width 4, second images of one row (cost)
    A = first_image
    for bytealign in (False, True):
        dataA = std_encode(A, w, bytealign)
        for blackis1 in (False, True):
            fresh = {}
            for B in images:
                dB = std_encode(B, w, bytealign)
                try:
                    d = CCITTFaxDecoder(w, bytealign=bytealign, reversed=blackis1)
                    d.feedbytes(dB)
                    out = d.close()
                except Exception as e:  # noqa - a decoder that raises on a conforming encoding is the other families' finding; here it is only the reference
                    out = f"{type(e).__name__}: {e}"
                    st.violation("C19/exception:" + type(e).__name__, {"history": "fresh", "w": w, "rows": [list(r) for r in B], "bytealign": bytealign, "blackis1": blackis1, "k": 0},
                                 t6.packed_rows(B, blackis1), out, "fresh decoder raises on a conforming encoding")
                fresh[tuple(B)] = (dB, out)
            # (1) split feeding of A
            whole = fresh[tuple(A)][1] if tuple(A) in fresh else None
            if whole is None:
                try:
                    d = CCITTFaxDecoder(w, bytealign=bytealign, reversed=blackis1)
                    d.feedbytes(dataA)
                    whole = d.close()
                except Exception:  # noqa
                    whole = None
            for k in range(0, len(dataA) + 1):
                st.states += 1
                st.transitions += 2
                st.traces += 1
                case = {"history": "split", "w": w, "rows": [list(r) for r in A], "bytealign": bytealign, "blackis1": blackis1, "k": k}
                try:
                    d = CCITTFaxDecoder(w, bytealign=bytealign, reversed=blackis1)
                    d.feedbytes(dataA[:k])
                    d.feedbytes(dataA[k:])
                    got = d.close()
                except Exception as e:  # noqa
                    got = f"{type(e).__name__}: {e}"
                st.case(None, nontrivial=any(any(r) for r in A), outcome=("split", got if not isinstance(got, bytes) else len(got)))
                if whole is not None and got != whole:
                    st.violation("C19/history:split-feed-differs", case, whole, got, "feeding the data in two chunks differs from feeding it at once")
            # (2) reset after every byte prefix of A, then every image B
            for k in range(0, len(dataA) + 1):
                for B in images:
                    dB, expB = fresh[tuple(B)]
                    st.states += 1
                    st.transitions += 3
                    st.traces += 1
                    case = {"history": "reset", "w": w, "rows": [list(r) for r in A], "rows2": [list(r) for r in B], "bytealign": bytealign, "blackis1": blackis1, "k": k}
                    try:
                        d = CCITTFaxDecoder(w, bytealign=bytealign, reversed=blackis1)
                        d.feedbytes(dataA[:k])
                        pre = d.close()
                        d.reset()
                        d.feedbytes(dB)
                        got = d.close()
                        got = got[len(pre):] if got[: len(pre)] == pre else b"<rows emitted before reset() changed>" + got
                    except Exception as e:  # noqa
                        got = f"{type(e).__name__}: {e}"
                    st.case(None, nontrivial=any(any(r) for r in B), outcome=("reset", got if not isinstance(got, bytes) else len(got)))
                    if got != expB:
                        st.violation("C19/history:decoder-after-reset-differs-from-fresh", case, expB, got, "after reset() the decoder does not decode like a fresh one")


CHAINS = [
    (["ASCIIHexDecode", "CCITTFaxDecode"], "ahx"), (["AHx", "CCF"], "ahx"), (["ASCII85Decode", "CCITTFaxDecode"], "a85"), (["FlateDecode", "CCITTFaxDecode"], "fl"),
    (["Fl", "AHx", "CCF"], "fl+ahx"), (["RunLengthDecode", "CCF"], "rl"), (["CCITTFaxDecode"], "decipher"),
]


def explore_chain(st, rows, w):
    """the Group 4 data behind other filters of a PDFStream filter chain, and behind a decipher callback: the decoder must be handed the
    output of the previous stage, and the result equals the direct decoding"""
    import base64
    import zlib

    from mc.refs import filters as F

    for bytealign in (False, True):
        data = std_encode(rows, w, bytealign)
        for blackis1 in (False, True):
            exp = t6.packed_rows(rows, blackis1)
            mask = t6.row_mask(w, len(rows))
            parms = {"K": -1, "Columns": w, "EncodedByteAlign": bytealign, "BlackIs1": blackis1}
            for names, how in CHAINS:
                raw = data
                if how == "ahx":
                    raw = data.hex().encode() + b">"
                elif how == "a85":
                    raw = base64.a85encode(data) + b"~>"
                elif how == "fl":
                    raw = zlib.compress(data)
                elif how == "fl+ahx":
                    raw = zlib.compress(data.hex().encode() + b">")
                elif how == "rl":
                    raw = F.rl_encode(data)
                elif how == "decipher":
                    raw = bytes(b ^ 0x5A for b in data)
                s = PDFStream({"Filter": [LIT(n) for n in names], "DecodeParms": [None] * (len(names) - 1) + [parms]}, raw)
                if how == "decipher":
                    s.set_objid(7, 0)
                    s.decipher = lambda objid, genno, d, attrs=None: bytes(b ^ 0x5A for b in d)
                case = {"chain": names, "how": how, "w": w, "rows": [list(r) for r in rows], "bytealign": bytealign, "blackis1": blackis1}
                st.states += 1
                st.transitions += len(names)
                st.traces += 1
                try:
                    got = s.get_data()
                except Exception as e:  # noqa
                    got = f"{type(e).__name__}: {e}"
                st.case(None, nontrivial=any(any(r) for r in rows), outcome=("chain", how, got if not isinstance(got, bytes) else len(got)))
                if not same(got, exp, mask):
                    st.violation("C19/pdfstream-chain:" + how, case, exp, got, "CCITTFaxDecode as a later stage of a filter chain (or behind decryption) differs from direct decoding")
            # the parameter dictionary as an INDIRECT object: inside the /DecodeParms array, as the whole /DecodeParms, both
            # (added after seeded defect C19_19 was missed); a stand-in document resolves the references
            from pdfminer.pdftypes import PDFObjRef

            class _Doc:
                def __init__(self, objs):
                    self.objs = objs

                def getobj(self, objid):
                    return self.objs[objid]

            hexraw = data.hex().encode() + b">"
            for label, make in (
                ("chain:[null ref]", lambda doc: {"Filter": [LIT("AHx"), LIT("CCF")], "DecodeParms": [None, PDFObjRef(doc, 7, 0)]}),
                ("chain:ref->[null dict]", lambda doc: {"Filter": [LIT("AHx"), LIT("CCF")], "DecodeParms": PDFObjRef(doc, 8, 0)}),
                ("chain:ref->[null ref]", lambda doc: {"Filter": [LIT("AHx"), LIT("CCF")], "DecodeParms": PDFObjRef(doc, 9, 0)}),
                ("single:ref", lambda doc: {"Filter": LIT("CCF"), "DecodeParms": PDFObjRef(doc, 7, 0)}),
                ("single:[ref]", lambda doc: {"Filter": [LIT("CCF")], "DecodeParms": [PDFObjRef(doc, 7, 0)]}),
            ):
                doc = _Doc({7: parms})
                doc.objs[8] = [None, parms]
                doc.objs[9] = [None, PDFObjRef(doc, 7, 0)]
                sd = make(doc)
                case = {"chain": ["indirect"], "how": "indirect:" + label, "w": w, "rows": [list(r) for r in rows], "bytealign": bytealign, "blackis1": blackis1}
                st.states += 1
                st.transitions += 1
                st.traces += 1
                try:
                    got = PDFStream(sd, hexraw if label.startswith("chain") else data).get_data()
                except Exception as e:  # noqa
                    got = f"{type(e).__name__}: {e}"
                st.case(None, nontrivial=any(any(r) for r in rows), outcome=("indirect", label, got if not isinstance(got, bytes) else len(got)))
                if not same(got, exp, mask):
                    st.violation("C19/pdfstream-indirect-parms:" + label, case, exp, got, "the parameter dictionary given as an indirect object changes the decoded rows")
            # spellings of a single filter and its parameters: name or one-element array, each way round (added after seeded defect C19_13 was missed)
            for fname in ("CCITTFaxDecode", "CCF"):
                for f_arr in (False, True):
                    for p_arr in (False, True):
                        for pkey in ("DecodeParms", "DP"):
                            sd = {"Filter": [LIT(fname)] if f_arr else LIT(fname), pkey: [parms] if p_arr else parms}
                            case = {"chain": [fname], "how": f"spelling:filter-{'array' if f_arr else 'name'}:{pkey}-{'array' if p_arr else 'dict'}", "w": w, "rows": [list(r) for r in rows],
                                    "bytealign": bytealign, "blackis1": blackis1}
                            st.states += 1
                            st.transitions += 1
                            st.traces += 1
                            try:
                                got = PDFStream(sd, data).get_data()
                            except Exception as e:  # noqa
                                got = f"{type(e).__name__}: {e}"
                            st.case(None, nontrivial=any(any(r) for r in rows), outcome=("spelling", case["how"], got if not isinstance(got, bytes) else len(got)))
                            if not same(got, exp, mask):
                                st.violation("C19/pdfstream-spelling:" + case["how"].split(":", 1)[1], case, exp, got, "a spelling of /Filter and its parameters changes the decoded rows")


def shards(tier):
    b = BOUNDS[tier]
    out = []
    for w in ((3, 8) if tier == "quick" else (3, 4, 8)):
        for i in range(len(history_images(w))):
            out.append(("history", w, i))
    out.append(("chain",))
    for kind in ("full", "dev"):
        for (w, h) in b[kind]:
            firsts = all_rows(w)
            # split by first row (and for big ones by second row's first bits)
            for fr in firsts:
                out.append((kind, w, h, fr))
    firsts = [0] + RUNS
    for f in firsts:
        out.append(("wide", f))
    out.append(("columns-default",))
    # every run length (all terminating and make-up codes of both colours)
    step = 64
    out += [("runs", a, min(a + step, RUNMAX + 1)) for a in range(0, RUNMAX + 1, step)]
    return out


def run_shard(shard, tier, st):
    b = BOUNDS[tier]
    if shard[0] in ("full", "dev"):
        kind, w, h, fr = shard
        rest = list(itertools.product(all_rows(w), repeat=h - 1))
        for rr in rest:
            rows = [fr] + list(rr)
            explore_bitmap(st, rows, w, kind == "full")
        if fr == all_rows(w)[len(all_rows(w)) // 3] and w in (4, 6):
            rows = [fr] + list(rest[len(rest) // 2])
            ref = (0,) * w
            st.sample({"rows": rows, "paths_per_line": [[p[0] for p in t6.line_paths(a, c, "all")] for a, c in zip([ref] + rows, rows)]})
    elif shard[0] == "history":
        explore_history(st, shard[1], history_images(shard[1])[shard[2]])
        if shard[1:] == (3, 9):
            st.sample({"family": "history", "width": 3, "first_image": history_images(3)[9], "second_images": len(history_images(3))})
    elif shard[0] == "chain":
        for w in (1, 2, 3, 4):
            for h in (1, 2):
                for rows in itertools.product(all_rows(w), repeat=h):
                    explore_chain(st, list(rows), w)
        for runs in ((64, 1728, 8), (0, 2560, 3, 70), (5, 7, 1000, 1)):
            r = wide_row(runs)
            explore_chain(st, [r, ((0, 0, 0) + r)[: len(r)]], len(r))
        st.sample({"family": "chain", "chains": [c[0] for c in CHAINS]})
    elif shard[0] == "wide":
        f = shard[1]
        n = b["wide_runs"]
        for k in range(0, n):
            for tail in itertools.product(RUNS, repeat=k):
                runs = (f,) + tail
                if sum(runs) == 0:
                    continue
                explore_wide(st, runs)
        if f == 2560:
            st.sample({"wide_runs": [2560, 64], "coding": next(t6.line_paths((0,) * 2624, wide_row((2560, 64)), "h"))[0]})
    elif shard[0] == "runs":
        for n in range(shard[1], shard[2]):
            for runs in ((n, 1), (1, n, 1), (0, n)):
                if sum(runs) == 0 or (len(runs) == 3 and n == 0):
                    continue
                r = wide_row(runs)
                p = next(t6.line_paths((0,) * len(r), r, "h"))
                st.states += len(p[0]) + 1
                st.transitions += len(p[0])
                judge(st, [r], [p[1]], [p[0]], len(r), light=True)
    else:
        # ISO 32000-1 Table 11: Columns defaults to 1728
        r = wide_row((100, 28, 1600))
        p = next(t6.line_paths((0,) * 1728, r, "std"))
        data = t6.assemble([p[1]], False, True)
        exp = t6.packed_rows([r], False)
        case = {"rows": [list(r)], "w": 1728, "labels": [p[0]], "data": data, "bytealign": False, "blackis1": False, "eofb": True, "via_stream": False, "columns_default": True}
        try:
            got = ccittfaxdecode(data, {"K": -1})
        except Exception as e:  # noqa
            got = f"{type(e).__name__}: {e}"
        st.traces += 1
        st.states += 1
        st.transitions += 1
        st.case(None, outcome=got if not isinstance(got, bytes) else len(got))
        if got != exp:
            st.violation("C19/columns-default-1728", case, exp, got, "Columns absent must mean 1728 (ISO 32000-1 Table 11)")


def replay(case):
    from mc.core import Stats

    st = Stats()
    rows = [tuple(r) for r in case["rows"]]
    w = case["w"]
    if case.get("history") or case.get("chain"):
        if case.get("history"):
            explore_history(st, w, rows)
        else:
            explore_chain(st, rows, w)
        return [{"signature": v["signature"], "expected": repr(v["expected"]), "observed": repr(v["observed"])} for v in st.violations]
    exp = t6.packed_rows(rows, case["blackis1"])
    mask = t6.row_mask(w, len(rows))
    try:
        if case.get("columns_default"):
            got = ccittfaxdecode(case["data"], {"K": -1})
        elif case.get("via_stream"):
            got = PDFStream({"Filter": LIT("CCITTFaxDecode"), "DecodeParms": {"K": -1, "Columns": w, "EncodedByteAlign": case["bytealign"], "BlackIs1": case["blackis1"]}}, case["data"]).get_data()
        else:
            got = decode_impl(case["data"], w, case["bytealign"], case["blackis1"])
    except Exception as e:  # noqa
        got = f"{type(e).__name__}: {e}"
    if same(got, exp, mask):
        return []
    sig = "C19/columns-default-1728" if case.get("columns_default") else "C19/pdfstream-get_data" if case.get("via_stream") else classify(case, got, exp)
    return [{"signature": sig, "expected": repr(exp), "observed": repr(got)}]
